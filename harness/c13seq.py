"""C13, third family - sessions: query / change / query on ONE long-lived Eups instance.

Model: coq/Model/UsesSeq.v (a database of declared products, table lines as written and the chain file current; the
world of resolved edges it denotes; the effect of assignTag / unassignTag / declare / declare of a tag only /
undeclare) on top of coq/Model/Graph.v.  Theorems: Props/C13.v uses_is_a_function_of_the_world,
session_answer_is_on_the_current_world, uses_inverse_after_changes, retag_moves_the_bare_lines_only, ...

A session is an initial stack (harness/stackgen.py, or the directed family gen_retag_spec: products in several
versions with users through bare lines, pinned lines and both) and 1-4 changes made THROUGH the instance that is
asked.  Before the first change and after every change the harness
  * reads the database back from the files (eups.db.VersionFile / ChainFile over ups_db): what is declared, which
    version current names - this, with the table lines the generator wrote, is the product graph AS IT IS NOW;
  * asks the long-lived instance every listing (getDependentProducts topological F/T, checkCycles, for every declared
    product) and every uses query (the index Eups.uses() returns, some queries also through Eups.uses(x, v)), and
    what each table line denotes now;
  * asks the same of a fresh instance in a forked process whose singletons were reset.
Every step is compared with the model: the world the model computes from the initial database and the changes so far
(world_after) against the edges the real code resolves and against the database read back; the listings and users the
model computes on that world against the real answers (exact ordered lists, as in the first family).  The property's
own oracle (c13.oracle: closure, order, cycles, uses is the inverse of the listings) is evaluated on the real answers
of every step against the graph read back at that step.  The whole session is also put to the extracted run_session
(the function the session theorems speak of) and its answers compared with the real ones.  Modes: through the product cache (readCache=True: listings
and uses) and readCache=False (listings only: Eups.uses enumerates the products through the cache; every declare
carries a tag, because Eups.findProducts answers nothing there and declare then tags every version current).
"""
import json
import os

import common
import stackgen
from common import enc

FLAVOR = stackgen.FLAVOR
NEW_VERSIONS = ["7", "8", "7.1"]


# ------------------------------------------------------------------ generator

def gen_retag_spec(rng):
    """Directed family: a library x in 2-3 versions (some with dependencies of their own), users of x through a bare
    line (whatever is current), through a pinned line, through both / through two versions, and users of users."""
    nver = rng.choice([2, 2, 3])
    vers = ["1", "2", "3"][:nver]
    prods = [{"name": "base", "version": "1", "current": True, "deps": []}]
    if rng.random() < 0.5:
        prods.append({"name": "base", "version": "2", "current": False, "deps": []})
    cur = rng.choice(vers + [None] if rng.random() < 0.2 else vers)
    for v in vers:
        deps = []
        if rng.random() < 0.6:
            deps.append({"name": "base", "version": rng.choice([None, "1"]), "optional": rng.random() < 0.2})
        if rng.random() < 0.25:
            deps.append({"name": "extra", "version": None, "optional": rng.random() < 0.5})
        prods.append({"name": "x", "version": v, "current": v == cur, "deps": deps})
    if rng.random() < 0.5:
        prods.append({"name": "extra", "version": "1", "current": True, "deps": []})
    users = []
    for i in range(rng.randint(2, 4)):
        kind = rng.choice(["bare", "bare", "pinned", "both", "two"])
        if kind == "bare":
            deps = [{"name": "x", "version": None, "optional": rng.random() < 0.2}]
        elif kind == "pinned":
            deps = [{"name": "x", "version": rng.choice(vers), "optional": rng.random() < 0.2}]
        elif kind == "both":
            deps = [{"name": "x", "version": None, "optional": False},
                    {"name": "x", "version": rng.choice(vers), "optional": rng.random() < 0.5}]
        else:
            a, b = rng.sample(vers, 2)
            deps = [{"name": "x", "version": a, "optional": False}, {"name": "x", "version": b, "optional": rng.random() < 0.5}]
        if users and rng.random() < 0.5:
            t = rng.choice(users)
            deps.append({"name": t["name"], "version": rng.choice([None, t["version"]]), "optional": rng.random() < 0.2})
        if rng.random() < 0.3:
            rng.shuffle(deps)
        users.append({"name": "u%d" % (i + 1), "version": "1", "current": True, "deps": deps})
    prods += users
    rng.shuffle(prods)
    return stackgen.normalise({"products": prods, "shape": "retag"})


class Mirror(object):
    """what the generator believes the database to be, used ONLY to choose changes that are likely to matter (a version
    that is declared but not current, a product that has users); never compared with anything"""
    def __init__(self, spec):
        self.decl = {stackgen.pkey(p): p["deps"] for p in spec["products"]}
        self.cur = dict(stackgen.current_of(spec))

    def versions(self, n):
        return sorted(v for (m, v) in self.decl if m == n)

    def apply(self, op, cache=True):
        k = op["op"]
        n, v = op.get("name"), op.get("version")
        if k in ("assign", "declare-tag"):
            if (n, v) in self.decl:
                self.cur[n] = v
        elif k == "unassign":
            if n in self.cur and (v is None or self.cur[n] == v):
                del self.cur[n]
        elif k == "declare":
            p = op["product"]
            n, v = p["name"], p["version"]
            if (n, v) in self.decl:
                if p["tag"]:
                    self.cur[n] = v
            else:
                first = not self.versions(n)
                self.decl[(n, v)] = p["deps"]
                if p["tag"] or first:
                    self.cur[n] = v
        elif k == "undeclare":
            if (n, v) in self.decl:
                del self.decl[(n, v)]
                if self.cur.get(n) == v:
                    del self.cur[n]


def gen_ops(rng, spec, cache):
    m = Mirror(spec)
    ops = []
    nops = rng.choice([1, 2, 2, 3, 3, 4])
    for _ in range(nops):
        names = sorted(set(n for n, _ in m.decl))
        multi = [n for n in names if len(m.versions(n)) > 1]
        bare_targets = sorted(set(d["name"] for deps in m.decl.values() for d in deps if d.get("version") is None))
        pool = [n for n in multi if n in bare_targets] or multi or names
        r = rng.random()
        if r < 0.30 and multi:
            n = rng.choice(pool)
            others = [v for v in m.versions(n) if m.cur.get(n) != v] or m.versions(n)
            op = {"op": "assign", "name": n, "version": rng.choice(others) if rng.random() < 0.92 else "9"}
        elif r < 0.48 and multi:
            n = rng.choice(pool)
            others = [v for v in m.versions(n) if m.cur.get(n) != v] or m.versions(n)
            op = {"op": "declare-tag", "name": n, "version": rng.choice(others) if rng.random() < 0.92 else "9"}
        elif r < 0.60:
            tagged = [n for n in names if n in m.cur]
            n = rng.choice([t for t in tagged if t in bare_targets] or tagged or names)
            v = rng.choice([None, m.cur.get(n), m.cur.get(n)] + m.versions(n)[:1])
            op = {"op": "unassign", "name": n, "version": v}
        elif r < 0.82:
            # a new version of a product that has users (or, sometimes, of a name nobody knows yet)
            n = rng.choice(pool + bare_targets) if rng.random() < 0.85 else "fresh"
            free = [v for v in NEW_VERSIONS if (n, v) not in m.decl]
            if not free:
                continue
            others = [x for x in names if x != n]
            deps = []
            for t in rng.sample(others, min(len(others), rng.choice([0, 1, 1, 2]))):
                vs = m.versions(t)
                deps.append({"name": t, "version": rng.choice([None] + vs), "optional": rng.random() < 0.25})
            tag = True if not cache else rng.random() < 0.5
            op = {"op": "declare", "product": {"name": n, "version": rng.choice(free), "deps": deps, "tag": tag}}
        else:
            cands = sorted(m.decl)
            used = [k for k in cands if k[0] in bare_targets or any(d["name"] == k[0] for ds in m.decl.values() for d in ds)]
            n, v = rng.choice(used or cands)
            op = {"op": "undeclare", "name": n, "version": v}
        ops.append(op)
        m.apply(op, cache)
    return ops


def gen_session(rng):
    if rng.random() < 0.5:
        spec = gen_retag_spec(rng)
    else:
        spec = stackgen.gen_spec(rng, shape=rng.choice(["twover", "twover", "mixed", "prefix", "dag", "cycle", "stubby"]))
    cache = rng.random() < 0.75
    return {"spec": spec, "ops": gen_ops(rng, spec, cache), "readCache": cache}


# ------------------------------------------------------------------ implementation driver (in a child)

def readback(root):
    """the database as it is now, read from the files: declared (name, version) for the flavor and the version the
    chain file current names"""
    common.import_eups()
    from eups.db import VersionFile, ChainFile
    db = os.path.join(root, "ups_db")
    decl, cur = [], {}
    for n in sorted(os.listdir(db)):
        d = os.path.join(db, n)
        if not os.path.isdir(d) or n.startswith("_"):
            continue
        for f in sorted(os.listdir(d)):
            path = os.path.join(d, f)
            if f.endswith(".version"):
                vf = VersionFile(path)
                if FLAVOR in vf.getFlavors():
                    decl.append([n, vf.version])
            elif f == "current.chain":
                cf = ChainFile(path)
                if FLAVOR in cf.getFlavors():
                    cur[n] = cf.getVersion(FLAVOR)
    return {"declared": sorted(decl), "current": cur}


def _grandchild(fn):
    r, w = os.pipe()
    pid = os.fork()
    if pid == 0:
        try:
            os.close(r)
            try:
                data = ["ok", fn()]
            except BaseException as ex:  # noqa
                import traceback
                data = ["exc", type(ex).__name__, str(ex)[:300], traceback.format_exc()[-1200:]]
            with os.fdopen(w, "wb") as f:
                f.write(json.dumps(data).encode())
        finally:
            os._exit(0)
    os.close(w)
    with os.fdopen(r, "rb") as f:
        data = f.read()
    os.waitpid(pid, 0)
    res = json.loads(data.decode()) if data else ["died"]
    if res[0] != "ok":
        raise RuntimeError("fresh-instance observation failed: %r" % (res,))
    return res[1]


def spec_now(catalogue, now, shape):
    prods = []
    for n, v in now["declared"]:
        prods.append({"name": n, "version": v, "current": now["current"].get(n) == v,
                      "deps": catalogue["%s %s" % (n, v)]})
    import c13
    return c13.add_queries(stackgen.normalise({"products": prods, "shape": shape}))


def catalogue_of(sess):
    cat = {"%s %s" % stackgen.pkey(p): p["deps"] for p in sess["spec"]["products"]}
    for op in sess["ops"]:
        if op["op"] == "declare":
            p = op["product"]
            cat.setdefault("%s %s" % (p["name"], p["version"]), p["deps"])
    return cat


def apply_real(e, op, root):
    k = op["op"]
    try:
        if k == "assign":
            e.assignTag("current", op["name"], op["version"])
        elif k == "unassign":
            e.unassignTag("current", op["name"], op["version"])
        elif k == "declare-tag":
            e.declare(op["name"], op["version"], tag="current")
        elif k == "declare":
            p = op["product"]
            d = os.path.join(root, p["name"], p["version"])
            if not os.path.isdir(d):
                stackgen.write_product_dirs({"products": [p]}, root)
            e.declare(p["name"], p["version"], d, eupsPathDir=root,
                      tablefile=os.path.join(d, "ups", p["name"] + ".table"), tag="current" if p["tag"] else None)
        elif k == "undeclare":
            e.undeclare(op["name"], op["version"])
        else:
            raise ValueError(k)
        return "ok"
    except Exception as ex:  # noqa
        return "exc:" + type(ex).__name__


def impl_session(sess):
    import shutil
    import c13
    base = common.scratch_dir()
    try:
        _, root = stackgen.enter_stack(sess["spec"], base)
        cache = sess["readCache"]
        cat = catalogue_of(sess)
        e = stackgen.new_eups(readCache=cache)
        steps = []

        def step(result):
            now = readback(root)
            sp = spec_now(cat, now, "session")
            queries = sp["queries"] if cache else []
            plain = (0, len(queries) // 2)
            roots = None if cache else now["declared"]
            live = c13.observe(e, queries, roots=roots, plain=plain)

            def fresh_fn():
                stackgen.reset_singletons()
                return c13.observe(stackgen.new_eups(readCache=cache), queries, roots=roots, plain=plain)
            fresh = _grandchild(fresh_fn)
            steps.append({"result": result, "now": now, "live": live, "fresh": fresh})

        step(None)
        for op in sess["ops"]:
            step(apply_real(e, op, root))
        return {"steps": steps}
    finally:
        shutil.rmtree(base, ignore_errors=True)


def impl_chunk(sessions):
    res = []
    for s in sessions:
        try:
            res.append(impl_session(s))
        except Exception as ex:  # noqa
            import traceback
            res.append({"child_error": [type(ex).__name__, str(ex)[:500], traceback.format_exc()[-1500:]]})
    return res


# ------------------------------------------------------------------ model side

def opt(v):
    return "N" if v is None else "S" + enc(v)


def enc_sline(d):
    return "%s:%s:%s" % (enc(d["name"]), opt(d.get("version")), "1" if d.get("optional") else "0")


def enc_sdb(spec):
    decls = "|".join("%s,%s,%s" % (enc(p["name"]), enc(p["version"]), ";".join(enc_sline(d) for d in p["deps"]))
                     for p in spec["products"])
    cur = ",".join("%s:%s" % (enc(n), enc(v)) for n, v in sorted(stackgen.current_of(spec).items()))
    return decls + "@" + cur


def enc_op(op):
    k = op["op"]
    if k == "assign":
        return "A~%s~%s" % (enc(op["name"]), enc(op["version"]))
    if k == "declare-tag":
        return "T~%s~%s" % (enc(op["name"]), enc(op["version"]))
    if k == "unassign":
        return "U~%s~%s" % (enc(op["name"]), opt(op["version"]))
    if k == "undeclare":
        return "X~%s~%s" % (enc(op["name"]), enc(op["version"]))
    p = op["product"]
    return "D~%s~%s~%s~%s" % (enc(p["name"]), enc(p["version"]), "1" if p["tag"] else "0",
                              "+".join(enc_sline(d) for d in p["deps"]))


IMPLICIT_EDGE = "%s:N:N:1" % enc("implicitProducts")


def seqw_line(sess, k):
    return "\t".join(["seqw", IMPLICIT_EDGE, enc_sdb(sess["spec"]), ";".join(enc_op(o) for o in sess["ops"][:k])])


def dec_world(s):
    import c13
    out = {}
    for p in (s.split("|") if s else []):
        n, v, es = p.split(",")
        rows = []
        for it in (es.split(";") if es else []):
            a, b, c, o = it.split(":")
            rows.append([common.dec(a), c13.unopt(b), c13.unopt(c), o == "1"])
        out["%s %s" % (common.dec(n), common.dec(v))] = rows
    return out


def dec_cur(s):
    out = {}
    for it in (s.split(",") if s else []):
        n, v = it.split(":")
        out[common.dec(n)] = common.dec(v)
    return out


# ------------------------------------------------------------------ comparison

COMPARED = ("edges", "list", "topo", "cyc", "uses")


def strip_msgs(o):
    return {k: {kk: ({"exc": vv["exc"]} if isinstance(vv, dict) and "exc" in vv else vv) for kk, vv in o[k].items()}
            for k in COMPARED}


def op_label(op):
    return op["op"] if op["op"] != "declare" else ("declare+tag" if op["product"]["tag"] else "declare")


def run_sessions(ctx, sessions, nproc=None, count=True):
    """returns, per session, the list of oracle failures (kind, focus, ...) of all its steps"""
    import c13
    impls = stackgen.run_parallel(impl_chunk, sessions, nproc=nproc)
    for i in impls:
        if "child_error" in i:
            raise RuntimeError("implementation driver failed on a session: %r" % (i["child_error"],))
    # first model round: the world after the changes so far, for every step
    wl = []
    for s in sessions:
        for k in range(len(s["ops"]) + 1):
            wl.append(seqw_line(s, k))
    wouts = ctx.model(wl)
    lines, plan = [], []
    pos = 0
    for s, i in zip(sessions, impls):
        cat = catalogue_of(s)
        for k, st in enumerate(i["steps"]):
            f = wouts[pos].split("\t")
            pos += 1
            sp = spec_now(cat, st["now"], "session")
            if not s["readCache"]:
                sp["queries"] = []
            if f[0] != "ok":
                plan.append((s, k, st, sp, None, None, None, 0, 0))
                continue
            mworld, mcur = dec_world(f[1]), dec_cur(f[2] if len(f) > 2 else "")
            ls, meta = c13.model_lines_on(sp, f[1])
            plan.append((s, k, st, sp, mworld, mcur, meta, len(lines), len(ls)))
            lines += ls
    outs = ctx.model(lines)
    all_fails = []
    for s in sessions:
        all_fails.append([])
    index = {id(s): n for n, s in enumerate(sessions)}
    prev = {}
    for (s, k, st, sp, mworld, mcur, meta, a, n) in plan:
        case = {"session": {"spec": {"products": s["spec"]["products"]}, "ops": s["ops"], "readCache": s["readCache"]},
                "step": k}
        mode = "cache" if s["readCache"] else "nocache"
        if mworld is None:
            ctx.disagree(case, wouts, None, where="session: the model failed on the changes")
            continue
        # the database read back against the model's
        have = {"declared": sorted(st["now"]["declared"]), "current": st["now"]["current"]}
        want = {"declared": sorted([x.split(" ", 1) for x in mworld]), "current": mcur}
        if have != want:
            ctx.disagree(case, want, have, where="session: database after the changes (files read back)")
        # what the lines denote now: model against the live instance
        if mworld != st["live"]["edges"]:
            ctx.disagree(case, mworld, st["live"]["edges"], where="session: resolution of the table lines after the changes")
        m = c13.model_decode(sp, meta, outs[a:a + n])
        fails = c13.compare_one(ctx, sp, st["live"], m, case_extra=dict(case, instance="live"))
        ctx.traces_validated += 1
        if s["readCache"]:
            lv = sorted([p[0], p[1]] for p in st["live"]["declared"])
            if lv != have["declared"]:
                ctx.disagree(dict(case, instance="live"), have["declared"], lv,
                             where="session: the instance lists other products (findProducts) than the files hold")
        if strip_msgs(st["fresh"]) != strip_msgs(st["live"]):
            ctx.disagree(dict(case, instance="fresh"), strip_msgs(st["fresh"]), strip_msgs(st["live"]),
                         where="session: a fresh instance answers differently from the long-lived one")
            fails = fails + c13.compare_one(ctx, sp, st["fresh"], m, case_extra=dict(case, instance="fresh"))
        all_fails[index[id(s)]] += [(k,) + tuple(f) for f in fails]
        if not count:
            continue
        # histogram: what kind of change, and whether it changed some listing / some set of users
        if k == 0:
            ctx.bump("session/%s/sessions" % mode)
            ctx.bump("session/%s/ops-%d" % (mode, len(s["ops"])))
        else:
            op = s["ops"][k - 1]
            p = prev[id(s)]
            ch = []
            if p["now"] != st["now"]:
                ch.append("db")
            if p["live"]["topo"] != st["live"]["topo"]:
                ch.append("listings")
            u0 = {q: sorted((r[0], r[1]) for r in v.get("ok", [])) for q, v in p["live"]["uses"].items()}
            u1 = {q: sorted((r[0], r[1]) for r in v.get("ok", [])) for q, v in st["live"]["uses"].items()}
            if any(u0.get(q) != u1.get(q) for q in set(u0) & set(u1)):
                ch.append("users")
            ctx.bump("session/%s/%s/%s" % (mode, op_label(op), "changes-" + "+".join(ch) if ch else
                                           ("raised" if str(st["result"]).startswith("exc:") else "no-effect")))
            if op["op"] in ("assign", "unassign", "declare-tag") and "users" in ch:
                ctx.bump("session/tag-move-changes-users-of-a-product")
        prev[id(s)] = st
    # third model round: the whole session through run_session (the function the session theorems speak of) - at every
    # step two uses queries (through the cache) or one topological listing (readCache=False), interleaved with the changes
    rl, rplan = [], []
    for s, i in zip(sessions, impls):
        cat = catalogue_of(s)
        ev, asked = [], []
        for k, st in enumerate(i["steps"]):
            if k > 0:
                ev.append(enc_op(s["ops"][k - 1]))
            sp = spec_now(cat, st["now"], "session")
            if s["readCache"]:
                qs = sp["queries"]
                for x, v in ([qs[len(qs) // 3], qs[(2 * len(qs)) // 3]] if qs else []):
                    ev.append("Qu~%s~%s" % (enc(x), opt(v)))
                    asked.append((k, "uses", "%s %s" % (x, v)))
            elif st["now"]["declared"]:
                n, v = st["now"]["declared"][k % len(st["now"]["declared"])]
                ev.append("Qd~%s~%s~1" % (enc(n), enc(v)))
                asked.append((k, "topo", "%s %s" % (n, v)))
        rl.append("\t".join(["seqr", IMPLICIT_EDGE, enc_sdb(s["spec"]), ";".join(ev)]))
        rplan.append((s, i, asked))
    routs = ctx.model(rl)
    for (s, i, asked), line in zip(rplan, routs):
        answers = line.split("|") if line else []
        case = {"session": {"spec": {"products": s["spec"]["products"]}, "ops": s["ops"], "readCache": s["readCache"]}}
        if len(answers) != len(asked):
            ctx.disagree(case, line[:500], len(asked), where="session: run_session gave another number of answers")
            continue
        for (k, mode, key), a in zip(asked, answers):
            if a.startswith("u="):
                rows = []
                for it in (a[2:].split(";") if a[2:] else []):
                    x1, x2, x3, o, d = it.split(":")
                    rows.append([common.dec(x1), common.dec(x2), c13.unopt(x3), o == "1", int(d)])
                mv = {"ok": rows}
            elif a.startswith("d="):
                mv = {"ok": c13.dec_entries(a[2:])}
            else:
                mv = {"err": a}
            iv = i["steps"][k]["live"][mode].get(key)
            if isinstance(iv, dict) and "exc" in iv:
                iv = {"exc": iv["exc"]}
            if mv != iv:
                ctx.disagree(dict(case, step=k, focus={mode: key}), mv, iv, where="session: answer of run_session")
            elif count:
                ctx.bump("session/run_session-answers-compared")
    return impls, all_fails


# ------------------------------------------------------------------ shrinking

def shrink_session(sess, kind, budget=36):
    """greedy: drop changes and products while some step of the session still shows an oracle failure of this kind"""
    cur = json.loads(json.dumps(sess))

    def still_fails(s):
        ctx2 = _Quiet()
        try:
            _, fl = run_sessions(ctx2, [s], nproc=1, count=False)
        except Exception:  # noqa
            return False
        return any(f[1] == kind for f in fl[0]) or any(x["kind"] == kind for x in ctx2.failures)

    changed = True
    while changed and budget > 0:
        changed = False
        cands = []
        for i in range(len(cur["ops"])):
            cands.append(dict(cur, ops=cur["ops"][:i] + cur["ops"][i + 1:]))
        ps = cur["spec"]["products"]
        for i in range(len(ps)):
            cands.append(dict(cur, spec=dict(cur["spec"], products=ps[:i] + ps[i + 1:])))
        for i, p in enumerate(ps):
            for j in range(len(p["deps"])):
                q = dict(p, deps=p["deps"][:j] + p["deps"][j + 1:])
                cands.append(dict(cur, spec=dict(cur["spec"], products=ps[:i] + [q] + ps[i + 1:])))
        for c in cands:
            budget -= 1
            if budget <= 0:
                break
            if c["ops"] and still_fails(json.loads(json.dumps(c))):
                cur, changed = c, True
                break
    return cur


class _Quiet(object):
    """a stand-in for common.Ctx while shrinking: runs the model, swallows counters, collects failures"""
    def __init__(self):
        self.failures, self.disagreements, self.traces_validated = [], [], 0
        self._real = None

    def model(self, lines):
        return common.run_model("C13", lines)

    def fail(self, kind, case, expected=None, observed=None, what=""):
        self.failures.append({"kind": kind, "input": case, "expected": expected, "observed": observed, "what": what})

    def disagree(self, *a, **k):
        self.disagreements.append(a)

    def count(self, *a, **k):
        pass

    def bump(self, *a, **k):
        pass


# ------------------------------------------------------------------ family driver

def corpus_sessions():
    d = os.path.join(common.ROOT, "corpus", "C13")
    out = []
    if os.path.isdir(d):
        for f in sorted(os.listdir(d)):
            if f.endswith(".json"):
                inp = json.load(open(os.path.join(d, f)))["input"]
                if "session" in inp:
                    out.append(inp["session"])
    return out


def prepare(sess):
    stackgen.normalise(sess["spec"])
    sess["spec"].setdefault("shape", "session")
    return sess


def run_family(ctx, n):
    sessions = [prepare(s) for s in corpus_sessions()]
    for _ in range(n):
        sessions.append(gen_session(ctx.rng))
    if len(sessions) > 1:
        ctx.sample({"session": {"products": sessions[-1]["spec"]["products"], "ops": sessions[-1]["ops"],
                                "readCache": sessions[-1]["readCache"]}})
    before = len(ctx.failures)
    run_sessions(ctx, sessions)
    # shrink the first unknown failure of each kind so that the replay is readable
    seen = set()
    for f in list(ctx.failures[before:]):
        if ctx._known(f) or f["kind"] in seen or len(seen) >= 2 or "session" not in f["input"]:
            continue
        seen.add(f["kind"])
        sess = prepare(json.loads(json.dumps(f["input"]["session"])))
        small = shrink_session(sess, f["kind"])
        if len(json.dumps(small)) < len(json.dumps(sess)):
            ctx2 = _Quiet()
            run_sessions(ctx2, [small], nproc=1, count=False)
            for x in ctx2.failures:
                if x["kind"] == f["kind"]:
                    inp = dict(x["input"], shrunk=True)
                    inp.pop("spec", None)           # the session says it all; keep the replay small
                    ctx.fail(x["kind"], inp, expected=x["expected"], observed=x["observed"], what=x["what"])
                    break
