"""C13, second family: dependency listings WITHOUT fed edges.

Model: coq/Model/DepWalk.v (Table.dependencies calling the resolver of C03 for every line it meets,
getDependentProducts on top of it) + coq/Model/DepWalkText.v (table TEXT -> dependency lines: the parser of C11,
Action.processArgs).  The input of the model is the world - database view (stacks, declarations per flavor, chain
files), the TEXT of every table file - and the request; nothing the real code computed is fed to it.

Implementation: a real stack built from the same world (one or two stacks on EUPS_PATH, products declared under the
running flavor Linux64 or the fall-back flavor generic, tags current / beta / stable per stack), then the listing the
way `eups list --dependencies` obtains it: Eups(setupType, exact_version) as cmd.createEups builds it,
selectVRO(tags, None, version, None), findProducts(name, version, tags) (exactly one product, else the command
refuses), getDependentProducts(product, topological, checkCycles).  Request forms: name version / name (one version
declared) / name -t tag; plain, --topological, --topological --checkCycles; -e; -T type.  For every request the
look-ups Table.dependencies makes (Eups.findProductFromVRO: name, version, expression, flavor, preferred tags at the
call, product found with its stack and flavor) are recorded through a wrapper and compared with what the model
resolved for the same lines.  A sample of the requests is also run through the command line itself
(eups.cmd.EupsCmd list --dependencies --raw) and its output compared with the listing.

Independent oracle (pure python, no eups, no model): [designate] is the reading rule of the VRO for the line forms the
generator writes, [o_walk] the listing as the property describes it (everything reached through the table files as
resolved; a -j line is followed to its product and no further; a -t tag on a line stays in force below it); the
property (closure, order of every walked edge outside cycles, cycle reported) is evaluated on the implementation's
listings.  A product's table is read for the flavor the product is declared under, as Eups.setup reads it.

Directed family exotic-lines: dependency lines in unusual spellings (options interleaved, -e taken for --external, -v
for --vro, two brackets, two words before a bracket ...), compared with the model only.

Directed family inherited-tag (gen_inherit_world, one world in four): a line of the top table carries -t TAG or
--vro WORDS for a product that itself has dependencies; two or three levels below it a product has two or three
versions distinguished by that tag; a control branch without the line.  Besides the listing oracle two cross-checks on
the implementation's own answers: [oracle_setup] the listing of a product is what setting it up sets up (the setup
command's Eups, Eups.setup in a process of its own, Eups.findSetupProduct for every name; evaluated when setup succeeds
and the listing holds one version per name), [oracle_uses] uses(X, v) for every declared product against the listings
(the implementation's, and what the tables mean).  A --vro line is refused by the model (Err Undefined): those
worlds are judged by the oracles alone (key .../oracles-only); -t worlds are also compared with the model.

Outside the model (counted under outside/..., never skipped silently): a construct the table layer refuses (--vro,
unsetupRequired, a qualified tag name on a line), a pinned relational expression, a request whose root product
Eups.findProducts does not determine (none, or the same version in two stacks).
"""
import json
import os
import re
import sys

import common
import stackgen
from common import enc

FLAVORS = ["Linux64", "generic"]
RUNNING = FLAVORS[0]
IMPLICIT = ["implicitProducts"]
EXTRA_TAGS = ["beta"]
VERSION_FAMILIES = [("1.0", "1.1", "2.0", "9.0"), ("1", "2", "3", "9"), ("1.2", "1.10", "2.0.1", "9.9")]

# ------------------------------------------------------------------ independent reference semantics

def vkey(v):
    return tuple(int(x) for x in v.split("."))


def o_match(v, expr):
    """one relational term:  op version"""
    m = re.match(r"^\s*(<=|>=|==|<|>)\s*(\S+)\s*$", expr)
    op, w = m.group(1), m.group(2)
    a, b = vkey(v), vkey(w)
    return {"<": a < b, "<=": a <= b, "==": a == b, ">=": a >= b, ">": a > b}[op]


def is_rel(text):
    return any(op in text for op in ("<", ">", "=="))


def parse_line(text):
    """a dependency line as the generator writes it -> dict (independent of the model's processArgs):
    setupRequired|setupOptional ( words ), words = name [version] [[expr]] with options -j, -k, -t TAG anywhere"""
    m = re.match(r"^\s*(setupRequired|setupOptional)\s*\((.*)\)\s*$", text)
    if not m:
        return None
    optional = m.group(1) == "setupOptional"
    body = m.group(2)
    expr = None
    vro = None
    mv = re.search(r"--vro\s+(?:\"([^\"]*)\"|(\S+))", body)
    if mv:                              # --vro WORD or --vro "WORD WORD ...": the VRO of this line and of everything below
        vro = (mv.group(1) if mv.group(1) is not None else mv.group(2)).split()
        body = body[:mv.start()] + " " + body[mv.end():]
    mb = re.search(r"\[([^\]]+)\]", body)
    if mb:
        expr = mb.group(1).strip()
        body = body[:mb.start()] + body[mb.end():]
    toks = body.replace(",", " ").split()
    words, tags, just, keep, outside = [], [], False, False, None
    i = 0
    while i < len(toks):
        t = toks[i]
        if t in ("-j", "--just"):
            just = True
        elif t in ("-k", "--keep"):
            keep = True
        elif t in ("-t", "--tag"):
            tags.append(toks[i + 1])
            i += 1
        elif t.startswith("-"):
            outside = t
            if t in ("--vro", "-r", "-f", "-T"):
                i += 1
        else:
            words.append(t)
        i += 1
    name = words[0] if words else None
    rest = words[1:]
    version = " ".join(rest) if rest else None
    d = {"name": name, "version": version, "expr": expr, "tags": tags, "just": just, "keep": keep,
         "optional": optional, "outside": outside}
    if vro is not None:
        d["vro"] = vro                  # processArgs: the line's tags and -k are then ignored
        d["tags"] = []
    return d


def table_lines(world, prod, flavor, types):
    """the dependency lines of a table text for a flavor and a list of setup types; the generator writes blocks
    only of the forms  if (type == exact) { / if (flavor == F) { / } else { / }  on lines of their own"""
    out = []
    stack = []                          # (taken?, in_else)
    for raw in prod["lines"]:
        line = raw.strip()
        m = re.match(r"^if \((type|flavor) (==|!=) (\w+)\) \{$", line)
        if m:
            what, op, val = m.groups()
            holds = (val in types) if what == "type" else (val == flavor)
            if op == "!=":
                holds = not holds
            stack.append([holds, False])
            continue
        if line == "} else {":
            stack[-1][1] = True
            continue
        if line == "}":
            stack.pop()
            continue
        if all((h != e) for h, e in stack):          # every enclosing block selects this branch
            d = parse_line(line)
            if d is not None:
                out.append(d)
    out.append({"name": IMPLICIT[0], "version": None, "expr": None, "tags": [], "just": False, "keep": False,
                "optional": True, "outside": None})
    return out


def o_db(world):
    """stack id -> {"decl": set of (n, v, f), "chain": {(n, f, tag): v}} in path order"""
    db = []
    for s in world["stacks"]:
        decl = set((p["name"], p["version"], p["flavor"]) for p in world["products"] if p["stack"] == s)
        chain = {}
        for p in world["products"]:
            if p["stack"] == s:
                for t in p["tags"]:
                    chain[(p["name"], p["flavor"], t)] = p["version"]
        db.append((s, decl, chain))
    return db


def o_tagged(db, n, f, tag):
    for s, decl, chain in db:
        v = chain.get((n, f, tag))
        if v is not None and (n, v, f) in decl:
            return (s, n, v, f)
    return None


def o_version(db, n, v, f):
    for s, decl, _ in db:
        if (n, v, f) in decl:
            return (s, n, v, f)
    return None


def o_highest(db, n, f, pred):
    best = None
    for s, decl, _ in db:
        for (n2, v, f2) in sorted(decl):
            if n2 == n and f2 == f and pred(v):
                if best is None or vkey(v) > vkey(best[2]):
                    best = (s, n, v, f)
    return best


def designate(world, db, pre_tags, line):
    """the product a dependency line denotes: its own -t tags, then the tags in force ([pre_tags]: those of the lines
    on the way down, then those of the command line), then the version entries (a named version or expression never
    falls through to a later tag), then current; the running flavor first, the fall-back flavor only when the whole
    reading failed"""
    if line.get("vro") is not None or isinstance(pre_tags, dict):
        return designate_words(world, db, vro_below(world, pre_tags, line)["vro"], line)
    tags = line_tags(world, line) + list(pre_tags)
    n, v, x = line["name"], line["version"], line["expr"]
    for f in FLAVORS:
        got = None
        for t in tags:
            got = o_tagged(db, n, f, t)
            if got:
                break
        if got:
            return got
        if v:
            if is_rel(v):
                got = o_highest(db, n, f, lambda w: o_match(w, v))
            else:
                got = o_version(db, n, v, f)
                if not got and x and is_rel(x):
                    got = o_highest(db, n, f, lambda w: o_match(w, x))
            if got:
                return got
            continue                    # named and not found: the reading for this flavor ends in failure
        got = o_tagged(db, n, f, "current")
        if got:
            return got
    return None


def vro_below(world, pre, line):
    """what is in force for the line itself and for every table walked below it: the list of tags in front of the
    VRO of the command, or - once a line on the way said --vro - {"vro": words} standing for the whole VRO"""
    if line.get("vro") is not None:
        return {"vro": list(line["vro"])}
    if isinstance(pre, dict):
        return {"vro": line_tags(world, line) + list(pre["vro"])}
    return line_tags(world, line) + list(pre)


def designate_words(world, db, words, line):
    """the reading rule for a VRO given in full (a line said --vro): its words in order - a tag names the version its
    chain file holds, version the version the line names (found or the reading fails), anything else is passed over;
    the running flavor first, the fall-back flavor when the whole reading failed.  For lines that name no version or a
    plain one (the forms the directed family writes below a --vro line)."""
    known = ["current", "stable"] + world.get("extra_tags", [])
    n, v = line["name"], line["version"]
    for f in FLAVORS:
        for w in words:
            if w in known:
                got = o_tagged(db, n, f, w)
                if got:
                    return got
            elif w == "version" and v and not is_rel(v):
                got = o_version(db, n, v, f)
                if got:
                    return got
                break
    return None


def line_tags(world, line):
    known = ["current", "stable"] + world.get("extra_tags", [])
    return [t for t in line["tags"] if t in known]


def o_tables(world, types, fix_flavor=True):
    """(name, version) -> dependency lines; the table of a product is read for the flavor it is declared under
    (as Eups.setup reads it)"""
    T = {}
    for p in world["products"]:
        k = (p["name"], p["version"])
        if k not in T:
            T[k] = table_lines(world, p, p["flavor"] if fix_flavor else RUNNING, types)
    return T


def node_of(line, got):
    return (line["name"], got[2], True) if got else (line["name"], line["version"], False)


def o_walk(world, cmd_tags, types, top):
    """the listing as the property describes it: every product reached from top through the table files as resolved; a
    -j line is followed to its product and no further.  A -t tag on a line stays in force for everything below that
    line (as for setup), so a table is resolved with the tags of the lines that led to it - the first time it is
    reached, lines in file order.  Returns (listed, walked, g): g = node -> [(target, just?)] for top and the walked."""
    db = o_db(world)
    T = o_tables(world, types)
    listed, walked, g = set(), set(), {}

    def visit(p, pre):
        out = g.setdefault(p, [])       # the top product is read again when a dependency leads back to it
        for l in T.get((p[0], p[1]), []):
            q = node_of(l, designate(world, db, pre, l))
            out.append((q, l["just"]))
            listed.add(q)
            if not l["just"] and q[2] and q not in walked and (q[0], q[1]) in T:
                walked.add(q)
                visit(q, vro_below(world, pre, l))

    visit(top, list(cmd_tags))
    return listed, walked, g


def o_reach(g, srcs, a):
    """nodes reached from a through the tables of the products in srcs (one or more lines)"""
    seen, todo = set(), [a]
    while todo:
        p = todo.pop()
        if p is not a and p not in srcs:
            continue
        for q, _ in g.get(p, []):
            if q not in seen:
                seen.add(q)
                todo.append(q)
    return seen


# ------------------------------------------------------------------ generator

def gen_world(rng):
    """a text world: the graph of a stackgen spec, respelled with a version family, spread over one or two stacks and
    two flavors, tags per stack, and table lines in the forms Action.processArgs understands"""
    spec = stackgen.gen_spec(rng, shape=rng.choice(["chain", "diamond", "tree", "dag", "twover", "cycle", "stubby", "mixed"]))
    for p in spec["products"]:
        p.pop("_", None)
    fam = rng.choice(VERSION_FAMILIES)
    vmap = {"1": fam[0], "2": fam[1], "3": fam[2], "9": fam[3]}
    back = dict((v, k) for k, v in vmap.items())
    if spec.get("versions"):
        # respelled by stackgen with a prefix family: take the generator's numbers back
        inv = dict(zip(spec["versions"], ["1", "2", "3", "9"]))
        for p in spec["products"]:
            p["version"] = inv.get(p["version"], p["version"])
            for d in p["deps"]:
                if d.get("version") is not None:
                    d["version"] = inv.get(d["version"], d["version"])
    two_stacks = rng.random() < 0.5
    stacks = ["s0", "s1"] if two_stacks else ["s0"]
    names = sorted(set(p["name"] for p in spec["products"]))
    generic = set(n for n in names if rng.random() < 0.4) if rng.random() < 0.35 else set()
    extra = list(EXTRA_TAGS)
    feats = set()
    if generic:
        feats.add("fallback-flavor")
    if two_stacks:
        feats.add("two-stacks")
    byname = {}
    for p in spec["products"]:
        byname.setdefault(p["name"], []).append(vmap[p["version"]])
    prods = []
    for p in spec["products"]:
        n, v = p["name"], vmap[p["version"]]
        lines = []
        for d in p["deps"]:
            cmdname = "setupOptional" if d.get("optional") else "setupRequired"
            tn, tv = d["name"], (vmap[d["version"]] if d.get("version") is not None else None)
            r = rng.random()
            if tv is None:
                if r < 0.12:
                    words = "%s -t beta" % tn
                    feats.add("line-tag")
                elif r < 0.17:
                    words = "%s [>= %s]" % (tn, fam[0])
                    feats.add("bracket-without-version")
                elif r < 0.22:
                    words = "-k %s" % tn
                else:
                    words = tn
            else:
                if r < 0.12:
                    words = "%s %s [>= %s]" % (tn, tv, tv)
                    feats.add("version-with-bracket")
                elif r < 0.22:
                    words = "%s %s %s" % (tn, rng.choice([">=", ">", "<=", "=="]), tv)
                    feats.add("relational-version")
                elif r < 0.27:
                    words = "%s %s -t beta" % (tn, tv)
                    feats.add("line-tag")
                elif r < 0.34:
                    words = rng.choice(["%s -j %s", "-j %s %s"]) % (tn, tv)
                    feats.add("just")
                elif r < 0.38:
                    words = "%s, %s" % (tn, tv)
                else:
                    words = "%s %s" % (tn, tv)
            lines.append("%s(%s)" % (cmdname, words))
        lines.append("envSet(%s_MARK, %s)" % (n.upper(), v))
        prods.append({"stack": rng.choice(stacks) if rng.random() < 0.4 else "s0", "name": n, "version": v,
                      "flavor": "generic" if n in generic else RUNNING,
                      "tags": ["current"] if p.get("current") else [], "lines": lines})
    # an expanded table: the exact block pins the closure with -j, the other branch keeps the original lines
    if rng.random() < 0.25:
        p = rng.choice(prods)
        deps = [parse_line(l) for l in p["lines"]]
        deps = [d for d in deps if d and d["version"] and not is_rel(d["version"]) and not d["just"]]
        if deps:
            body = [l for l in p["lines"] if l.startswith("setup")]
            rest = [l for l in p["lines"] if not l.startswith("setup")]
            exact = ["setupRequired(%s -j %s)" % (d["name"], d["version"]) for d in deps]
            p["lines"] = ["if (type == exact) {"] + exact + ["} else {"] + body + ["}"] + rest
            feats.add("type-condition")
    # a condition on the flavor
    if rng.random() < (0.5 if generic else 0.15):
        gp = [p for p in prods if p["flavor"] == "generic"]
        p = rng.choice(gp) if gp and rng.random() < 0.7 else rng.choice(prods)
        t = rng.choice(names)
        f = rng.choice(FLAVORS)
        blk = ["if (flavor == %s) {" % f, "setupOptional(%s)" % t, "}"]
        if rng.random() < 0.5:
            blk = ["if (flavor %s %s) {" % (rng.choice(["==", "!="]), f), "setupOptional(%s)" % t, "} else {",
                   "setupOptional(%s %s)" % (t, rng.choice(byname[t])), "}"]
        p["lines"] = blk + p["lines"]
        feats.add("flavor-condition")
    # beta on some versions; stable rarely
    for n in names:
        if rng.random() < 0.35:
            v = rng.choice(byname[n])
            for p in prods:
                if p["name"] == n and p["version"] == v:
                    p["tags"].append("beta")
                    feats.add("beta-tagged")
    # the same (name, version) declared in both stacks with the same table: the first stack wins for a version, the
    # stack that holds the chain file wins for a tag
    if two_stacks and rng.random() < 0.5:
        p = rng.choice(prods)
        other = "s1" if p["stack"] == "s0" else "s0"
        q = dict(p, stack=other, tags=[t for t in p["tags"] if rng.random() < 0.5])
        if rng.random() < 0.5:
            p["tags"] = []
        prods.append(q)
        feats.add("declared-in-two-stacks")
    # constructs outside the model (the model must refuse them; they are counted, not compared)
    if rng.random() < 0.06:
        p = rng.choice(prods)
        t = rng.choice(names)
        p["lines"].insert(0, rng.choice(["setupRequired(%s --vro current)" % t, "unsetupRequired(%s)" % t,
                                         "setupRequired(%s -t user:x)" % t]))
        feats.add("outside-construct")
    rng.shuffle(prods)
    return {"stacks": stacks, "extra_tags": extra, "products": prods, "shape": spec["shape"], "features": sorted(feats)}


EXOTIC_LINES = [
    "setupRequired(%(a)s %(v0)s %(v1)s [>= %(v0)s])",        # two words before the bracket: the search takes the last
    "setupRequired(%(a)s [>= %(v0)s] %(v1)s)",               # bracket first: no version, the expression is not used
    "setupOptional(%(a)s %(v0)s [>= %(v0)s] [< %(v9)s])",    # two brackets: the first
    "setupRequired(%(a)s -t beta -j %(v1)s)",
    "setupRequired(-j -t beta %(a)s)",
    "setupRequired(%(a)s, %(v1)s)",
    "setupRequired(-f generic %(a)s %(v0)s)",                # Action.__init__ deletes -f and its value
    "setupRequired(%(a)s --flavor generic %(v1)s)",          # processArgs skips --flavor and its value
    "setupRequired(%(a)s -T build %(v0)s)",
    "setupOptional(%(a)s -e)",                                # -e is a substring of --external: the line is passed over
    "setupRequired(%(a)s -x %(v1)s)",                         # an unknown option is ignored
    "setupRequired(%(a)s -v %(v1)s)",                         # -v is a substring of --vro: outside the model
    "setupRequired(%(a)s   %(v0)s   [  >= %(v0)s ])",
    "setupRequired(%(a)s -k -t stable -t beta)",
    "setupRequired(%(a)s >= %(v0)s [< %(v9)s])",
    "setupRequired(%(a)s %(v1)s -t nosuchtag)",
    "setupRequired( %(a)s )",
    "SetupRequired(%(a)s %(v0)s)",
    "setuprequired(\"%(a)s\" \"%(v1)s\")",
]


def gen_exotic_world(rng):
    """directed family: a top product whose table holds dependency lines in unusual spellings (the option loop and the
    version / expression search of Action.processArgs); compared with the model only - the independent oracle reads the
    ordinary forms"""
    fam = rng.choice(VERSION_FAMILIES)
    names = ["q1", "q2", "q3"]
    prods = []
    for n in names:
        vs = rng.sample(fam[:3], rng.choice([1, 2, 3]))
        cur = rng.choice(vs + [None])
        for v in vs:
            tags = (["current"] if v == cur else []) + (["beta"] if rng.random() < 0.3 else [])
            below = []
            if n != "q3" and rng.random() < 0.5:
                below = ["setupRequired(q3)"]
            prods.append({"stack": "s0", "name": n, "version": v, "flavor": "generic" if (n == "q2" and rng.random() < 0.3) else RUNNING,
                          "tags": tags, "lines": below + ["envSet(%s_MARK, %s)" % (n.upper(), v)]})
    lines = []
    for tmpl in rng.sample(EXOTIC_LINES, rng.randint(3, 6)):
        lines.append(tmpl % {"a": rng.choice(names), "v0": fam[0], "v1": fam[1], "v9": fam[3]})
    prods.append({"stack": "s0", "name": "top", "version": fam[0], "flavor": RUNNING, "tags": ["current"],
                  "lines": lines + ["envSet(TOP_MARK, 1)"]})
    # a chain file per (name, flavor, tag) names one version
    seen = set()
    for p in prods:
        keep = []
        for t in p["tags"]:
            if (p["name"], p["flavor"], t) not in seen:
                seen.add((p["name"], p["flavor"], t))
                keep.append(t)
        p["tags"] = keep
    return {"stacks": ["s0"], "extra_tags": list(EXTRA_TAGS), "products": prods, "shape": "exotic-lines",
            "features": ["exotic-lines"], "no_oracle": True}


def gen_inherit_world(rng):
    """directed family: a line of the top table carries its own tag (-t TAG) or VRO (--vro) for a product that itself
    has dependencies; two or three levels below it a product has several versions distinguished by that tag (one
    current, one tagged, sometimes a third under the other tag).  What setup does - and so what the listing must hold -
    is the tagged version below the line, the current one on a branch without the line.  Variations: depth, which tag,
    spelling and kind of the line, a version named on the lines below (the tag in force still comes first), products on
    the way with two versions as well, the fall-back flavor, the tagged version in a second stack, the control branch
    sharing the product (then the closure holds two versions of it)."""
    fam = rng.choice(VERSION_FAMILIES)
    tag = rng.choice(["beta", "stable"])
    other = "stable" if tag == "beta" else "beta"
    depth = rng.choice([2, 2, 3])
    two_stacks = rng.random() < 0.3
    stacks = ["s0", "s1"] if two_stacks else ["s0"]
    feats = set(["inherit/%d-levels-below" % depth, "inherit/tag-" + tag])
    prods = []

    def add(n, v, tags, lines, flavor=RUNNING, stack="s0"):
        prods.append({"stack": stack, "name": n, "version": v, "flavor": flavor, "tags": list(tags),
                      "lines": list(lines) + ["envSet(%s_MARK, %s)" % (n.upper(), v)]})

    def leaf(n, flavor):
        add(n, fam[0], ["current"], [], flavor)
        add(n, fam[1], [tag], [], flavor, stack=rng.choice(stacks))
        if rng.random() < 0.4:
            add(n, fam[2], [other] if rng.random() < 0.6 else [], [], flavor)
            feats.add("inherit/third-version")

    def below(n):                       # a line for n in a table below the tagged line
        r = rng.random()
        if r < 0.6:
            return "%s(%s)" % (rng.choice(["setupRequired", "setupRequired", "setupOptional"]), n)
        feats.add("inherit/version-named-below")
        return "setupRequired(%s %s)" % (n, fam[0])

    lib_flavor = "generic" if rng.random() < 0.2 else RUNNING
    if lib_flavor == "generic":
        feats.add("fallback-flavor")
    if two_stacks:
        feats.add("two-stacks")
    leaf("lib", lib_flavor)
    share = rng.random() < 0.3          # the control branch reaches the same product: two versions of it in the closure
    if not share:
        leaf("lic", RUNNING)
    mids = ["m%d" % i for i in range(1, depth + 1)]
    kind = rng.choice(["-t", "-t", "-t", "--vro", "--vro"])
    # products on the way down: one version, or two distinguished by the tag (the same lines below)
    for i, m in enumerate(mids):
        nxt = mids[i + 1] if i + 1 < len(mids) else "lib"
        lines = [below(nxt)]
        if i == len(mids) - 1 and rng.random() < 0.3:
            lines.append("setupOptional(ghost)")
        twov = rng.random() < 0.3
        mtags = ["current"]
        if kind == "--vro" and not twov:
            mtags.append(tag)           # a --vro that holds no current must find the product through the tag
        add(m, fam[0], mtags, lines)
        if twov:
            add(m, fam[1], [tag], lines)
            feats.add("inherit/two-versions-on-the-way")
    add("n1", fam[0], ["current"], [below("lib" if share else "lic")])
    cmdname = rng.choice(["setupRequired", "setupRequired", "setupOptional"])
    if kind == "-t":
        words = rng.choice(["-t %(t)s %(m)s", "%(m)s -t %(t)s", "%(m)s %(v)s -t %(t)s", "--tag %(t)s %(m)s",
                            "%(m)s -t %(t)s -t %(o)s", "%(m)s -t nosuchtag -t %(t)s"])
        feats.add("inherit/line-tag")
    else:
        words = rng.choice(['--vro "%(t)s current" %(m)s', '%(m)s --vro "%(t)s version current"', "--vro %(t)s %(m)s",
                            '%(m)s %(v)s --vro "%(t)s version versionExpr current"', '%(m)s --vro "%(o)s %(t)s current"'])
        feats.add("inherit/line-vro")
    tagged = "%s(%s)" % (cmdname, words % {"t": tag, "o": other, "m": mids[0], "v": fam[0]})
    top_lines = [tagged, "setupRequired(n1)"]
    if rng.random() < 0.5:
        top_lines.reverse()             # the branch without the tag walked first
        feats.add("inherit/control-first")
    if share:
        feats.add("inherit/control-shares-the-product")
    add("top", fam[0], ["current"], top_lines)
    rng.shuffle(prods)
    return {"stacks": stacks, "extra_tags": list(EXTRA_TAGS), "products": prods, "shape": "inherited-tag",
            "features": sorted(feats), "oracle_alone": True, "uses": True}


def inherit_requests(rng, world):
    top = [p for p in world["products"] if p["name"] == "top"][0]
    base = {"name": "top", "version": top["version"], "tags": [], "exact": False, "types": []}
    reqs = [dict(base, topological=False, check=False, setup=True), dict(base, topological=True, check=False),
            dict(base, topological=True, check=True), dict(base, topological=rng.random() < 0.5, check=False, exact=True, setup=True),
            # the product of the tagged line asked for directly: nothing is inherited
            dict(base, name="m1", topological=False, check=False, setup=True),
            dict(base, name="n1", topological=True, check=False)]
    return reqs


def gen_requests(rng, world, nmax=8):
    if world.get("no_oracle"):
        top = [p for p in world["products"] if p["name"] == "top"][0]
        base = {"name": "top", "version": top["version"], "tags": [], "exact": False, "types": []}
        return [dict(base, topological=False, check=False), dict(base, topological=True, check=False),
                dict(base, topological=True, check=True), dict(base, topological=False, check=False, tags=["beta"])]
    """request forms of eups list --dependencies for some roots"""
    keys = sorted(set((p["name"], p["version"]) for p in world["products"]))
    rng.shuffle(keys)
    byname = {}
    for n, v in keys:
        byname.setdefault(n, set()).add(v)
    has_types = "type-condition" in world["features"]
    reqs = []
    for n, v in keys[:3]:
        forms = [{"name": n, "version": v, "tags": []}]
        if len(byname[n]) == 1:
            forms.append({"name": n, "version": None, "tags": []})
        tagged = sorted(set(t for p in world["products"] if (p["name"], p["version"]) == (n, v) for t in p["tags"]))
        if tagged:
            forms.append({"name": n, "version": None, "tags": [rng.choice(tagged)]})
        if rng.random() < 0.3:
            forms.append({"name": n, "version": v, "tags": ["beta"]})
        for fm in forms:
            for topo, check in ((False, False), (True, False), (True, True)):
                if (topo or len(reqs) % 3 == 0 or fm is forms[0]) and len(reqs) < nmax * 3:
                    r = dict(fm, topological=topo, check=check, exact=False, types=[])
                    reqs.append(r)
            if has_types or rng.random() < 0.15:
                reqs.append(dict(fm, topological=rng.random() < 0.5, check=False, exact=True, types=[]))
            if rng.random() < 0.08:
                reqs.append(dict(fm, topological=False, check=False, exact=False, types=["build"]))
    return reqs[:nmax * 3]


# ------------------------------------------------------------------ implementation driver (in a child)

def _build(world, base):
    eups = common.import_eups()
    from eups import hooks
    dbmod = sys.modules["eups.db.Database"]
    for t in world.get("extra_tags", []):
        if t not in hooks.config.Eups.globalTags:
            hooks.config.Eups.globalTags += [t]
    ud = os.path.join(base, "ud")
    os.makedirs(os.path.join(ud, "ups_db"), exist_ok=True)
    roots = {s: os.path.join(base, s) for s in world["stacks"]}
    for s, root in roots.items():
        os.makedirs(os.path.join(root, "ups_db"), exist_ok=True)
    for s, root in roots.items():
        os.environ.clear()
        os.environ.update(common.scrubbed_environ({"EUPS_PATH": root, "EUPS_USERDATA": ud, "EUPS_FLAVOR": RUNNING}))
        mine = [p for p in world["products"] if p["stack"] == s]
        for f in FLAVORS:
            ps = [p for p in mine if p["flavor"] == f]
            if not ps:
                continue
            dbmod._databases.clear()
            e = eups.Eups(quiet=1, flavor=f, setupType=[])
            for p in ps:
                d = os.path.join(root, f, p["name"], p["version"])
                os.makedirs(os.path.join(d, "ups"), exist_ok=True)
                tf = os.path.join(d, "ups", p["name"] + ".table")
                with open(tf, "w") as fh:
                    fh.write("\n".join(p["lines"]) + "\n")
                e.declare(p["name"], p["version"], d, eupsPathDir=root, tablefile=tf)
            # eups tags the first declared version current unasked: put the tags as the world says
            dbmod._databases.clear()
            e = eups.Eups(quiet=1, flavor=f, setupType=[])
            for p in ps:
                prod = e.findProduct(p["name"], p["version"], eupsPathDirs=[root], flavor=f)
                have = set(str(t) for t in prod.tags)
                for t in sorted(have - set(p["tags"])):
                    e.unassignTag(t, p["name"], p["version"], eupsPathDir=root)
            for p in ps:
                for t in p["tags"]:
                    e.assignTag(t, p["name"], p["version"], eupsPathDir=root)
    os.environ.clear()
    os.environ.update(common.scrubbed_environ({"EUPS_PATH": ":".join(roots[s] for s in world["stacks"]),
                                               "EUPS_USERDATA": ud, "EUPS_FLAVOR": RUNNING}))
    dbmod._databases.clear()
    return roots


def _stack_id(roots, product):
    try:
        root = product.stackRoot()
    except Exception:  # noqa
        root = None
    for s, r in roots.items():
        if root and os.path.realpath(root) == os.path.realpath(r):
            return s
    return None


def _cli_eups(eups, req):
    """cmd.EupsCmd.createEups for eups list"""
    e = eups.Eups(flavor=None, path=None, dbz=None, readCache=True, force=None, ignore_versions=False,
                  setupType=list(req["types"]), cmdName="list", keep=False, verbose=0, quiet=1, vro=None,
                  noaction=False, asAdmin=False, exact_version=bool(req["exact"]))
    e.selectVRO(list(req["tags"]) or None, None, req["version"], None)
    e.includeUserDataDirInPath()
    return e


def _impl_request(eups, roots, req):
    dbmod = sys.modules["eups.db.Database"]
    dbmod._databases.clear()
    out = {}
    e = _cli_eups(eups, req)
    out["vro"] = list(e.getPreferredTags())
    out["exact0"] = bool(e.exact_version)
    out["types0"] = list(e.setupType)
    try:
        prods = e.findProducts(req["name"], req["version"], list(req["tags"]) or None)
    except Exception as ex:  # noqa
        out["root"] = {"exc": type(ex).__name__}
        return out
    if len(prods) != 1:
        out["root"] = {"count": len(prods)}
        return out
    top = prods[0]
    out["root"] = {"name": top.name, "version": top.version, "flavor": top.flavor, "stack": _stack_id(roots, top)}
    # the look-ups of the walk
    trace = []
    real = e.findProductFromVRO

    def spy(name, version=None, versionExpr=None, *a, **kw):
        res = real(name, version, versionExpr, *a, **kw)
        p = res[0]
        trace.append([name, version, versionExpr, kw.get("flavor"), list(e.getPreferredTags()),
                      None if p is None else [_stack_id(roots, p), p.version, p.flavor]])
        return res

    e.findProductFromVRO = spy
    try:
        r = e.getDependentProducts(top, False, topological=req["topological"], checkCycles=req["check"])
        out["list"] = {"ok": [[q.name, q.version, q.flavor is not None, bool(o), d] for q, o, d in r],
                       "where": [[q.name, q.version, q.flavor, _stack_id(roots, q) if q.flavor else None] for q, o, d in r]}
    except Exception as ex:  # noqa
        out["list"] = {"exc": type(ex).__name__, "msg": str(ex)[:300]}
    finally:
        del e.findProductFromVRO
    out["trace"] = trace
    out["exact1"] = bool(e.exact_version)
    # the same listing asked again of the same instance: Eups.exact_version and Eups.setupType are what the first
    # walk left (exact, as soon as a look-up passed the type:exact entry of the VRO)
    if req.get("again"):
        out["types1"] = list(e.setupType)
        try:
            r = e.getDependentProducts(top, False, topological=req["topological"], checkCycles=req["check"])
            out["again"] = {"ok": [[q.name, q.version, q.flavor is not None, bool(o), d] for q, o, d in r]}
        except Exception as ex:  # noqa
            out["again"] = {"exc": type(ex).__name__, "msg": str(ex)[:300]}
    return out


def _setup_in_fork(eups, req, root, names):
    """what setting the root product up really sets up, the way the setup command does it (Eups(readCache=False,
    cmdName=setup), selectVRO, Eups.setup), in a process of its own: Eups.setup replaces os.environ and leaves its
    marks in the singletons"""
    r, w = os.pipe()
    pid = os.fork()
    if pid == 0:
        code = 0
        try:
            os.close(r)
            res = {}
            try:
                sys.modules["eups.db.Database"]._databases.clear()
                e = eups.Eups(flavor=None, path=None, dbz=None, readCache=False, force=None, quiet=1, verbose=0,
                              noaction=False, keep=False, ignore_versions=False, setupType=list(req["types"]),
                              vro=None, exact_version=bool(req["exact"]), cmdName="setup")
                e.selectVRO(list(req["tags"]) or None, None, root["version"], None)
                e.includeUserDataDirInPath()
                ok = e.setup(root["name"], root["version"])
                res["ok"] = bool(ok[0]) if isinstance(ok, (tuple, list)) else bool(ok)
                got = []
                for n in names:
                    q = e.findSetupProduct(n)
                    if q:
                        got.append([q.name, q.version])
                res["products"] = got
            except Exception as ex:  # noqa
                res = {"ok": False, "exc": type(ex).__name__, "msg": str(ex)[:200]}
            with os.fdopen(w, "wb") as f:
                f.write(json.dumps(res).encode())
        except BaseException:  # noqa
            code = 3
        finally:
            os._exit(code)
    os.close(w)
    with os.fdopen(r, "rb") as f:
        data = f.read()
    os.waitpid(pid, 0)
    try:
        return json.loads(data.decode())
    except ValueError:
        return {"ok": False, "exc": "ChildDied"}


def _impl_uses(eups, world):
    """eups uses for every declared (name, version), and the topological listing of every declared product on an
    instance built the same way"""
    dbmod = sys.modules["eups.db.Database"]
    dbmod._databases.clear()
    req = {"types": [], "exact": False, "tags": [], "version": None}
    e = _cli_eups(eups, req)
    keys = sorted(set((p["name"], p["version"]) for p in world["products"]))
    out = {"users": {}, "listing": {}}
    for n, v in keys:
        k = "%s %s" % (n, v)
        try:
            out["users"][k] = {"ok": sorted(set((u[0], u[1]) for u in e.uses(n, v)))}
        except Exception as ex:  # noqa
            out["users"][k] = {"exc": type(ex).__name__, "msg": str(ex)[:200]}
    dbmod._databases.clear()
    e = _cli_eups(eups, req)
    for n, v in keys:
        k = "%s %s" % (n, v)
        try:
            top = e.findProduct(n, v)
            r = e.getDependentProducts(top, False, topological=True)
            out["listing"][k] = {"ok": sorted(set((q.name, q.version) for q, o, d in r if q.flavor is not None))}
        except Exception as ex:  # noqa
            out["listing"][k] = {"exc": type(ex).__name__, "msg": str(ex)[:200]}
    return out


def _impl_cli(eups, req):
    """the command itself: eups list --dependencies --raw ..."""
    import io
    import contextlib
    import eups.cmd
    dbmod = sys.modules["eups.db.Database"]
    dbmod._databases.clear()
    args = ["list", "--dependencies", "--raw"]
    if req["topological"]:
        args.append("--topological")
    if req["check"]:
        args.append("--checkCycles")
    if req["exact"]:
        args.append("--exact")
    for t in req["tags"]:
        args += ["-t", t]
    if req["types"]:
        args += ["-T", " ".join(req["types"])]
    args.append(req["name"])
    if req["version"]:
        args.append(req["version"])
    buf = io.StringIO()
    keep = dict(os.environ)
    try:
        with contextlib.redirect_stdout(buf):
            cmd = eups.cmd.EupsCmd(args=args, toolname="eups")
            status = cmd.run()
    except SystemExit as ex:
        status = "exit:%s" % (ex.code,)
    except Exception as ex:  # noqa
        status = "exc:" + type(ex).__name__
    finally:
        os.environ.clear()
        os.environ.update(keep)
    return {"status": status, "lines": [l.split("|") for l in buf.getvalue().splitlines() if "|" in l]}


def impl_world(world):
    import shutil
    base = common.scratch_dir()
    try:
        roots = _build(world, base)
        eups = common.import_eups()
        out = {"requests": []}
        for i, req in enumerate(world["requests"]):
            r = _impl_request(eups, roots, req)
            if req.get("cli"):
                r["cli"] = _impl_cli(eups, req)
            if req.get("setup") and "list" in r:
                r["setup"] = _setup_in_fork(eups, req, r["root"], sorted(set(p["name"] for p in world["products"])))
            out["requests"].append(r)
        if world.get("uses"):
            out["uses"] = _impl_uses(eups, world)
        return out
    finally:
        shutil.rmtree(base, ignore_errors=True)


def impl_chunk(worlds):
    if not os.environ.get("EUPS_VERIF_DEBUG"):
        dn = os.open(os.devnull, os.O_WRONLY)       # eups chatters on stderr (ignored options, unknown tags)
        os.dup2(dn, 2)
    res = []
    for w in worlds:
        try:
            res.append(impl_world(w))
        except Exception as ex:  # noqa
            import traceback
            res.append({"child_error": [type(ex).__name__, str(ex)[:500], traceback.format_exc()[-2500:]]})
    return res


# ------------------------------------------------------------------ model side

def opt(v):
    return "N" if v is None else "S" + enc(v)


def unopt(s):
    return None if s == "N" else common.dec(s[1:])


def enc_db(world):
    stacks = []
    for s in world["stacks"]:
        mine = [p for p in world["products"] if p["stack"] == s]
        decl = sorted(set((p["name"], p["version"], p["flavor"]) for p in mine))
        chain = sorted(set((p["name"], p["flavor"], t, p["version"]) for p in mine for t in p["tags"]))
        stacks.append("%s@%s@%s" % (enc(s), ",".join("~".join(enc(x) for x in d) for d in decl),
                                    ",".join("~".join(enc(x) for x in c) for c in chain)))
    return "|".join(stacks)


def enc_products(world):
    seen, out = set(), []
    for s in world["stacks"]:
        for p in sorted((p for p in world["products"] if p["stack"] == s), key=lambda p: (p["name"], p["version"])):
            k = (p["name"], p["version"])
            if k in seen:
                continue
            seen.add(k)
            d = "/@/%s/%s/%s/%s" % (s, p["flavor"], p["name"], p["version"])
            out.append("~".join(enc(x) for x in (p["name"], p["version"], p["flavor"], d, "/@/" + s,
                                                   "\n".join(p["lines"]) + "\n")))
    return "|".join(out)


def request_fields(world, req, root, fx, fxp):
    return [",".join(enc(t) for t in world.get("extra_tags", [])), ",".join(FLAVORS), "1" if fx else "0",
            "1" if fxp else "0", enc_db(world), ",".join(enc(t) for t in req["types"]), ",".join(IMPLICIT),
            enc_products(world),
            "0%s0%s" % ("1" if req["exact"] else "0", "1" if req["version"] else "0"),
            ",".join(enc(t) for t in req["tags"]), enc(root["name"]), enc(root["version"])]


def dec_entries(s):
    out = []
    for it in (s.split(";") if s else []):
        n, v, r, o, d = it.split(":")
        out.append([common.dec(n), unopt(v), r == "1", o == "1", int(d)])
    return out


def dec_found(s):
    if s == "-":
        return None
    st, n, v, f = s.split("~")
    return [common.dec(st), common.dec(v), common.dec(f)]


def dec_tables(s):
    T = {}
    for it in (s.split("|") if s else []):
        k, _, ls = it.partition(">")
        n, v = k.split(",")
        rows = []
        for l in (ls.split(";") if ls else []):
            f = l.split(":")
            rows.append({"name": common.dec(f[0]), "version": unopt(f[1]), "expr": unopt(f[2]),
                         "tags": [common.dec(t) for t in f[3].split("+")] if f[3] else [],
                         "keep": f[4] == "1", "optional": f[5] == "1", "just": f[6] == "1", "found": dec_found(f[7])})
        T[(common.dec(n), common.dec(v))] = rows
    return T


# ------------------------------------------------------------------ the oracle on the implementation's answers

def same_tables(world, types_a, types_b):
    return o_tables(world, types_a) == o_tables(world, types_b)


def oracle(world, req, res):
    """statements of the property that are false of the implementation's answer to one request"""
    bad = []
    if "list" not in res:
        return bad
    root = res["root"]
    top = (root["name"], root["version"], True)
    # the shipped VRO starts with type:exact, so every Eups the command line builds reads the tables with the exact
    # type (Eups.selectVRO ends with a dummy look-up made for that purpose); the second, ordering walk reads them
    # without it
    types_a = list(req["types"]) + ["exact"]
    types_b = [t for t in types_a if t != "exact"]
    focus = {"request": {k: req[k] for k in ("name", "version", "tags", "topological", "check", "exact", "types")}}
    listed, walked, g = o_walk(world, req["tags"], types_a, top)
    closure = listed - {top}
    r = res["list"]
    srcs = walked | {top}
    cyclic = any(x != y and y in o_reach(g, srcs, x) and x in o_reach(g, srcs, y) for x in srcs for y in srcs)
    stable = same_tables(world, types_a, types_b)
    if "ok" not in r:
        if req["check"] and r.get("exc") == "RuntimeError" and (cyclic or not stable):
            return bad                  # the cycle is reported
        bad.append(("listing-error", focus, "a listing", r, "getDependentProducts raised %s: %s" % (r.get("exc"), r.get("msg"))))
        return bad
    got = set((x[0], x[1], x[2]) for x in r["ok"])
    if got != closure:
        bad.append(("closure", focus, sorted(closure, key=repr), sorted(got, key=repr),
                    "listing of %s %s: missing %s, extra %s" % (top[0], top[1], sorted(closure - got, key=repr),
                                                               sorted(got - closure, key=repr))))
    if (req["topological"] or req["check"]) and stable:
        nodes = [(x[0], x[1], x[2]) for x in r["ok"]]
        if len(nodes) != len(set(nodes)):
            bad.append(("duplicates", focus, None, r["ok"], "the topological listing repeats a product"))
        depth = {(x[0], x[1], x[2]): x[4] for x in r["ok"]}
        pos = {(x[0], x[1], x[2]): i for i, x in enumerate(r["ok"])}
        depth[top], pos[top] = 0, -1
        for p in sorted(srcs, key=repr):
            if p not in depth:
                continue
            for q, _just in g.get(p, []):
                if q == p or q not in depth:
                    continue
                if q in srcs and p in o_reach(g, srcs, q):
                    continue            # p and q need each other: no order exists
                if not (depth[q] > depth[p] and pos[q] > pos[p]):
                    bad.append(("order", dict(focus, edge=[list(p), list(q)]), "depth%r > depth%r" % (q, p),
                                {"depths": [depth[p], depth[q]], "listing": r["ok"]},
                                "%s %s (depth %d) depends on %s %s (depth %d), which is not ordered after it"
                                % (p[0], p[1], depth[p], q[0], q[1], depth[q])))
        if req["check"] and cyclic:
            bad.append(("cycle-not-reported", focus, "RuntimeError", "a listing",
                        "%s %s reaches a dependency cycle but checkCycles passed" % (top[0], top[1])))
    return bad


def oracle_setup(ctx, world, req, res):
    """the listing of a product is what setting it up sets up: evaluated when setup succeeded and the listing holds
    one version of every product name (no version conflict: setup keeps one version per name)"""
    bad = []
    st = res.get("setup")
    if not st or "ok" not in res.get("list", {}):
        return bad
    if not st.get("ok"):
        ctx.bump("walk/setup-cross-check/setup-did-not-succeed")
        return bad
    root = res["root"]
    listed = set((x[0], x[1]) for x in res["list"]["ok"] if x[2] and x[0] != root["name"])
    names = [n for n, _ in listed]
    if len(names) != len(set(names)):
        ctx.bump("walk/setup-cross-check/two-versions-of-a-name-listed")
        return bad
    done = set((n, v) for n, v in st["products"] if n != root["name"])
    ctx.count(1, key="walk/setup-cross-check")
    if done != listed:
        focus = {"request": {k: req[k] for k in ("name", "version", "tags", "topological", "check", "exact", "types")}}
        bad.append(("listing-vs-setup", focus, sorted(done), sorted(listed),
                    "setup %s %s sets up %s but its listing holds %s" % (root["name"], root["version"], sorted(done - listed),
                                                                        sorted(listed - done))))
    return bad


def oracle_uses(ctx, world, res):
    """Y is reported as a user of X exactly when X appears in the listing of Y: against the listings the
    implementation gives, and against the listings the tables mean (o_walk under the VRO of a bare command)"""
    bad = []
    u = res.get("uses")
    if not u:
        return bad
    keys = sorted(set((p["name"], p["version"]) for p in world["products"]))
    mean = {}
    for n, v in keys:
        listed, _w, _g = o_walk(world, [], ["exact"], (n, v, True))
        mean[(n, v)] = set((q[0], q[1]) for q in listed if q[2]) - {(n, v)}
    for x, xv in keys:
        k = "%s %s" % (x, xv)
        r = u["users"].get(k, {})
        focus = {"uses": [x, xv]}
        if "ok" not in r:
            bad.append(("uses-error", focus, "an answer", r, "uses(%s, %s) raised %s" % (x, xv, r.get("exc"))))
            continue
        got = set((a, b) for a, b in r["ok"])
        ctx.count(1, key="walk/uses-query-text-world")
        inv = set((n, v) for n, v in keys
                  if (n, v) != (x, xv) and [x, xv] in [list(t) for t in u["listing"].get("%s %s" % (n, v), {}).get("ok", [])])
        if all("ok" in u["listing"].get("%s %s" % (n, v), {}) for n, v in keys) and got != inv:
            bad.append(("uses-inverse", focus, sorted(inv), sorted(got),
                        "uses(%s, %s) = %s but the listings that hold it are those of %s" % (x, xv, sorted(got), sorted(inv))))
        exp = set(k2 for k2 in keys if (x, xv) in mean[k2])
        if got != exp:
            bad.append(("uses-vs-tables", focus, sorted(exp), sorted(got),
                        "uses(%s, %s): missing users %s, wrong users %s" % (x, xv, sorted(exp - got), sorted(got - exp))))
    return bad


# ------------------------------------------------------------------ comparison

def compare_world(ctx, world, res, outs, metas):
    case0 = {"world": {k: world[k] for k in ("stacks", "extra_tags", "products", "oracle_alone", "uses") if k in world}}
    if "child_error" in res:
        raise RuntimeError("implementation driver failed on a text world: %r" % (res["child_error"],))
    for req, r, (mi, kinds) in zip(world["requests"], res["requests"], metas):
        case = dict(case0, request=req)
        key = "walk/%s%s%s%s" % ("nv" if req["version"] else ("t" if req["tags"] else "n"),
                                 "+t" if (req["version"] and req["tags"]) else "",
                                 "/topological" if req["topological"] else "", "/checkCycles" if req["check"] else "")
        if req["exact"]:
            key += "/exact"
        if "list" not in r:
            ctx.bump("outside/root-not-unique-or-absent")
            continue
        o = dict((k, v) for k, v in zip(kinds, outs[mi:mi + len(kinds)]) if isinstance(k, str))
        f = o["dlist"].split("\t")
        if f[0] == "err":
            if f[1] == "Undefined":
                # outside the model: a construct the table layer refuses, a comparison outside the domain of C10's
                # comparator, a pinned relational expression
                ctx.bump("outside/model-undefined%s" % ("/outside-construct" if "outside-construct" in world["features"] else
                                                        ("/line-vro (oracles only)" if world.get("oracle_alone") else "/other")))
                if world.get("oracle_alone"):       # --vro on a line: the model refuses it, the property's oracles do not
                    ctx.count(1, key=key + "/oracles-only")
                    for kind, focus, exp, obs, what in oracle(world, req, r) + oracle_setup(ctx, world, req, r):
                        ctx.fail("walk-" + kind, dict(case, focus=focus), expected=exp, observed=obs, what=what)
                continue
            model = {"err": f[1]}
        else:
            model = {"ok": dec_entries(f[1] if len(f) > 1 else "")}
        impl = r["list"]
        if "exc" in impl:
            iv = {"err": "Refused" if (impl["exc"] == "RuntimeError" and req["check"]) else "exc:" + impl["exc"]}
        else:
            iv = {"ok": impl["ok"]}
        if iv != model:
            ctx.disagree(case, model, iv, where="listing")
        ctx.count(1, key=key, nontrivial=json.dumps([world["products"], req], sort_keys=True)
                  if len(impl.get("ok", [])) >= 3 else None)
        # which hypotheses of the theorems of Props/C13.v the case meets: decided by the Coq checkers (hyps_text)
        fh = o.get("dhyp", "").split("\t")
        if fh[0] == "ok":
            names = ["dworld_ok", "version names accepted by C10 and distinct as keys (vcmp_ok)", "a version entry in the VRO",
                     "no_just", "plain_tables (no recognised -t, no -k on a line)"]
            bits = [ch == "1" for ch in fh[1]]
            alike = not any("type" in l for p in world["products"] for l in p["lines"])
            for nm, b in zip(names, bits):
                if b:
                    ctx.bump("walk-hypotheses/" + nm)
            if alike:
                ctx.bump("walk-hypotheses/tables read alike with and without the exact type")
            if all(bits[:3]) and bits[4]:
                ctx.bump("walk-hypotheses/all of resolved_listing_complete (b)")
            if all(bits) and alike:
                ctx.bump("walk-hypotheses/all of composed_listing_is_graph_listing_partial (c)")
            if not (bits[0] and bits[1] and bits[2]):
                ctx.disagree(case, fh[1], None, where="a generated world outside dworld_ok / vcmp_ok / version entry: the generator promises them")
        # the model run as Model/Graph.v on the edges the model resolved (the two sides of dep_products_is_graph)
        if "dlistg" in o and not req["check"]:
            fg = o["dlistg"].split("\t")
            if fg[0] == "ok" and f[0] == "ok" and not any("type" in l for p in world["products"] for l in p["lines"]):
                if dec_entries(fg[1] if len(fg) > 1 else "") != model["ok"]:
                    ctx.disagree(case, model, fg, where="composed model against Model/Graph.v on the resolved edges")
                ctx.bump("walk/cross-checked-with-graph-model")
        # the look-ups of the walk: every call asks for a line the model has, and the model's resolver gives the same
        # product (stack and flavor included) for the same request under the preferred tags in force at the call
        if "dedges" in o:
            fe = o["dedges"].split("\t")
            if fe[0] == "ok":
                T = dec_tables(fe[1] if len(fe) > 1 else "")
                have = set((l["name"], l["version"] or None, l["expr"]) for rows in T.values() for l in rows)
                if o.get("dedges2", "").startswith("ok"):
                    T2 = dec_tables((o["dedges2"].split("\t") + [""])[1])
                    have |= set((l["name"], l["version"] or None, l["expr"]) for rows in T2.values() for l in rows)
                for g in lookup_groups(r["trace"]):
                    if (g[0], g[1] or None, g[2]) not in have:
                        ctx.disagree(dict(case, lookup=g), None, g, where="a look-up of the walk for a line the model does not have")
        for kind, g in zip(kinds, outs[mi:mi + len(kinds)]):
            if isinstance(kind, tuple):
                fl = g.split("\t")
                if fl[0] != "ok":
                    ctx.bump("outside/model-%s/look-up" % fl[1].lower())
                    continue
                if dec_found(fl[1]) != kind[1][4]:
                    ctx.disagree(dict(case, lookup=kind[1]), dec_found(fl[1]), kind[1][4], where="product a line denotes")
                ctx.traces_validated += 1
        # the same instance asked again
        if "again" in r and "dagain" in o:
            fa = o["dagain"].split("\t")
            if fa[0] == "err" and fa[1] == "Undefined":
                ctx.bump("outside/model-undefined/second-call")
            else:
                ma = {"ok": dec_entries(fa[1] if len(fa) > 1 else "")} if fa[0] == "ok" else {"err": fa[1]}
                if "ok" in r["again"]:
                    ia = {"ok": r["again"]["ok"]}
                else:
                    ia = {"err": "Refused" if (r["again"].get("exc") == "RuntimeError" and req["check"]) else "exc:%s" % r["again"].get("exc")}
                if ia != ma:
                    ctx.disagree(case, ma, ia, where="second listing on the same Eups instance")
                ctx.count(1, key="walk/second-call-same-instance")
        # the command line
        if "cli" in r and "ok" in impl:
            seen, exp = set(), []
            if not (req["check"] and not req["topological"]):
                exp.append([r["root"]["name"], r["root"]["version"]])
                for x in impl["ok"]:                # a product is printed once (keyed by name and version)
                    if (x[0], x[1]) not in seen:
                        seen.add((x[0], x[1]))
                        exp.append([x[0], str(x[1])])
            if r["cli"]["lines"] != exp or r["cli"]["status"] not in (0, None):
                ctx.disagree(case, exp, r["cli"], where="eups list --dependencies --raw against the API listing")
            ctx.count(1, key="walk/command-line")
        if not world.get("no_oracle"):
            for kind, focus, exp, obs, what in oracle(world, req, r) + oracle_setup(ctx, world, req, r):
                ctx.fail("walk-" + kind, dict(case, focus=focus), expected=exp, observed=obs, what=what)
    for kind, focus, exp, obs, what in oracle_uses(ctx, world, res):
        ctx.fail("walk-" + kind, dict(case0, request=dict(world["requests"][0], uses=True), focus=focus), expected=exp, observed=obs, what=what)
    for ft in world["features"]:
        ctx.bump("walk-feature/" + ft)
    ctx.bump("walk-shape/" + world["shape"])


def world_hypotheses(world):
    lines = [parse_line(l) for p in world["products"] for l in p["lines"]]
    lines = [l for l in lines if l]
    known = ["current", "stable"] + world.get("extra_tags", [])
    return {"plain_tables (no -t / -k on a line)": not any(l["keep"] or [t for t in l["tags"] if t in known] for l in lines),
            "no_just": not any(l["just"] for l in lines),
            "tables read alike with and without the exact type": not any("type" in l for p in world["products"] for l in p["lines"])}


def lookup_groups(tr):
    """the recorded findProductFromVRO calls grouped into line resolutions (the flavors are tried in turn until one
    answers): [name, version, expression, preferred tags at the call, product found or None]"""
    out, i = [], 0
    while i < len(tr):
        name, vers, vexpr, flv, vro_at, found = tr[i]
        j = i
        while found is None and j + 1 < len(tr) and tr[j + 1][:3] == tr[i][:3] and tr[j + 1][4] == vro_at \
                and tr[j + 1][3] != flv and tr[j][3] != FLAVORS[-1]:
            j += 1
            found = tr[j][5]
        i = j + 1
        out.append([name, vers, vexpr, vro_at, found])
    return out


FX, FXP = (os.environ.get("C13_FX", "1") == "1"), (os.environ.get("C13_FXP", "1") == "1")   # the model of the repaired code (coq/Model/DepWalkText.v)


def model_lines(world, res):
    lines, metas = [], []
    for req, r in zip(world["requests"], res["requests"]):
        start = len(lines)
        kinds = []
        if "list" in r:
            base = request_fields(world, req, r["root"], FX, FXP)
            topo = "1" if (req["topological"] or req["check"]) else "0"
            lines.append("\t".join(["dlist"] + base + ["1" if req["topological"] else "0", "1" if req["check"] else "0"]))
            kinds.append("dlist")
            lines.append("\t".join(["dedges"] + base))
            kinds.append("dedges")
            lines.append("\t".join(["dhyp"] + base))
            kinds.append("dhyp")
            if any("type" in l for p in world["products"] for l in p["lines"]):
                lines.append("\t".join(["dedges2"] + base))
                kinds.append("dedges2")
            if not req["check"]:
                lines.append("\t".join(["dlistg"] + base + ["1" if req["topological"] else "0"]))
                kinds.append("dlistg")
            seen = set()
            for g in lookup_groups(r["trace"]):
                k = json.dumps(g[:4])
                if k in seen:
                    continue
                seen.add(k)
                lines.append("\t".join(["dlook", base[0], base[1], base[4], ",".join(enc(x) for x in g[3]), enc(g[0]),
                                        opt(g[1]), opt(g[2])]))
                kinds.append(("dlook", g))
            if "again" in r:
                lines.append("\t".join(["dlist"] + base + ["1" if req["topological"] else "0", "1" if req["check"] else "0"]))
                kinds.append("dagain")
        metas.append((start, kinds))
    return lines, metas


def run_worlds(ctx, worlds, nproc=None):
    ress = stackgen.run_parallel(impl_chunk, worlds, nproc=nproc)
    lines, spans = [], []
    for w, r in zip(worlds, ress):
        if "child_error" in r:
            raise RuntimeError("implementation driver failed on a text world: %r" % (r["child_error"],))
        ls, metas = model_lines(w, r)
        spans.append((len(lines), metas))
        lines += ls
    outs = ctx.model(lines)
    for w, r, (a, metas) in zip(worlds, ress, spans):
        compare_world(ctx, w, r, outs, [(a + mi, kinds) for mi, kinds in metas])
    return ress


def corpus_worlds():
    d = os.path.join(common.ROOT, "corpus", "C13")
    out = []
    if os.path.isdir(d):
        for f in sorted(os.listdir(d)):
            if f.endswith(".json"):
                inp = json.load(open(os.path.join(d, f)))["input"]
                if "world" in inp:
                    w = dict(inp["world"])
                    w.setdefault("features", [])
                    w.setdefault("shape", "corpus")
                    w["requests"] = [inp["request"]] if "request" in inp else inp.get("requests", [])
                    out.append(w)
    return out


def run_family(ctx, n):
    worlds = corpus_worlds()
    for k in range(n):
        if k % 4 == 1:
            w = gen_inherit_world(ctx.rng)
            w["requests"] = inherit_requests(ctx.rng, w)
        else:
            w = gen_exotic_world(ctx.rng) if k % 8 == 7 else gen_world(ctx.rng)
            w["requests"] = gen_requests(ctx.rng, w)
        for i, r in enumerate(w["requests"]):
            if i % 7 == 0:
                r["cli"] = True
            if i % 5 == 1 and not r["exact"]:
                r["again"] = True
        worlds.append(w)
    for w in worlds[len(worlds) - n:len(worlds) - n + 1]:
        ctx.sample({"text world": {k: w[k] for k in ("stacks", "products")}, "requests": w["requests"][:3]})
    for i in range(0, len(worlds), 200):
        run_worlds(ctx, worlds[i:i + 200])


# ------------------------------------------------------------------ shrinking

def _fails_like(world, req, kind):
    w = dict(world, requests=[dict(req)])
    w.setdefault("features", [])
    w.setdefault("shape", "shrink")
    r = stackgen.run_parallel(impl_chunk, [w], nproc=1)[0]
    if "child_error" in r or "list" not in r["requests"][0]:
        return False
    return any("walk-" + k == kind for k, _f, _e, _o, _w in oracle(w, req, r["requests"][0]))


def shrink_world(world, req, kind, budget=60):
    """greedy: drop products (not the root) and table lines while the same kind of oracle failure is still reported for
    the same request"""
    world = json.loads(json.dumps({k: world[k] for k in ("stacks", "extra_tags", "products", "oracle_alone") if k in world}))
    changed = True
    while changed and budget > 0:
        changed = False
        for i, p in enumerate(world["products"]):
            if p["name"] == req["name"]:
                continue
            cand = dict(world, products=world["products"][:i] + world["products"][i + 1:])
            budget -= 1
            if budget <= 0:
                break
            if _fails_like(cand, req, kind):
                world, changed = cand, True
                break
        if changed:
            continue
        for i, p in enumerate(world["products"]):
            for j, l in enumerate(p["lines"]):
                if not l.startswith("setup") and not l.startswith("envSet"):
                    continue
                q = dict(p, lines=p["lines"][:j] + p["lines"][j + 1:])
                cand = dict(world, products=world["products"][:i] + [q] + world["products"][i + 1:])
                budget -= 1
                if budget <= 0:
                    break
                if _fails_like(cand, req, kind):
                    world, changed = cand, True
                    break
            if changed or budget <= 0:
                break
    return world


SHRINKABLE = ("walk-closure", "walk-order", "walk-duplicates", "walk-cycle-not-reported", "walk-listing-error")


def shrink_failures(ctx, limit=3):
    """the kinds the listing oracle reports are shrunk; the cross-checks against setup and uses are reported on the
    worlds of the directed family, which are small as generated"""
    seen = set()
    for f in list(ctx.failures):
        if f["kind"] not in SHRINKABLE:
            continue
        if "world" not in f["input"] or ctx._known(f) or f["kind"] in seen or len(seen) >= limit or f["input"].get("shrunk"):
            continue
        seen.add(f["kind"])
        req = {k: v for k, v in f["input"]["request"].items() if k not in ("cli", "again")}
        small = shrink_world(f["input"]["world"], req, f["kind"])
        if len(json.dumps(small)) < len(json.dumps(f["input"]["world"])):
            w = dict(small, requests=[req], features=[], shape="shrunk")
            r = stackgen.run_parallel(impl_chunk, [w], nproc=1)[0]
            if "child_error" in r or "list" not in r["requests"][0]:
                continue
            for k, fo, e, o, wh in oracle(w, req, r["requests"][0]):
                if "walk-" + k == f["kind"]:
                    ctx.fail("walk-" + k, {"world": small, "request": req, "focus": fo, "shrunk": True}, expected=e, observed=o, what=wh)
                    break
