"""C14 - remove deletes exactly what was asked and never something still needed.

Model: coq/Model/Remove.v (over Model/Graph.v and Model/Db.v)   Theorems: coq/Props/C14.v
Implementation: Eups.remove(name, version, recursive, checkRecursive) with and without force on random
product graphs materialised as real stacks (harness/stackgen.py): every declared product as target x
{recursive} x {checkRecursive} x {force}.  Observables: the database as a fresh reader lists it (declarations
with directory and table, tag assignments) and the file tree of the stack (ups_db excluded) before and after,
plus the outcome class ok / refused / not-found / other:<exception>.

The model is given the state before the command (declarations, tags, paths) and the resolved edges of every
table (asked of the real code as in C13 and cross-checked against the generator's own resolution); its
outcome and its state afterwards (also after an error) must equal the implementation's.

The oracle is the property itself, evaluated on the implementation's before/after states with the closure
computed from the generator's data alone:
  * ok            -> the declarations that disappeared are exactly the target (+ its dependency closure with
                     recursive), their directories are gone with everything below, no other path is gone, the
                     tags that remain are exactly those of the survivors
  * not ok        -> nothing changed at all
  * a declared target ends ok, or refused when the in-use check is on and force is off (nothing else)
  * check, no force, some product to be deleted is needed by a product that would remain -> refused
The converse (refused only if a survivor needs something) is NOT demanded: the code excludes only the product
named on the command line from the users, so it also refuses when the only other users are themselves being
removed; such refusals change nothing and are counted as observed/over-cautious-refusal.
"""
import json
import os
import shutil

import common
import stackgen
import c14x
from common import enc

DEFAULT_PRODUCT = "implicitProducts"


# ------------------------------------------------------------------ implementation driver (in a child)

def canon_path(root, p):
    if p is None:
        return "None"
    if p == root:
        return "/S"
    return "/S" + p[len(root):] if p.startswith(root + "/") else p


def read_state(root):
    """what a fresh reader sees in the database files, and the file tree of the stack without ups_db"""
    eups = common.import_eups()
    stackgen.reset_singletons()
    dbp = os.path.join(root, "ups_db")
    db = eups.db.Database(dbp)
    st = {"decls": [], "tags": [], "fs": []}
    for n in sorted(os.listdir(dbp)):
        if not os.path.isdir(os.path.join(dbp, n)):
            continue
        for prod in db.findProducts(n):
            st["decls"].append([n, prod.version, canon_path(root, prod.dir), canon_path(root, prod.tablefile)])
        for (tag, vers, _flavor) in db.getTagAssignments(n):
            st["tags"].append([n, str(tag), vers])
    for d, ds, fs in os.walk(root):
        if d == root:
            ds[:] = [x for x in ds if x != "ups_db"]
        else:
            st["fs"].append(canon_path(root, d))
        for f in fs:
            st["fs"].append(canon_path(root, os.path.join(d, f)))
    stackgen.reset_singletons()
    for k in st:
        st[k].sort()
    return st


def read_edges(e):
    """what each table line denotes, asked of the real code exactly as Table.dependencies asks"""
    from eups import utils
    from eups.table import Action
    out = {}
    for p in sorted(e.findProducts(), key=lambda p: (p.name, p.version)):
        rows = []
        tbl = p.getTable()
        for a in tbl.actions(e.flavor, setupType=e.setupType):
            if a.cmd != Action.setupRequired:
                continue
            vro, name, _pdir, vers, versExpr, _extra = a.processArgs(e)
            e.pushStack("vro", vro)
            q = utils.Quiet(e)
            try:
                try:
                    found, _why = e.findProductFromVRO(name, vers, versExpr)
                except Exception:  # noqa  ProductNotFound
                    found = None
            finally:
                del q
                e.popStack("vro")
            rows.append([name, vers, found.version if found else None, bool(a.extra["optional"])])
        out["%s %s" % (p.name, p.version)] = rows
    return out


def classify(ex):
    eups = common.import_eups()
    name = type(ex).__name__
    if isinstance(ex, eups.ProductNotFound):
        return "not-found"
    if isinstance(ex, eups.EupsException) and "is required by" in str(ex):
        return "refused"
    return "other:" + name


def apply_extras(spec, root):
    """directed scenarios: products whose installation directory is shared with, or nested in, another one's"""
    e = stackgen.new_eups()
    tdir = os.path.join(root, "_tables")
    for x in spec.get("extras", []):
        n, v = x["dir_of"]
        d = os.path.join(root, n, v)
        if x.get("sub"):
            d = os.path.join(d, x["sub"])
            os.makedirs(d, exist_ok=True)
        os.makedirs(tdir, exist_ok=True)
        tf = os.path.join(tdir, "%s-%s.table" % (x["name"], x["version"]))
        with open(tf, "w") as f:
            f.write(stackgen.table_text(x))
        e.declare(x["name"], x["version"], d, eupsPathDir=root, tablefile=tf, tag="current" if x.get("current") else None)
    stackgen.reset_singletons()


def impl_graph(job):
    """all the cases of one graph: the stack is built once and restored from a copy before every case"""
    spec, cases = job["spec"], job["cases"]
    base = common.scratch_dir()
    try:
        _, root = stackgen.enter_stack(spec, base)
        if spec.get("extras"):
            apply_extras(spec, root)
        userdata = os.path.join(base, "userdata")
        snap_s, snap_u = os.path.join(base, "snap_stack"), os.path.join(base, "snap_user")
        shutil.copytree(root, snap_s, symlinks=True)
        shutil.copytree(userdata, snap_u, symlinks=True)
        eups = common.import_eups()
        out = {"before": read_state(root), "edges": read_edges(stackgen.new_eups()),
               "default": eups.hooks.config.Eups.defaultProduct.get("name"), "results": []}
        dirty = True        # read_edges may have written caches
        for c in cases:
            if dirty:
                shutil.rmtree(root)
                shutil.rmtree(userdata)
                shutil.copytree(snap_s, root, symlinks=True)
                shutil.copytree(snap_u, userdata, symlinks=True)
            stackgen.reset_singletons()
            e = stackgen.new_eups(force=bool(c["force"]))
            try:
                e.remove(c["target"][0], c["target"][1], bool(c["recursive"]), checkRecursive=bool(c["check"]))
                oc, msg = "ok", ""
            except RecursionError as ex:
                oc, msg = "other:RecursionError", str(ex)[:80]
            except Exception as ex:  # noqa
                oc, msg = classify(ex), str(ex)[:160]
            after = read_state(root)
            dirty = True
            out["results"].append({"outcome": oc, "msg": msg, "after": after})
        return out
    finally:
        shutil.rmtree(base, ignore_errors=True)


def impl_chunk(jobs):
    if not os.environ.get("EUPS_VERIF_DEBUG"):
        dn = os.open(os.devnull, os.O_WRONLY)      # eups chatters on stdout/stderr (removing anyway ...)
        os.dup2(dn, 1)
        os.dup2(dn, 2)
    res = []
    for j in jobs:
        try:
            res.append(impl_graph(j))
        except Exception as ex:  # noqa
            import traceback
            res.append({"child_error": [type(ex).__name__, str(ex)[:500], traceback.format_exc()[-1500:]]})
    return res


# ------------------------------------------------------------------ model side

def opt(v):
    return "N" if v is None else "S" + enc(v)


def enc_world(edges):
    prods = []
    for key in sorted(edges):
        n, v = key.split(" ", 1)
        es = ";".join("%s:%s:%s:%s" % (enc(a), opt(b), opt(r), "1" if o else "0") for a, b, r, o in edges[key])
        prods.append("%s,%s,%s" % (enc(n), enc(v), es))
    return "|".join(prods)


def model_line(variant, impl, case):
    b = impl["before"]
    return "\t".join([
        "rm", variant, enc_world(impl["edges"]),
        ";".join("%s,%s,%s,%s" % (enc(n), enc(v), enc(d), enc(t)) for n, v, d, t in b["decls"]),
        ";".join("%s,%s,%s" % (enc(n), enc(t), enc(v)) for n, t, v in b["tags"]),
        ";".join(enc(p) for p in b["fs"]),
        enc(stackgen.FLAVOR), enc(impl.get("default") or DEFAULT_PRODUCT), "1" if case["force"] else "0",
        enc(case["target"][0]), enc(case["target"][1]), "1" if case["recursive"] else "0", "1" if case["check"] else "0"])


MODEL_OUTCOME = {"ok": "ok", "err=Refused": "refused", "err=NotFound": "not-found",
                 "err=OutOfFuel": "other:RecursionError", "err=Crash": "other:RuntimeError"}


def model_decode(line):
    f = line.split("\t")
    if f[0] == "DRIVER-ERROR" or len(f) < 4:
        return {"outcome": "model-error:" + line[:200], "decls": [], "tags": [], "fs": []}
    return {"outcome": MODEL_OUTCOME.get(f[0], "model:" + f[0]),
            "decls": sorted([common.dec(x) for x in it.split(",")] for it in f[1].split(";") if it),
            "tags": sorted([common.dec(x) for x in it.split(",")] for it in f[2].split(";") if it),
            "fs": sorted(common.dec(x) for x in f[3].split(";") if x)}


# ------------------------------------------------------------------ independent oracle (pure python)

def all_products(spec):
    return list(spec["products"]) + list(spec.get("extras", []))


def ref_graph(spec):
    """declared product -> declared products its table lines denote (generator data only)"""
    full = {"products": all_products(spec)}
    res = stackgen.resolve(full)
    return {k: [(n, v) for (n, v, ok, _o) in rows if ok] for k, rows in res.items()}


def reach_plus(g, a):
    seen, todo = set(), list(g.get(a, []))
    while todo:
        x = todo.pop()
        if x in seen:
            continue
        seen.add(x)
        todo.extend(g.get(x, []))
    return seen


def asked_set(g, case):
    t = tuple(case["target"])
    s = {t}
    if case["recursive"]:
        s |= reach_plus(g, t)
    return s


def needed_by_survivor(g, asked):
    """(doomed product, surviving user) pairs"""
    out = []
    for u in sorted(g):
        if u in asked:
            continue
        r = reach_plus(g, u)
        for d in sorted(asked):
            if d in r:
                out.append((d, u))
    return out


def under(d, p):
    return p == d or p.startswith(d + "/")


def dirs_nested(before):
    ds = [d for _n, _v, d, _t in before["decls"] if d not in ("none", "???", "(none)", "None")]
    return any(i != j and under(a, b) for i, a in enumerate(ds) for j, b in enumerate(ds))


def oracle(spec, case, before, res):
    """list of (kind, expected, observed, what): statements of the property that are false of what the
    implementation did"""
    bad = []
    g = ref_graph(spec)
    tgt = tuple(case["target"])
    if tgt not in g:
        return bad                      # an undeclared target is outside the property; only model = code
    asked = asked_set(g, case)
    after, oc = res["after"], res["outcome"]
    b_decl = {(n, v): d for n, v, d, _t in before["decls"]}
    a_decl = {(n, v): d for n, v, d, _t in after["decls"]}
    removed = set(b_decl) - set(a_decl)
    label = "remove %s %s%s%s%s" % (tgt[0], tgt[1], " -R" if case["recursive"] else "",
                                    "" if case["check"] else " --noCheck", " --force" if case["force"] else "")
    need = needed_by_survivor(g, asked)
    nested = dirs_nested(before)
    # -- frame, whatever the outcome
    extra = removed - asked
    if extra or set(a_decl) - set(b_decl) or any(a_decl[k] != b_decl[k] for k in a_decl if k in b_decl):
        bad.append(("frame-declaration", sorted(set(b_decl) - asked), sorted(a_decl),
                    "%s: declarations outside what was asked changed: %s" % (label, sorted(extra))))
    surv_tags = [t for t in before["tags"] if (t[0], t[2]) not in asked]
    lost = [t for t in surv_tags if t not in after["tags"]]
    new = [t for t in after["tags"] if t not in before["tags"]]
    if lost or new:
        bad.append(("frame-tag", surv_tags, after["tags"], "%s: tags of surviving products changed: lost %s new %s" % (label, lost, new)))
    if not nested:
        doomed_dirs = [b_decl[k] for k in asked if k in b_decl]
        keep = [p for p in before["fs"] if not any(under(d, p) for d in doomed_dirs)]
        gone = [p for p in keep if p not in after["fs"]]
        appeared = [p for p in after["fs"] if p not in before["fs"]]
        if gone or appeared:
            bad.append(("frame-directory", keep, after["fs"], "%s: paths outside the removed products' directories changed: gone %s new %s" % (label, gone[:6], appeared[:6])))
    # -- outcome
    if oc == "ok":
        if removed != asked:
            bad.append(("asked-not-removed", sorted(asked), sorted(removed),
                        "%s ended normally but left %s declared" % (label, sorted(asked - removed))))
        dangling = [t for t in after["tags"] if (t[0], t[2]) in asked]
        if dangling:
            bad.append(("tag-left", [], dangling, "%s left tags of removed versions: %s" % (label, dangling)))
        if not nested:
            left = [p for p in after["fs"] if any(under(b_decl[k], p) for k in asked if k in b_decl)]
            if left:
                bad.append(("directory-left", [], left[:10], "%s left paths of removed products: %s" % (label, left[:6])))
    elif nested and oc == "other:RuntimeError":
        pass        # outside wf_dirs: rmtree of a directory that went with the one enclosing it; model = code only
    else:
        changed = [k for k in ("decls", "tags", "fs") if before[k] != after[k]]
        if changed:
            kind = "failed-but-changed"
            if (asked - removed) and removed:
                kind = "failed-left-behind-needing-removed" if need2(g, removed, a_decl) else "failed-left-behind"
            bad.append((kind, "state unchanged after %s" % oc,
                        {"removed": sorted(removed), "left_of_asked": sorted(asked - removed)},
                        "%s raised (%s: %s) after removing %s; %s of what was asked is still there%s" % (
                            label, oc, res.get("msg", "")[:80], sorted(removed), sorted(asked - removed),
                            "".join("; surviving %s %s still needs the removed %s %s" % (u + d) for d, u in need2(g, removed, a_decl))[:300])))
        if oc == "refused":
            if not case["check"] or case["force"]:
                bad.append(("refused-unasked", "ok", oc, "%s was refused although the in-use check is off or force is on" % label))
        else:
            bad.append(("did-not-remove", "ok or refused", oc, "%s of a declared product ended in %s (%s)" % (label, oc, res.get("msg", "")[:100])))
    if case["check"] and not case["force"] and need and oc != "refused":
        bad.append(("needed-not-refused", "refused", oc,
                    "%s: %s %s would be deleted although %s %s, which stays, needs it; outcome %s" % ((label,) + need[0][0] + need[0][1] + (oc,))))
    return bad


def need2(g, removed, a_decl):
    """(removed product, product still declared afterwards that reaches it)"""
    out = []
    for u in sorted(a_decl):
        r = reach_plus(g, u) if u in g else set()
        for d in sorted(removed):
            if d in r:
                out.append((d, u))
    return out[:2]


# ------------------------------------------------------------------ cases of a graph

def graph_cases(spec):
    cs = []
    for p in sorted(all_products(spec), key=lambda p: (p["name"], p["version"])):
        for rec in (False, True):
            for chk in (False, True):
                for force in (False, True):
                    cs.append({"target": [p["name"], p["version"]], "recursive": rec, "check": chk, "force": force})
    return cs


def case_of(spec, c):
    return {"spec": spec, "target": c["target"], "recursive": c["recursive"], "check": c["check"], "force": c["force"]}


def check_edges(ctx, spec, impl):
    """the real code's resolution of every table line against the independent one"""
    full = {"products": all_products(spec)}
    res = stackgen.resolve(full)
    for p in full["products"]:
        k = stackgen.pkey(p)
        mine = [[a, d.get("version"), (b if ok else None), o] for (a, b, ok, o), d in zip(res[k], p["deps"])]
        theirs = impl["edges"].get("%s %s" % k)
        if theirs is None or theirs[:len(mine)] != mine or theirs[len(mine):] != [[DEFAULT_PRODUCT, None, None, True]]:
            ctx.disagree({"spec": spec, "focus": list(k)}, mine, theirs, where="resolution of table lines")


def compare_graph(ctx, spec, cases, impl, model_outs, variant="fixed"):
    if "child_error" in impl:
        raise RuntimeError("implementation driver failed on a stack: %r" % (impl["child_error"],))
    check_edges(ctx, spec, impl)
    g = ref_graph(spec)
    shape = spec.get("shape", "?")
    fails = []
    for c, r, mline in zip(cases, impl["results"], model_outs):
        m = model_decode(mline)
        case = case_of(spec, c)
        i_state = {"outcome": r["outcome"], "decls": r["after"]["decls"], "tags": r["after"]["tags"], "fs": r["after"]["fs"]}
        if m != i_state:
            diff = {k: {"model": m[k], "impl": i_state[k]} for k in m if m[k] != i_state[k]}
            for k in ("decls", "tags", "fs"):
                if k in diff:
                    diff[k] = {"only_model": [x for x in m[k] if x not in i_state[k]][:8],
                               "only_impl": [x for x in i_state[k] if x not in m[k]][:8]}
            ctx.disagree(case, {k: m[k] for k in diff}, dict({k: i_state[k] for k in diff if k == "outcome"}, msg=r.get("msg"), diff=diff),
                         where="remove (%s model)" % variant)
        ctx.traces_validated += 1
        if variant == "fixed":
            # the oracle is the boolean form of the theorems: it must be true of the model of the repaired code
            for kind, exp, obs, what in oracle(spec, c, impl["before"], {"outcome": m["outcome"], "msg": "model", "after": m}):
                ctx.disagree(case, obs, exp, where="the oracle (%s) is false of the model: %s" % (kind, what[:200]))
        bad = oracle(spec, c, impl["before"], r)
        for kind, exp, obs, what in bad:
            ctx.fail(kind, case, expected=exp, observed=obs, what=what)
            fails.append((kind, c))
        # bookkeeping
        tgt = tuple(c["target"])
        asked = asked_set(g, c) if tgt in g else {tgt}
        need = needed_by_survivor(g, asked) if tgt in g else []
        flags = "%s%s%s" % ("R" if c["recursive"] else "-", "C" if c["check"] else "-", "F" if c["force"] else "-")
        nontriv = (len(asked) >= 3) or bool(need)
        ctx.count(1, key="case/%s/%s" % (flags, r["outcome"]),
                  nontrivial=json.dumps([sorted(map(list, asked)), sorted(map(list, set(u for _d, u in need))), flags]) if nontriv else None)
        ctx.bump("closure-size/%d" % min(len(asked), 6))
        if need and c["check"] and not c["force"]:
            ctx.bump("observed/refusal-demanded")
        if r["outcome"] == "refused" and not need:
            ctx.bump("observed/over-cautious-refusal")
    ctx.bump("graph/%s" % shape)
    feats = []
    if any(a in reach_plus(g, a) for a in g):
        feats.append("cyclic")
    names = [p["name"] for p in all_products(spec)]
    if len(names) != len(set(names)):
        feats.append("two-versions-declared")
    if any(k[0] == q[0] and k != q for k in g for q in g[k]):
        feats.append("edge-to-another-version-of-itself")
    if any(not ok for rows in stackgen.resolve({"products": all_products(spec)}).values() for (_n, _v, ok, _o) in rows):
        feats.append("unresolved-dependency")
    if spec.get("extras"):
        feats.append("shared-or-nested-directory")
    for f in feats:
        ctx.bump("feature/" + f)
    return fails


def run_specs(ctx, specs, nproc=None, variant="fixed", cases_of=None):
    jobs = []
    for s in specs:
        stackgen.normalise(s)
        jobs.append({"spec": s, "cases": (cases_of or graph_cases)(s)})
    # one job per graph; large graphs first so that the pool drains evenly
    order = sorted(range(len(jobs)), key=lambda i: -len(jobs[i]["cases"]))
    impls_o = stackgen.run_parallel(impl_chunk, [jobs[i] for i in order], nproc=nproc)
    impls = [None] * len(jobs)
    for i, r in zip(order, impls_o):
        impls[i] = r
    lines, spans = [], []
    for j, i in zip(jobs, impls):
        if "child_error" in i:
            raise RuntimeError("implementation driver failed on a stack: %r" % (i["child_error"],))
        ls = [model_line(variant, i, c) for c in j["cases"]]
        spans.append((len(lines), len(ls)))
        lines += ls
    outs = ctx.model(lines)
    all_fails = []
    for j, i, (a, n) in zip(jobs, impls, spans):
        all_fails.append(compare_graph(ctx, j["spec"], j["cases"], i, outs[a:a + n], variant))
    return impls, all_fails


# ------------------------------------------------------------------ shrinking

def shrink(spec0, kind, c, budget=40):
    """greedy: drop products (not the target) and dependency lines while the same kind of oracle failure is
    still reported for the same command"""
    spec = json.loads(json.dumps(spec0))

    def still_fails(s):
        s = stackgen.normalise(json.loads(json.dumps(s)))
        r = stackgen.run_parallel(impl_chunk, [{"spec": s, "cases": [c]}], nproc=1)[0]
        if "child_error" in r:
            return False
        return any(k == kind for k, _e, _o, _w in oracle(s, c, r["before"], r["results"][0]))

    changed = True
    while changed and budget > 0:
        changed = False
        for i, p in enumerate(spec["products"]):
            if c["target"] == [p["name"], p["version"]]:
                continue
            cand = dict(spec, products=spec["products"][:i] + spec["products"][i + 1:])
            budget -= 1
            if budget <= 0:
                break
            if still_fails(cand):
                spec, changed = cand, True
                break
        if changed:
            continue
        for i, p in enumerate(spec["products"]):
            for j in range(len(p["deps"])):
                q = dict(p, deps=p["deps"][:j] + p["deps"][j + 1:])
                cand = dict(spec, products=spec["products"][:i] + [q] + spec["products"][i + 1:])
                budget -= 1
                if budget <= 0:
                    break
                if still_fails(cand):
                    spec, changed = cand, True
                    break
            if changed or budget <= 0:
                break
    return stackgen.normalise(spec)


# ------------------------------------------------------------------ driver

def corpus_inputs():
    d = os.path.join(common.ROOT, "corpus", "C14")
    out = []
    if os.path.isdir(d):
        for f in sorted(os.listdir(d)):
            if f.endswith(".json"):
                out.append(json.load(open(os.path.join(d, f)))["input"])
    return out


def P(n, v, deps, cur=True):
    return {"name": n, "version": v, "current": cur,
            "deps": [{"name": a, "version": b, "optional": o} for a, b, o in deps]}


def directed_specs():
    """scenarios outside the hypothesis wf_dirs (installation directories shared or nested): only model = code
    and the declaration/tag part of the oracle apply"""
    return [
        {"shape": "shared-dir", "products": [P("a", "1", [("b", None, False)]), P("b", "1", []), P("x", "1", [])],
         "extras": [dict(P("y", "1", []), dir_of=["b", "1"])]},
        {"shape": "shared-dir-both-doomed", "products": [P("a", "1", [("b", None, False), ("y", None, False)]), P("b", "1", [])],
         "extras": [dict(P("y", "1", []), dir_of=["b", "1"])]},
        {"shape": "nested-dir", "products": [P("a", "1", [("y", None, False), ("b", None, False)]), P("b", "1", [])],
         "extras": [dict(P("y", "1", []), dir_of=["b", "1"], sub="inner")]},
        {"shape": "nested-dir-outer-first", "products": [P("a", "1", [("b", None, False), ("y", None, False)]), P("b", "1", [])],
         "extras": [dict(P("y", "1", []), dir_of=["b", "1"], sub="inner")]},
    ]


def directed_property_specs():
    """the situations the property names, not left to the random generator: two versions of one product sharing a
    dependency (directly, two levels down, only one of them), a dependency shared with a survivor of another name,
    versions whose names are prefixes of one another or hold regular-expression characters"""
    return [
        {"shape": "two-versions-share-dep", "products": [P("app", "1.0", [("num", None, False)], cur=False),
                                                          P("app", "2.0", [("num", None, False)]), P("num", "1.4", [])]},
        {"shape": "two-versions-share-deep-dep", "products": [P("app", "1.0", [("mid", None, False)], cur=False),
                                                               P("app", "2.0", [("mid", None, False)]),
                                                               P("mid", "1", [("num", None, False)]), P("num", "1.4", [])]},
        {"shape": "two-versions-one-shares", "products": [P("app", "1.0", [("num", None, False), ("low", None, False)], cur=False),
                                                           P("app", "2.0", [("num", None, False)]),
                                                           P("num", "1.4", []), P("low", "1", [])]},
        {"shape": "shared-with-other-name", "products": [P("app", "1.0", [("mid", None, False)]),
                                                          P("tool", "1.0", [("num", None, False)]),
                                                          P("mid", "1", [("num", None, False)]), P("num", "1.4", [])]},
        {"shape": "version-prefix-and-plus", "products": [P("app", "1.0", [("num", "1.0+1", False)]),
                                                           P("tool", "1.0", [("num", "1.0+1", False), ("lib", "1.0.1", False)]),
                                                           P("num", "1.0+1", []), P("lib", "1.0", [], cur=False), P("lib", "1.0.1", [])]},
    ]


def setup_ctx(ctx):
    ctx.rule = ("random product graphs of 4-9 product names from harness/stackgen.py (chains, diamonds, shared sub-trees, dags, "
                "two versions of one product, cycles and self-dependencies, unresolved dependencies, optional edges) materialised "
                "as real stacks, plus directed stacks with shared / nested installation directories; for every declared product "
                "Eups.remove(name, version, recursive in {F,T}, checkRecursive in {F,T}) with force in {F,T}; one evaluation = one "
                "such command on a freshly restored stack, compared with the model on outcome class, declarations, tags and the "
                "file tree afterwards; non-trivial = at least 3 products asked for, or a surviving product needs one of them; "
                "distinct = distinct (asked set, surviving users, flags).  Whole command (harness/c14x.py): directed and random "
                "declarations of 4-7 product names over two stacks on EUPS_PATH and the flavors Linux64 (running) and generic "
                "(fall-back) - the same version declared in both stacks or under both flavors with tables of their own, dependencies "
                "across stacks, current and stable in both stacks, product directories inside the stack, outside it, none, shared; "
                "eups remove through eups.cmd.EupsCmd (-R, -N, --force, -i / --noInteractive with the answers on standard input, too "
                "few arguments) and through Eups.remove, and histories of several commands and declarations on one Eups object; "
                "the SAME name, version and flavor declared in both stacks with ONE installation (the very directory, or the "
                "directory of one declaration inside the other's: directed_twins / gen_twin_spec), removed recursively and not, "
                "twice on one Eups object (first stack, then second stack), and with -Z <s2>:<s1> / -Z <one stack> (Eups(path=...)) "
                "so that the declaration of either stack is the one that goes; keys same-product-other-stack-stays/<shared|"
                "survivor-inside|survivor-holds>/removed-from-stack-<k>/..., whole-command/-Z-<stacks>/...; "
                "key whole-command/<via>/<flags RCFI>/<outcome>")
    ctx.trusted_base = common.COMMON_TRUSTED + [
        "resolved edges are an input of the model: the harness asks the real code what each table line denotes "
        "(Action.processArgs + Eups.findProductFromVRO, as Table.dependencies does) and checks the answer against its own "
        "resolution of the generated data (explicit version iff declared, bare name -> tag current)",
        "the state before the command is an input of the model: declarations (directory, table) and tag assignments as "
        "Database.findProducts / getTagAssignments of a fresh reader list them, and os.walk of the stack without ups_db",
        "whole command: the two worlds of Model/RemoveExt.v are built by the harness from the real code's answers - ww from the "
        "table of the first declaration of the running flavor on the path, a line counting as resolved when the running flavor "
        "declares the version it denotes; wu by appending the lines of every declaration of a (name, version) - and the "
        "resolution of every line is checked against a reference resolution of the generator's data (running flavor first, "
        "first stack first, bare name = tag current); standard input is a StringIO holding the answers",
        "modelled, not verified: shutil.rmtree removes a directory and everything below it and raises when it does not exist; "
        "Product equality (name, version, flavor) with one flavor; Eups.uses / Uses.users are C13's model (Model/Graph.v)"]
    ctx.assumptions = [
        "every declared product has a readable table with plain setupRequired/setupOptional(name [version]) lines; the running "
        "flavor is Linux64 with the fall-back generic (a command run for the flavor generic sees generic declarations only: not run)",
        "the default product implicitProducts is not declared (every table ends with a silent optional dependency on it, an "
        "unresolved edge of the world); nothing is set up in the environment; no userInfo handed in; not noaction; -t not modelled",
        "-Z: the command's world is the stacks it names, in that order; declarations and tags of a stack left out are checked to be "
        "untouched, but a directory such a declaration shares with a removed product is not protected (the command cannot see the "
        "declaration): counted under observation:directory-of-a-stack-left-out-by-Z-deleted, not a verdict",
        "where the directory of a removed product holds the directory of a declaration that stays, the property does not say which "
        "paths must go: the oracle demands the survivor's directory untouched and does not demand the rest deleted",
        "the exact set of deleted paths (removes_exactly*, last clause) is stated under wf_dirs: the installation directories of "
        "the declared products are pairwise non-nested (in particular distinct); the directory of a declaration that stays is "
        "covered without it (frame_directories_multi).  The single-stack directed nested scenarios (a removed product installed "
        "inside another removed product) are tied by correspondence only"]


def run(ctx):
    setup_ctx(ctx)
    ctx.check_theorems()
    # the registered check models the code WITH the fixes; the other variants of Model/Remove.v / RemoveExt.v (pinned,
    # skiponly, nokeep = all but C14-remove-keeps-shared-directory) can be selected for cross-validation against the
    # corresponding tree
    variant = os.environ.get("C14_MODEL_VARIANT", "fixed")
    ctx.extra["model_variant"] = variant
    # corpus first: each witness with its own command
    c14x.run_jobs(ctx, [c14x.job_of_input(inp) for inp in corpus_inputs() if "mspec" in inp], variant)
    for inp in corpus_inputs():
        if "mspec" in inp:
            continue
        spec = inp["spec"]
        c = {k: inp[k] for k in ("target", "recursive", "check", "force")}
        run_specs(ctx, [spec], nproc=1, cases_of=lambda s, c=c: [c], variant=variant)
    run_specs(ctx, directed_specs(), variant=variant)
    run_specs(ctx, directed_property_specs(), variant=variant)
    n = ctx.size(30, 1000)
    specs = [stackgen.gen_spec(ctx.rng) for _ in range(n)]
    for s in specs[:2]:
        ctx.sample({"products": s["products"], "shape": s["shape"], "commands": "every product x recursive x check x force"})
    for i in range(0, len(specs), 200):
        run_specs(ctx, specs[i:i + 200], variant=variant)
    # the whole command on two stacks and two flavors
    c14x.run(ctx, variant)
    # shrink the first unknown failure of each kind so that the replay is readable
    seen = set()
    for f in list(ctx.failures):
        if ctx._known(f) or f["kind"] in seen or len(seen) >= 3 or f["input"].get("shrunk") or "mspec" in f["input"]:
            continue
        seen.add(f["kind"])
        c = {k: f["input"][k] for k in ("target", "recursive", "check", "force")}
        small = shrink(f["input"]["spec"], f["kind"], c)
        if len(json.dumps(small)) < len(json.dumps(f["input"]["spec"])):
            r = stackgen.run_parallel(impl_chunk, [{"spec": small, "cases": [c]}], nproc=1)[0]
            if "child_error" in r:
                continue
            for k, e, o, w in oracle(small, c, r["before"], r["results"][0]):
                if k == f["kind"]:
                    ctx.fail(k, dict(case_of(small, c), shrunk=True), expected=e, observed=o, what=w)
                    break


def replay(ctx, path):
    setup_ctx(ctx)
    obj = json.load(open(path))
    inp = obj.get("input") or (obj.get("first_disagreement") or {}).get("case")
    if not inp:
        ok = ctx.check_theorems()
        for p in ctx.proof_problems[:5]:
            print("  proof problem: %s %s" % (p.get("theorem"), p.get("what")))
        print("replay %s: %s" % (path, "passes" if ok else "still fails"))
        return 0 if ok else 1
    if "mspec" in inp:
        impl = c14x.replay_input(ctx, inp, os.environ.get("C14_MODEL_VARIANT", "fixed"))
        for r in impl["results"] + [s for h in impl["histories"] for s in h if "outcome" in s]:
            print("  outcome %s %s" % (r["outcome"], r.get("msg", "")))
            print("  declared after:  %s" % [d[:4] for d in r["after"]["decls"]])
        print("  declared before: %s" % [d[:4] for d in impl["before"]["decls"]])
        bad = [f for f in ctx.failures if not ctx._known(f)] or ctx.disagreements
        for f in ctx.failures[:5]:
            print("  %s: %s" % (f["kind"], f["what"]))
        for d in ctx.disagreements[:5]:
            print("  disagreement (%s): model %s impl %s" % (d["where"], json.dumps(d["model"])[:300], json.dumps(d["impl"])[:300]))
        print("replay %s: %s" % (path, "still fails" if bad else "passes"))
        return 1 if bad else 0
    c = {k: inp[k] for k in ("target", "recursive", "check", "force")}
    impls, _ = run_specs(ctx, [inp["spec"]], nproc=1, cases_of=lambda s: [c])
    r = impls[0]["results"][0]
    print("  outcome %s %s" % (r["outcome"], r.get("msg", "")))
    print("  declared before: %s" % [d[:2] for d in impls[0]["before"]["decls"]])
    print("  declared after:  %s" % [d[:2] for d in r["after"]["decls"]])
    bad = [f for f in ctx.failures if not ctx._known(f)] or ctx.disagreements
    for f in ctx.failures[:5]:
        print("  %s: %s" % (f["kind"], f["what"]))
    for d in ctx.disagreements[:5]:
        print("  disagreement (%s): model %s impl %s" % (d["where"], json.dumps(d["model"])[:300], json.dumps(d["impl"])[:300]))
    print("replay %s: %s" % (path, "still fails" if bad else "passes"))
    return 1 if bad else 0
