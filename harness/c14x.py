"""C14, extension: the whole `eups remove` command on two stacks and two flavors.

Model: coq/Model/RemoveExt.v (remove_x / eups_remove over Model/Remove.v)   Theorems: coq/Props/C14.v (second half)

A *multi spec* is

    {"shape": ..., "decls": [{"stack": 0|1, "flavor": "Linux64"|"generic", "name": n, "version": v,
                              "deps": [{"name", "version"|None, "optional"}], "tags": ["current", "stable"],
                              "dir": "in" | "out" | "none" | ["share", i] | ["inside", i]}, ...]}

materialised as two stacks /s1:/s2 on EUPS_PATH (each built on its own, the way stacks come into being, with an Eups of
the declaration's flavor), product directories inside the stack, outside it, the placeholder none, or shared with
declaration i (the very directory) or a directory of its own inside the directory of declaration i.  Commands run under the running flavor Linux64 with the fall-back generic:

    {"via": "cli"|"api", "args": [name, version], "recursive", "check", "force", "interactive": None|True|False,
     "answers": [lines of standard input]}

"cli" goes through eups.cmd.EupsCmd(args=["remove", ...], toolname="eups").run() (options -R -N -f -i --noInteractive),
"api" through Eups(force=...).remove(...).  A *history* is a list of steps carried out on ONE Eups object: remove
commands and declarations of new products; before every remove the state and the resolved edges are read afresh (by
fresh readers) and the model is asked about that very step.

Observables: what a fresh reader lists in every ups_db (declarations per stack and flavor with directory and table, tag
assignments per stack and flavor), the file tree of both stacks and of the directories outside them, the outcome class.
"""
import io
import json
import os
import shutil
import sys

import common
import stackgen
from common import enc

FLAVOR = "Linux64"
FLAVORS = ["Linux64", "generic"]
DEFAULT_PRODUCT = "implicitProducts"
STACKS = ["/s1", "/s2"]


# ------------------------------------------------------------------ materialisation (in a child)

def dkey(d):
    return (d["stack"], d["flavor"], d["name"], d["version"])


def is_share(d):
    k = d.get("dir", "in")
    return isinstance(k, list) and k[0] == "share"


def decl_dir(base, spec, d):
    k = d.get("dir", "in")
    if isinstance(k, list) and k[0] == "inside":      # a directory of its own inside the directory of declaration i
        return os.path.join(decl_dir(base, spec, spec["decls"][k[1]]), "nested-%d-%s-%s" % (d["stack"], d["name"], d["version"]))
    if isinstance(k, list):
        return decl_dir(base, spec, spec["decls"][k[1]])
    if k == "none":
        return "none"
    if k == "out":
        return os.path.join(base, "outside", "%d-%s-%s-%s" % (d["stack"], d["flavor"], d["name"], d["version"]))
    return os.path.join(base, STACKS[d["stack"]][1:], d["flavor"], d["name"], d["version"])


def set_env(base, path, flavor=FLAVOR):
    os.environ.clear()
    os.environ.update(common.scrubbed_environ({"EUPS_PATH": ":".join(path), "EUPS_USERDATA": os.path.join(base, "user"),
                                               "EUPS_FLAVOR": flavor}))


def fresh_eups(base, **kw):
    """a new Eups with cold caches (the pickled caches belong to another property)"""
    shutil.rmtree(os.path.join(base, "user", "_caches_"), ignore_errors=True)
    stackgen.reset_singletons()
    return stackgen.new_eups(**kw)


def declare_one(base, spec, d, e=None):
    root = os.path.join(base, STACKS[d["stack"]][1:])
    pdir = decl_dir(base, spec, d)
    own = not is_share(d) and pdir != "none"
    if own:
        os.makedirs(os.path.join(pdir, "ups"), exist_ok=True)
        tf = os.path.join(pdir, "ups", d["name"] + ".table")
        with open(os.path.join(pdir, "README"), "w") as f:
            f.write("%s %s %s\n" % (d["name"], d["version"], d["flavor"]))
    else:
        if pdir != "none":
            os.makedirs(pdir, exist_ok=True)        # shared with a declaration that is materialised later
        tdir = os.path.join(root, "_tables")
        os.makedirs(tdir, exist_ok=True)
        tf = os.path.join(tdir, "%s-%s-%s.table" % (d["flavor"], d["name"], d["version"]))
    with open(tf, "w") as f:
        f.write(stackgen.table_text(d))
    if e is None:
        set_env(base, [root], d["flavor"])
        e = fresh_eups(base, flavor=d["flavor"])
    e.declare(d["name"], d["version"], pdir, eupsPathDir=root, tablefile=tf,
              tag="current" if "current" in d.get("tags", []) else None)
    for t in d.get("tags", []):
        if t != "current":
            e.assignTag(t, d["name"], d["version"], eupsPathDir=root)
    if "current" not in d.get("tags", []):
        prod = e.findProduct(d["name"], d["version"], eupsPathDirs=root, flavor=d["flavor"])
        if prod is not None and prod.isTagged("current"):
            e.unassignTag("current", d["name"], d["version"], eupsPathDir=root)


def materialise(spec, base):
    for s in STACKS:
        os.makedirs(os.path.join(base, s[1:], "ups_db"), exist_ok=True)
    os.makedirs(os.path.join(base, "user", "ups_db"), exist_ok=True)
    for d in spec["decls"]:
        declare_one(base, spec, d)
    roots = [os.path.join(base, s[1:]) for s in STACKS]
    set_env(base, roots)
    stackgen.reset_singletons()
    return roots


def canon(base, p):
    if p is None:
        return "None"
    return p[len(base):] if p.startswith(base + "/") else p


def read_state(base):
    eups = common.import_eups()
    stackgen.reset_singletons()
    st = {"decls": [], "tags": [], "fs": []}
    for s in STACKS:
        dbp = os.path.join(base, s[1:], "ups_db")
        db = eups.db.Database(dbp)
        for n in sorted(os.listdir(dbp)):
            if not os.path.isdir(os.path.join(dbp, n)):
                continue
            for fl in FLAVORS:
                for prod in db.findProducts(n, flavors=[fl]):
                    st["decls"].append([s, fl, n, prod.version, canon(base, prod.dir), canon(base, prod.tablefile)])
            for (tag, vers, flavor) in db.getTagAssignments(n):
                st["tags"].append([s, flavor, n, str(tag), vers])
    for top in [s[1:] for s in STACKS] + ["outside"]:
        for d, ds, fs in os.walk(os.path.join(base, top)):
            if d == os.path.join(base, top) and top != "outside":
                ds[:] = [x for x in ds if x != "ups_db"]
            st["fs"].append(canon(base, d))
            for f in fs:
                st["fs"].append(canon(base, os.path.join(d, f)))
    stackgen.reset_singletons()
    for k in st:
        st[k].sort()
    return st


def read_edges(e, base):
    """every declaration the running flavor sees (one findProducts per stack, as Eups._findDeclarations of the fix; the
    pinned tree's findProducts() is the sub-list marked listed) with what each line of its table denotes, asked of
    the real code as Table.dependencies asks: running flavor first, then the fall-back flavors"""
    from eups import utils
    from eups.table import Action
    listed = set((p.name, p.version, p.flavor, p.stackRoot()) for p in e.findProducts())
    out = []
    for root in e.path:
        for p in e.findProducts(eupsPathDirs=[root]):
            rows = []
            tbl = p.getTable()
            for a in tbl.actions(p.flavor, setupType=e.setupType):
                if a.cmd != Action.setupRequired:
                    continue
                vro, name, _pdir, vers, versExpr, _extra = a.processArgs(e)
                e.pushStack("vro", vro)
                q = utils.Quiet(e)
                found = None
                try:
                    for fl in utils.Flavor().getFallbackFlavors(e.flavor, includeMe=True):
                        try:
                            found, _why = e.findProductFromVRO(name, vers, versExpr, flavor=fl)
                        except Exception:  # noqa
                            found = None
                        if found:
                            break
                finally:
                    del q
                    e.popStack("vro")
                rows.append([name, vers, found.version if found else None,
                             [canon(base, found.stackRoot()), found.flavor] if found else None, bool(a.extra["optional"])])
            out.append({"stack": canon(base, p.stackRoot()), "flavor": p.flavor, "name": p.name, "version": p.version,
                        "listed": (p.name, p.version, p.flavor, p.stackRoot()) in listed, "rows": rows})
    return out


def classify(ex):
    eups = common.import_eups()
    if isinstance(ex, eups.ProductNotFound):
        return "not-found"
    if isinstance(ex, eups.EupsException) and "is required by" in str(ex):
        return "refused"
    return "other:" + type(ex).__name__


def order_of(c):
    """the stacks the command looks at, in order: -Z <stack>[:<stack>] (Eups(path=...)); default the whole EUPS_PATH"""
    return list(c["path"]) if c.get("path") else list(range(len(STACKS)))


def cli_args(c, base=""):
    a = ["remove"]
    if c.get("path"):
        a += ["-Z", ":".join(base + STACKS[i] for i in c["path"])]
    if c.get("recursive"):
        a.append("-R")
    if not c.get("check", True):
        a.append("-N")
    if c.get("force"):
        a.append("--force")
    if c.get("interactive") is True:
        a.append("-i")
    elif c.get("interactive") is False:
        a.append("--noInteractive")
    return a + list(c["args"])


def path_kw(base, c):
    return {"path": [base + STACKS[i] for i in c["path"]]} if c.get("path") else {}


def run_command(base, c, e=None):
    """one remove command; returns (outcome, message)"""
    eups = common.import_eups()
    old_stdin = sys.stdin
    sys.stdin = io.StringIO("".join(a + "\n" for a in c.get("answers", [])))
    try:
        try:
            if c["via"] == "cli":
                import eups.cmd  # noqa
                shutil.rmtree(os.path.join(base, "user", "_caches_"), ignore_errors=True)
                stackgen.reset_singletons()
                status = eups.cmd.EupsCmd(args=cli_args(c, base) + ["--nolocks"], toolname="eups").run()
                return ("ok" if status == 0 else "status:%s" % status), ""
            if e is None:
                e = fresh_eups(base, force=bool(c.get("force")), **path_kw(base, c))
            e.remove(c["args"][0], c["args"][1], bool(c.get("recursive")), checkRecursive=bool(c.get("check", True)),
                     interactive=bool(c.get("interactive")))
            return "ok", ""
        except RecursionError as ex:
            return "other:RecursionError", str(ex)[:80]
        except SystemExit as ex:
            return "status:exit%s" % ex.code, ""
        except Exception as ex:  # noqa
            return classify(ex), str(ex)[:160]
    finally:
        sys.stdin = old_stdin


def snapshot(base, tag):
    for top in [s[1:] for s in STACKS] + ["outside", "user"]:
        src = os.path.join(base, top)
        if os.path.isdir(src):
            shutil.copytree(src, os.path.join(base, "_snap", tag, top), symlinks=True)


def restore(base, tag):
    for top in [s[1:] for s in STACKS] + ["outside", "user"]:
        shutil.rmtree(os.path.join(base, top), ignore_errors=True)
        src = os.path.join(base, "_snap", tag, top)
        if os.path.isdir(src):
            shutil.copytree(src, os.path.join(base, top), symlinks=True)


def impl_spec(job):
    spec = job["spec"]
    base = common.scratch_dir()
    try:
        materialise(spec, base)
        os.makedirs(os.path.join(base, "outside"), exist_ok=True)
        shutil.rmtree(os.path.join(base, "user", "_caches_"), ignore_errors=True)
        snapshot(base, "0")
        out = {"before": read_state(base), "edges": read_edges(fresh_eups(base), base), "results": [], "histories": []}
        roots = [os.path.join(base, s[1:]) for s in STACKS]
        for c in job["cases"]:
            restore(base, "0")
            set_env(base, roots)                      # Eups(path=...) rewrites EUPS_PATH in the environment
            r = {}
            if c.get("path"):
                r["edges"] = read_edges(fresh_eups(base, **path_kw(base, c)), base)
                set_env(base, roots)
            oc, msg = run_command(base, c)
            set_env(base, roots)
            out["results"].append(dict(r, outcome=oc, msg=msg, after=read_state(base)))
        for h in job.get("histories", []):
            restore(base, "0")
            set_env(base, roots)
            hp = ([st for st in h if st.get("path")] or [{}])[0]          # one object = one path: every step carries the same
            e = fresh_eups(base, **path_kw(base, hp))                   # the one object every step uses
            steps = []
            for step in h:
                if "declare" in step:
                    declare_one(base, {"decls": spec["decls"] + [step["declare"]]}, step["declare"], e=e)
                    steps.append({"declared": True})
                    continue
                before = read_state(base)
                try:
                    edges = read_edges(fresh_eups(base, **path_kw(base, hp)), base)
                except Exception:  # noqa  an earlier step deleted a directory that a declared product shares (tree without C14-remove-keeps-shared-directory)
                    break           # and took its table file along: the history ends here
                stackgen.reset_singletons()
                e.force = bool(step.get("force"))
                oc, msg = run_command(base, step, e=e)
                steps.append({"before": before, "edges": edges, "outcome": oc, "msg": msg, "after": read_state(base)})
            out["histories"].append(steps)
        return out
    finally:
        shutil.rmtree(base, ignore_errors=True)


def impl_chunk(jobs):
    if not os.environ.get("EUPS_VERIF_DEBUG"):
        dn = os.open(os.devnull, os.O_WRONLY)
        os.dup2(dn, 1)
        os.dup2(dn, 2)
    res = []
    for j in jobs:
        try:
            res.append(impl_spec(j))
        except Exception as ex:  # noqa
            import traceback
            res.append({"child_error": [type(ex).__name__, str(ex)[:500], traceback.format_exc()[-1500:]]})
    return res


# ------------------------------------------------------------------ the two worlds handed to the model

def opt(v):
    return "N" if v is None else "S" + enc(v)


def worlds(before, edges, variant, sel=None):
    """ww: what _remove walks; wu: what Eups.uses reads (fixed: every declaration; pinned: those findProducts() lists)"""
    vis = [STACKS[i] for i in sel] if sel is not None else STACKS
    native = set((n, v) for s, fl, n, v, _d, _t in before["decls"] if fl == FLAVOR and s in vis)
    ww, seen = [], set()
    for d in edges:                               # path order: the first native declaration is the home
        k = (d["name"], d["version"])
        if d["flavor"] != FLAVOR or k in seen:
            continue
        seen.add(k)
        ww.append((k, [(a, b, (r if (r is not None and (a, r) in native) else None), o) for a, b, r, _w, o in d["rows"]]))
    wu, idx = [], {}
    for d in edges:
        if variant == "xpinned" and not d["listed"]:
            continue
        k = (d["name"], d["version"])
        if k not in idx:
            idx[k] = len(wu)
            wu.append((k, []))
        wu[idx[k]][1].extend((a, b, r, o) for a, b, r, _w, o in d["rows"])
    return ww, wu


def enc_world(w):
    return "|".join("%s,%s,%s" % (enc(n), enc(v), ";".join("%s:%s:%s:%s" % (enc(a), opt(b), opt(r), "1" if o else "0")
                                                            for a, b, r, o in es)) for (n, v), es in w)


def model_line(variant, before, edges, c):
    ww, wu = worlds(before, edges, variant, order_of(c))
    i = c.get("interactive")
    opts = "%d,%d,%d,%s" % (bool(c.get("recursive")), not c.get("check", True), bool(c.get("force")),
                            "N" if i is None else str(int(bool(i))))
    answers = c.get("answers", [])
    return "\t".join([
        "rmx", {"xpinned": "00", "nokeep": "10"}.get(variant, "11"), enc_world(ww), enc_world(wu),
        ";".join(enc(s) for s in [STACKS[k] for k in order_of(c)] + ["/user"]),
        ";".join(",".join(enc(x) for x in d) for d in before["decls"]),
        ";".join(",".join(enc(x) for x in t) for t in before["tags"]),
        ";".join(enc(p) for p in before["fs"]),
        enc(FLAVOR), enc(DEFAULT_PRODUCT), opts,
        ";".join(enc(a) for a in c["args"]),
        ";".join(enc(a) for a in answers) if answers else "-"])


MODEL_OUTCOME = {"ok": "ok", "usage": "status:2", "err=Refused": "refused", "err=NotFound": "not-found",
                 "err=OutOfFuel": "other:RecursionError", "err=Crash": "other:RuntimeError", "err=Undefined": "other:EOFError"}


def model_decode(line):
    f = line.split("\t")
    if f[0] == "DRIVER-ERROR" or len(f) < 4:
        return {"outcome": "model-error:" + line[:200], "decls": [], "tags": [], "fs": []}
    return {"outcome": MODEL_OUTCOME.get(f[0], "model:" + f[0]),
            "decls": sorted([common.dec(x) for x in it.split(",")] for it in f[1].split(";") if it),
            "tags": sorted([common.dec(x) for x in it.split(",")] for it in f[2].split(";") if it),
            "fs": sorted(common.dec(x) for x in f[3].split(";") if x)}


# ------------------------------------------------------------------ independent reference (generator data only)

def ref_resolve(decls, dep, order=(0, 1)):
    """which declaration a table line denotes: running flavor first, then generic; explicit version: the first stack
    that declares it; bare name: the first stack whose tag current (for that flavor) names a declared version"""
    for fl in FLAVORS:
        for s in order:
            for d in decls:
                if d["stack"] == s and d["flavor"] == fl and d["name"] == dep["name"]:
                    if dep.get("version") is None:
                        if "current" in d.get("tags", []):
                            return dkey(d)
                    elif d["version"] == dep["version"]:
                        return dkey(d)
    return None


def ref_graph(decls, order=(0, 1)):
    return {dkey(d): [ref_resolve(decls, x, order) for x in d["deps"]] for d in decls}


def ref_home(decls, n, v, order=(0, 1)):
    for s in order:
        for d in decls:
            if d["stack"] == s and d["flavor"] == FLAVOR and d["name"] == n and d["version"] == v:
                return dkey(d)
    return None


def ref_doomed(decls, g, c, order=(0, 1)):
    """declarations the command is asked to remove: the home of the target and, recursively, the homes of what the
    tables of the doomed declarations denote, where the running flavor declares that version"""
    top = ref_home(decls, c["args"][0], c["args"][1], order)
    if top is None:
        return None
    doomed, todo = {top}, [top]
    while todo and c.get("recursive"):
        x = todo.pop()
        for t in g[x]:
            if t is None:
                continue
            h = ref_home(decls, t[2], t[3], order)
            if h is not None and h not in doomed:
                doomed.add(h)
                todo.append(h)
    return doomed


def ref_reach(g, a):
    seen, todo = set(), [t for t in g.get(a, []) if t is not None]
    while todo:
        x = todo.pop()
        if x in seen:
            continue
        seen.add(x)
        todo.extend(t for t in g.get(x, []) if t is not None)
    return seen


def ref_needed(g, doomed):
    out = []
    for u in sorted(g):
        if u in doomed:
            continue
        r = ref_reach(g, u)
        for d in sorted(doomed):
            if d in r:
                out.append((d, u))
    return out


def ref_verdicts(n, c):
    """how many of n products the answers say yes to, and how the questioning ends (the protocol, not the order)"""
    if not c.get("interactive"):
        return n, "done"
    answers, dflt, yes = list(c.get("answers", [])), "y", 0
    for _ in range(n):
        if dflt == "!":
            yes += 1
            continue
        while True:
            if not answers:
                return yes, "eof"
            a = answers.pop(0) or dflt
            if a in ("y", "n", "!"):
                dflt = a
                yes += a != "n"
                break
            if a == "q":
                return yes, "quit"
    return yes, "done"


def under(d, p):
    return p == d or p.startswith(d + "/")


REAL = lambda d: d not in ("none", "???", "(none)", "None")  # noqa


def oracle(decls, c, before, res):
    """statements of the property that are false of what the implementation did: (kind, expected, observed, what)"""
    bad = []
    if len(c["args"]) < 2:
        if res["outcome"] != "status:2" or any(before[k] != res["after"][k] for k in ("decls", "tags", "fs")):
            bad.append(("usage-error-acted", "status 2, nothing changed", res["outcome"], "eups remove %s" % " ".join(c["args"])))
        return bad
    sel = order_of(c)                   # -Z: the command's world is the stacks named, in that order
    decls = [d for d in decls if d["stack"] in sel]
    g = ref_graph(decls, sel)
    doomed = ref_doomed(decls, g, c, sel)
    if doomed is None:
        return bad                      # not declared for the running flavor: outside the property; model = code only
    after, oc = res["after"], res["outcome"]
    key = lambda r: (STACKS.index(r[0]), r[1], r[2], r[3])  # noqa
    b_decl = {key(r): r[4:] for r in before["decls"]}
    a_decl = {key(r): r[4:] for r in after["decls"]}
    removed = set(b_decl) - set(a_decl)
    label = "%s %s" % (c["via"], " ".join(cli_args(c))) + (" <<< %s" % ",".join(c["answers"]) if c.get("interactive") else "")
    need = ref_needed(g, doomed)
    nyes, ending = ref_verdicts(len(doomed), c)
    # -- frame, whatever the outcome and the answers
    extra = removed - doomed
    if extra or set(a_decl) - set(b_decl) or any(a_decl[k] != b_decl[k] for k in a_decl if k in b_decl):
        bad.append(("frame-declaration", sorted(set(b_decl) - doomed), sorted(a_decl),
                    "%s: declarations outside what was asked changed: %s" % (label, sorted(extra))))
    tkey = lambda t: (STACKS.index(t[0]), t[1], t[2], t[4])  # noqa
    surv_tags = [t for t in before["tags"] if tkey(t) not in removed]
    lost = [t for t in surv_tags if t not in after["tags"]]
    new = [t for t in after["tags"] if t not in before["tags"]]
    if lost or new:
        bad.append(("frame-tag", surv_tags, after["tags"], "%s: tags of surviving declarations changed: lost %s new %s" % (label, lost, new)))
    dangling = [t for t in after["tags"] if tkey(t) in removed]
    if dangling:
        bad.append(("tag-left", [], dangling, "%s left tags of removed versions: %s" % (label, dangling)))
    gone_dirs = [b_decl[k][0] for k in removed if REAL(b_decl[k][0])]
    gone = [p for p in before["fs"] if p not in after["fs"]]
    appeared = [p for p in after["fs"] if p not in before["fs"]]
    stray = [p for p in gone if not any(under(d, p) for d in gone_dirs)]
    if stray or appeared:
        bad.append(("frame-directory", [], {"gone": stray[:8], "new": appeared[:8]},
                    "%s: paths outside the removed products' directories changed" % label))
    # "every other ... installation directory is untouched": the directory of a declaration that stays, be it shared with a
    # removed product or inside a removed product's directory.  (The own directory of a removed product is what was asked to
    # be deleted: paths of one that sits strictly inside the survivor's directory are not counted.)
    for k in sorted(a_decl):
        d = a_decl[k][0]
        if REAL(d) and d in before["fs"]:
            if k[0] not in sel:
                # a declaration of a stack that -Z left out: the command cannot know it; its declaration and tags are in the
                # frame above, its directory is recorded when it goes (an observation, not a verdict)
                if any(p not in after["fs"] for p in before["fs"] if under(d, p)):
                    bad.append(("observation:directory-of-a-stack-left-out-by-Z-deleted", None, None, label))
                continue
            inner = [gd for gd in gone_dirs if gd != d and under(d, gd)]
            lostp = [p for p in before["fs"] if under(d, p) and p not in after["fs"] and not any(under(gd, p) for gd in inner)]
            if lostp:
                bad.append(("survivor-directory-deleted", "directory of %s untouched" % (k,), lostp[:6],
                            "%s: %s %s (%s, stack %d) stays declared but its installation directory %s lost %d paths" % (
                                label, k[2], k[3], k[1], k[0] + 1, d, len(lostp))))
                break
    # a removed product's directory that holds the installation directory of a declaration that stays is not "that version"
    # alone any more: the two clauses of the property pull apart there and the property does not say which paths must go
    surv_dirs = [a_decl[k][0] for k in a_decl if REAL(a_decl[k][0])]
    claim = [d for d in gone_dirs if not any(under(d, sd) for sd in surv_dirs)]
    left = [p for p in after["fs"] if any(under(d, p) for d in claim) and not any(under(sd, p) or under(p, sd) for sd in surv_dirs)]
    if left:
        bad.append(("directory-left", [], left[:10], "%s left paths of removed products: %s" % (label, left[:6])))
    # -- outcome
    if oc == "ok":
        if ending == "eof":
            bad.append(("eof-ignored", "EOFError", oc, "%s: standard input ran out but the command ended normally" % label))
        if len(removed) != nyes:
            bad.append(("answers-not-obeyed" if c.get("interactive") else "asked-not-removed", nyes, sorted(removed),
                        "%s: %d of the %d asked products were to go, %d went" % (label, nyes, len(doomed), len(removed))))
    elif oc == "other:EOFError" and ending == "eof":
        if len(removed) != nyes:
            bad.append(("answers-not-obeyed", nyes, sorted(removed), "%s: %d answers said yes before the input ran out, %d went" % (label, nyes, len(removed))))
    else:
        changed = [k for k in ("decls", "tags", "fs") if before[k] != after[k]]
        if changed:
            bad.append(("failed-but-changed", "state unchanged after %s" % oc, {"removed": sorted(removed)},
                        "%s raised (%s: %s) after removing %s" % (label, oc, res.get("msg", "")[:80], sorted(removed))))
        if oc == "refused":
            if not c.get("check", True) or c.get("force"):
                bad.append(("refused-unasked", "ok", oc, "%s was refused although the in-use check is off or force is on" % label))
        else:
            bad.append(("did-not-remove", "ok or refused", oc, "%s of a declared product ended in %s (%s)" % (label, oc, res.get("msg", "")[:100])))
    if c.get("check", True) and not c.get("force") and need and oc != "refused":
        d, u = need[0]
        bad.append(("needed-not-refused", "refused", oc,
                    "%s: %s %s (stack %d) would be deleted although %s %s (%s, stack %d), which stays declared, needs it; outcome %s" % (
                        label, d[2], d[3], d[0] + 1, u[2], u[3], u[1], u[0] + 1, oc)))
    return bad


# ------------------------------------------------------------------ generator

def D(stack, flavor, n, v, deps=(), tags=("current",), dir="in"):  # noqa
    return {"stack": stack, "flavor": flavor, "name": n, "version": v, "tags": list(tags), "dir": dir,
            "deps": [{"name": a, "version": b, "optional": o} for a, b, o in deps]}


def gen_mspec(rng):
    """4-7 product names over two stacks and two flavors: chains and shared dependencies, some (name, version) declared
    twice (other stack, other flavor, own table), dependencies across stacks, global tags in both stacks, directories
    inside / outside / none / shared"""
    n = rng.randint(4, 7)
    names = ["p%d" % i for i in range(1, n + 1)]
    decls = []
    for i, nm in enumerate(names):
        vers = ["1", "2"] if rng.random() < 0.25 else ["1"]
        for v in vers:
            fl = "generic" if rng.random() < 0.2 else FLAVOR
            tags = []
            if v == vers[-1] and rng.random() < 0.9:
                tags.append("current")
            if rng.random() < 0.3:
                tags.append("stable")
            decls.append(D(rng.randint(0, 1), fl, nm, v, tags=tags))
    # a second declaration of some versions: other stack and/or other flavor
    for d in rng.sample(decls, rng.choice([1, 1, 2, 2, 3])):
        r = rng.random()
        st, fl = d["stack"], d["flavor"]
        if r < 0.45:
            st = 1 - st
        elif r < 0.8:
            fl = "generic" if fl == FLAVOR else FLAVOR
        else:
            st, fl = 1 - st, ("generic" if fl == FLAVOR else FLAVOR)
        if not any(dkey(x) == (st, fl, d["name"], d["version"]) for x in decls):
            decls.append(D(st, fl, d["name"], d["version"], tags=[t for t in d["tags"] if rng.random() < 0.7]))
    idx = {nm: i for i, nm in enumerate(names)}
    for d in decls:
        later = names[idx[d["name"]] + 1:]
        k = rng.choice([0, 1, 1, 2, 2])
        for t in rng.sample(later, min(k, len(later))):
            tv = [x["version"] for x in decls if x["name"] == t]
            d["deps"].append({"name": t, "version": rng.choice(tv + [None, None]), "optional": rng.random() < 0.2})
        if rng.random() < 0.08 and idx[d["name"]] > 0:
            d["deps"].append({"name": names[rng.randrange(idx[d["name"]])], "version": None, "optional": False})   # back edge
        if rng.random() < 0.08:
            d["deps"].append({"name": "ghost", "version": rng.choice([None, "1"]), "optional": True})
    for i, d in enumerate(decls):
        r = rng.random()
        if r < 0.12:
            d["dir"] = "out"
        elif r < 0.2:
            d["dir"] = "none"
        elif r < 0.3 and i > 0:
            j = rng.randrange(i)
            if not isinstance(decls[j]["dir"], list) and decls[j]["dir"] != "none":
                d["dir"] = ["share", j]
    return {"shape": "multi", "decls": decls}


def answers_for(rng):
    k = rng.choice(["yes", "no", "mixed", "mixed", "quit", "all", "eof", "garbage"])
    if k == "yes":
        return ["y"] * 8
    if k == "no":
        return ["n"] * 8
    if k == "all":
        return [rng.choice(["y", "n", ""]), "!"]
    if k == "quit":
        return [rng.choice(["y", "n", ""]) for _ in range(rng.randint(0, 2))] + ["q"]
    if k == "eof":
        return [rng.choice(["y", "n", ""]) for _ in range(rng.randint(0, 1))]
    if k == "garbage":
        return ["yes", "Y", rng.choice(["y", "n"]), "x", "", "no", rng.choice(["y", "n", "!"]), "", "", "", "", ""]
    return [rng.choice(["y", "n", "", "y", "n"]) for _ in range(9)]


def cases_for(rng, spec, per_spec):
    natives = sorted(set((d["name"], d["version"]) for d in spec["decls"] if d["flavor"] == FLAVOR))
    others = sorted(set((d["name"], d["version"]) for d in spec["decls"]) - set(natives))
    cs = []
    for (n, v) in natives:
        for rec in (False, True):
            for chk, force in ((True, False), (True, False), (False, False), (True, True)):
                cs.append({"via": rng.choice(["cli", "api"]), "args": [n, v], "recursive": rec, "check": chk, "force": force,
                           "interactive": rng.choice([None, None, False])})
    rng.shuffle(cs)
    seen, uniq = set(), []
    for c in cs:
        k = (tuple(c["args"]), c["recursive"], c["check"], c["force"])
        if k not in seen:
            seen.add(k)
            uniq.append(c)
    cs = uniq[:per_spec]
    for _ in range(max(2, per_spec // 4)):
        n, v = rng.choice(natives)
        cs.append({"via": rng.choice(["cli", "api"]), "args": [n, v], "recursive": rng.random() < 0.8,
                   "check": rng.random() < 0.4, "force": rng.random() < 0.3, "interactive": True, "answers": answers_for(rng)})
    if others:
        n, v = rng.choice(others)
        cs.append({"via": "cli", "args": [n, v], "recursive": False, "check": True, "force": False, "interactive": None})
    if rng.random() < 0.3:
        cs.append({"via": "cli", "args": [natives[0][0]], "recursive": True, "check": True, "force": False, "interactive": None})
    return cs


def history_for(rng, spec):
    """one Eups object: remove something, declare a new user of a product, try to remove that product"""
    natives = sorted(set((d["name"], d["version"]) for d in spec["decls"] if d["flavor"] == FLAVOR))
    if len(natives) < 2:
        return None
    (a, av), (b, bv) = rng.sample(natives, 2)
    new = D(rng.randint(0, 1), FLAVOR, "newuser", "1", deps=[(b, rng.choice([bv, None]), False)])
    rm = lambda n, v, **kw: dict({"via": "api", "args": [n, v], "recursive": False, "check": True, "force": False,  # noqa
                                  "interactive": None}, **kw)
    return [rm(a, av, force=rng.random() < 0.5, recursive=rng.random() < 0.3), {"declare": new},
            rm(b, bv, recursive=rng.random() < 0.3)]


def spec_dir(spec, d):
    """the directory of a declaration as a symbolic path (no scratch base)"""
    return decl_dir("", spec, d)


def twin_relations(spec):
    """how the directories of two declarations of the SAME name, version and flavor in different stacks relate"""
    out, ds = [], spec["decls"]
    for i, a in enumerate(ds):
        for b in ds[i + 1:]:
            if (a["name"], a["version"], a["flavor"]) == (b["name"], b["version"], b["flavor"]) and a["stack"] != b["stack"]:
                da, db = spec_dir(spec, a), spec_dir(spec, b)
                if "none" in (da, db):
                    continue
                first, second = (da, db) if a["stack"] < b["stack"] else (db, da)
                out.append("shared" if da == db else "second-inside-first" if under(first, second) else
                           "first-inside-second" if under(second, first) else "apart")
    return out


def gen_twin_spec(rng):
    """2-4 product names, most of them declared in BOTH stacks for the running flavor with one installation: the very
    directory (eups declare -r <dir> in a team stack and in a personal stack), or the directory of one declaration inside
    the other's; chains and shared dependencies between them; now and then a third declaration (another name, or the
    fall-back flavor) living in the same directory"""
    n = rng.randint(2, 4)
    names = ["q%d" % i for i in range(1, n + 1)]
    decls = []
    for i, nm in enumerate(names):
        later = names[i + 1:]
        deps = [(t, rng.choice(["1", None]), rng.random() < 0.15) for t in rng.sample(later, min(len(later), rng.choice([0, 1, 1, 2])))]
        st = rng.randint(0, 1)
        tags = ["current"] + (["stable"] if rng.random() < 0.3 else [])
        first = len(decls)
        decls.append(D(st, FLAVOR, nm, "1", deps, tags=tags, dir=rng.choice(["in", "in", "out"])))
        r = rng.random()
        if r < 0.8:
            rel = rng.choice(["share", "share", "share", "inside", "holds", "apart"])
            twin = D(1 - st, FLAVOR, nm, "1", deps if rng.random() < 0.8 else [], tags=[t for t in tags if rng.random() < 0.7],
                     dir={"share": ["share", first], "inside": ["inside", first], "apart": "in"}.get(rel, rng.choice(["in", "out"])))
            decls.append(twin)
            if rel == "holds":
                decls[first]["dir"] = ["inside", first + 1]
            if rng.random() < 0.2:
                decls.append(D(rng.randint(0, 1), rng.choice(FLAVORS), nm + "x", "1", [], dir=["share", first]))
        elif r < 0.9:
            decls.append(D(st, "generic", nm, "1", deps, tags=[], dir=["share", first]))
    return {"shape": "same-product-both-stacks", "decls": decls}


def twin_cases(rng, spec, per_spec):
    natives = sorted(set((d["name"], d["version"]) for d in spec["decls"] if d["flavor"] == FLAVOR))
    cs = [{"via": rng.choice(["cli", "api"]), "args": [n, v], "recursive": rec, "check": chk, "force": force, "interactive": None}
          for (n, v) in natives for rec in (False, True) for chk, force in ((False, False), (True, True), (True, False))]
    rng.shuffle(cs)
    cs = cs[:per_spec]
    n, v = rng.choice(natives)
    cs.append({"via": rng.choice(["cli", "api"]), "args": [n, v], "recursive": True, "check": False, "force": False,
               "interactive": True, "answers": answers_for(rng)})
    for c in cs:                                  # -Z: the stacks the other way round (removal from the second stack), or one only
        if rng.random() < 0.4:
            c["path"] = rng.choice([[1, 0], [1, 0], [1, 0], [1], [0]])
    return cs


def twin_history(rng, spec):
    """several removals on ONE Eups object: the same version twice (first the declaration of the first stack, then the one
    of the second stack), with other products in between"""
    natives = sorted(set((d["name"], d["version"]) for d in spec["decls"] if d["flavor"] == FLAVOR))
    both = sorted(set((d["name"], d["version"]) for d in spec["decls"] if d["flavor"] == FLAVOR and d["stack"] == 0) &
                  set((d["name"], d["version"]) for d in spec["decls"] if d["flavor"] == FLAVOR and d["stack"] == 1)) or natives
    rm = lambda nv, **kw: dict({"via": "api", "args": list(nv), "recursive": False, "check": False, "force": False,  # noqa
                                "interactive": None}, **kw)
    a = rng.choice(both)
    h = [rm(a, recursive=rng.random() < 0.3, check=rng.random() < 0.3, force=rng.random() < 0.5)]
    if rng.random() < 0.5:
        h.append(rm(rng.choice(natives), recursive=rng.random() < 0.3))
    h.append(rm(a, recursive=rng.random() < 0.3))
    if rng.random() < 0.4:
        h.append(rm(rng.choice(natives), recursive=True, force=True, check=True))
    if rng.random() < 0.4:
        h = [dict(st, path=[1, 0]) for st in h]
    return h


def directed_twins():
    """the same name, version and flavor declared in both stacks on EUPS_PATH with ONE installation (the very directory, or
    one directory inside the other); removal recursive and not, checked and not, from the command line and through the
    interface, and the version removed twice on one Eups object (first stack, then second stack)"""
    L, G = FLAVOR, "generic"
    rm = lambda n, v, **kw: dict({"via": "cli", "args": [n, v], "recursive": False, "check": True, "force": False,  # noqa
                                  "interactive": None}, **kw)
    api = lambda n, v, **kw: rm(n, v, via="api", **kw)  # noqa
    out = []
    plain = [rm("t", "1"), rm("t", "1", check=False), api("t", "1"), api("t", "1", check=False), rm("t", "1", recursive=True),
             rm("t", "1", recursive=True, check=False), rm("t", "1", force=True), rm("o", "2"),
             rm("t", "1", interactive=True, answers=["y"], check=False)]
    twice = [[api("t", "1", check=False), api("t", "1", check=False)], [api("t", "1"), api("o", "2"), api("t", "1", recursive=True)]]
    for shape, ds in [
            ("shared-outside", [D(0, L, "t", "1", dir="out"), D(1, L, "t", "1", dir=["share", 0]), D(1, L, "o", "2")]),
            ("shared-in-first-stack", [D(0, L, "t", "1"), D(1, L, "t", "1", dir=["share", 0]), D(1, L, "o", "2")]),
            ("shared-in-second-stack", [D(0, L, "t", "1", dir=["share", 1]), D(1, L, "t", "1"), D(0, L, "o", "2")]),
            ("second-inside-first", [D(0, L, "t", "1", dir="out"), D(1, L, "t", "1", dir=["inside", 0]), D(1, L, "o", "2")]),
            ("first-inside-second", [D(0, L, "t", "1", dir=["inside", 1]), D(1, L, "t", "1", dir="out"), D(0, L, "o", "2")]),
            ("shared-and-other-flavor", [D(0, L, "t", "1", dir="out"), D(1, L, "t", "1", dir=["share", 0]),
                                         D(1, G, "t", "1", dir=["share", 0], tags=[]), D(1, L, "o", "2")])]:
        z = [dict(c, path=pth) for pth in ([1, 0], [1], [0]) for c in (plain[0], plain[1], plain[3], plain[5])]
        twice_z = [[dict(st, path=[1, 0]) for st in twice[0]]]
        out.append(({"shape": "same-product-both-stacks/" + shape, "decls": ds}, plain + z, twice + twice_z))
    # ... with a dependency installed the same way: t 1 -> d 1, both in both stacks, each pair in one directory
    dd = [D(0, L, "t", "1", [("d", "1", False)], dir="out"), D(1, L, "t", "1", [("d", "1", False)], dir=["share", 0]),
          D(0, L, "d", "1", dir="out"), D(1, L, "d", "1", dir=["share", 2]), D(1, L, "o", "2", [("d", None, False)])]
    out.append(({"shape": "same-product-both-stacks/with-dependency", "decls": dd},
                [rm("t", "1", recursive=True), rm("t", "1", recursive=True, check=False), rm("t", "1", recursive=True, force=True),
                 api("t", "1", recursive=True, check=False), rm("d", "1"), rm("d", "1", check=False), rm("d", "1", force=True)],
                [[api("t", "1", recursive=True, check=False), api("t", "1", recursive=True, check=False)],
                 [api("d", "1", check=False), api("t", "1", check=False), api("d", "1", check=False), api("t", "1", check=False)]]))
    return out


def directed():
    """one directed stack per construct of the extension; (spec, cases, histories)"""
    L, G = FLAVOR, "generic"
    rm = lambda n, v, **kw: dict({"via": "cli", "args": [n, v], "recursive": False, "check": True, "force": False,  # noqa
                                  "interactive": None}, **kw)
    out = []
    # the same version in a private and a shared stack, both needing d
    out.append(({"shape": "same-version-two-stacks", "decls": [
        D(0, L, "t", "1", [("d", "1", False)]), D(0, L, "d", "1"), D(1, L, "t", "1", [("d", "1", False)]), D(1, L, "x", "1")]},
        [rm("t", "1", recursive=True), rm("t", "1", recursive=True, force=True), rm("t", "1"), rm("d", "1", via="api"),
         rm("t", "1", recursive=True, check=False)], []))
    # ... and under two flavors with different tables (seed C14-7)
    out.append(({"shape": "same-version-two-flavors", "decls": [
        D(0, L, "u", "1.0", [("d", "1.0", False)]), D(0, G, "u", "1.0", [("e", "1.0", False)]), D(0, L, "d", "1.0"), D(0, L, "e", "1.0")]},
        [rm("d", "1.0"), rm("e", "1.0"), rm("u", "1.0", recursive=True), rm("u", "1.0"), rm("e", "1.0", via="api", force=True)], []))
    # a shadowed declaration is the only user
    out.append(({"shape": "shadowed-user", "decls": [
        D(0, L, "t", "1"), D(0, L, "d", "1"), D(1, L, "t", "1", [("d", None, False)])]},
        [rm("d", "1"), rm("d", "1", check=False)], []))
    # a survivor of the other flavor in the other stack; dependencies across stacks; global tags in both stacks
    out.append(({"shape": "other-flavor-survivor", "decls": [
        D(0, L, "a", "1", [("lib", None, False)], tags=["current", "stable"]), D(1, L, "lib", "1", tags=["current", "stable"]),
        D(1, G, "g", "1", [("lib", "1", False)]), D(0, L, "lib", "0", tags=["stable"]), D(1, G, "lib", "1")]},
        [rm("a", "1", recursive=True), rm("lib", "1"), rm("lib", "1", force=True), rm("lib", "0"), rm("g", "1"),
         rm("a", "1", recursive=True, check=False, via="api")], []))
    # directories: outside the stack, none, shared by two declarations (one doomed, one staying; both doomed)
    out.append(({"shape": "directories", "decls": [
        D(0, L, "a", "1", [("b", None, False), ("y", None, False)]), D(0, L, "b", "1", dir="out"), D(1, L, "y", "1", dir=["share", 1]),
        D(1, L, "n", "1", dir="none"), D(1, L, "z", "1", dir="out")]},
        [rm("b", "1", check=False), rm("y", "1", check=False), rm("a", "1", recursive=True, check=False), rm("n", "1"), rm("z", "1", via="api")], []))
    # the questions
    q = {"shape": "questions", "decls": [D(0, L, "t", "1", [("d", None, False), ("e", None, False)]), D(0, L, "d", "1", [("e", None, False)]),
                                        D(1, L, "e", "1"), D(1, L, "k", "1")]}
    ans = [["n", "y", "y"], ["q"], ["y", "q"], ["", "n", ""], ["what", "y", "maybe", "n", "!"], ["!"], ["n", "!"], ["y"], [], ["n", "n", "n"]]
    out.append((q, [rm("t", "1", recursive=True, check=False, interactive=True, answers=a, via=("cli" if i % 2 else "api")) for i, a in enumerate(ans)]
                + [rm("t", "1", recursive=True, interactive=True, answers=["y", "y", "y"]), rm("t", "1", recursive=True, check=False, interactive=False),
                   rm("t", "1", interactive=True, answers=["n"]), {"via": "cli", "args": ["t"], "recursive": True, "check": True, "force": False, "interactive": None},
                   {"via": "cli", "args": [], "recursive": False, "check": True, "force": False, "interactive": None}], []))
    # one Eups object for several commands (seed C14-8): the users table must not outlive the call
    h = {"shape": "one-object-history", "decls": [D(0, L, "d", "1.0"), D(0, L, "x", "1.0"), D(0, L, "y", "1.0", [("d", "1.0", False)])]}
    api = lambda n, v, **kw: rm(n, v, via="api", **kw)  # noqa
    out.append((h, [], [[api("x", "1.0"), api("y", "1.0"), {"declare": D(0, L, "u", "1.0", [("d", "1.0", False)])}, api("d", "1.0")],
                        [api("x", "1.0"), {"declare": D(1, L, "u", "1.0", [("d", None, False)])}, api("d", "1.0", recursive=True)]]))
    return out


# ------------------------------------------------------------------ comparison

def check_edges(ctx, spec, decls, edges):
    """the real code's resolution of every table line against the reference resolution of the generator's data"""
    g = ref_graph(decls)
    by = {(STACKS.index(d["stack"]), d["flavor"], d["name"], d["version"]): d for d in edges}
    for d in decls:
        k = dkey(d)
        mine = [[x["name"], x.get("version"), (t[3] if t else None), ([STACKS[t[0]], t[1]] if t else None), bool(x.get("optional"))]
                for x, t in zip(d["deps"], g[k])]
        theirs = by.get(k, {}).get("rows")
        if theirs is None or theirs[:len(mine)] != mine or theirs[len(mine):] != [[DEFAULT_PRODUCT, None, None, None, True]]:
            ctx.disagree({"mspec": spec, "focus": list(k)}, mine, theirs, where="resolution of table lines (two stacks, two flavors)")


def compare_one(ctx, spec, decls, c, before, edges, r, mline, variant, extra_key=""):
    m = model_decode(mline)
    if m["outcome"] == "status:2":          # the usage error: nothing was looked at
        m = dict(m, decls=before["decls"], tags=before["tags"], fs=before["fs"])
    case = {"mspec": spec, "command": c}
    i_state = {"outcome": r["outcome"], "decls": r["after"]["decls"], "tags": r["after"]["tags"], "fs": r["after"]["fs"]}
    if m != i_state:
        diff = {k: {"model": m[k], "impl": i_state[k]} for k in m if m[k] != i_state[k]}
        for k in ("decls", "tags", "fs"):
            if k in diff:
                diff[k] = {"only_model": [x for x in m[k] if x not in i_state[k]][:8], "only_impl": [x for x in i_state[k] if x not in m[k]][:8]}
        ctx.disagree(case, {k: m[k] for k in diff}, dict({k: i_state[k] for k in diff if k == "outcome"}, msg=r.get("msg"), diff=diff),
                     where="eups remove, whole command (%s model)" % variant)
    ctx.traces_validated += 1
    if variant == "fixed":
        for kind, exp, obs, what in oracle(decls, c, before, {"outcome": m["outcome"], "msg": "model", "after": m}):
            if kind.startswith("observation:"):
                continue
            ctx.disagree(case, obs, exp, where="the oracle (%s) is false of the model: %s" % (kind, what[:200]))
    fails = []
    for kind, exp, obs, what in oracle(decls, c, before, r):
        if kind.startswith("observation:"):
            ctx.bump(kind)
            continue
        ctx.fail(kind, case, expected=exp, observed=obs, what=what)
        fails.append(kind)
    flags = "%s%s%s%s" % ("R" if c.get("recursive") else "-", "C" if c.get("check", True) else "-", "F" if c.get("force") else "-",
                          "I" if c.get("interactive") else "-")
    sel = order_of(c)
    decls = [d for d in decls if d["stack"] in sel]
    g = ref_graph(decls, sel)
    doomed = ref_doomed(decls, g, c, sel) if len(c["args"]) >= 2 else None
    need = ref_needed(g, doomed) if doomed else []
    nontriv = doomed is not None and (len(doomed) >= 2 or bool(need) or bool(c.get("interactive")))
    if c.get("path"):
        extra_key += "/-Z-" + "-".join(STACKS[i][1:] for i in sel)
    ctx.count(1, key="whole-command%s/%s/%s/%s" % (extra_key, c["via"], flags, r["outcome"]),
              nontrivial=json.dumps([sorted(doomed), sorted(set(u for _d, u in need)), flags, c.get("answers", [])[:6]]) if nontriv else None)
    if c.get("interactive"):
        ctx.bump("questions/%s" % ref_verdicts(len(doomed or []), c)[1])
    # a declaration went whose installation a declaration of the SAME name, version and flavor in the other stack keeps
    bk = {(STACKS.index(x[0]), x[1], x[2], x[3]): x[4] for x in before["decls"]}
    ak = {(STACKS.index(x[0]), x[1], x[2], x[3]): x[4] for x in r["after"]["decls"]}
    for k in sorted(set(bk) - set(ak)):
        o = (1 - k[0],) + k[1:]
        if o in ak and REAL(bk[k]) and REAL(ak[o]) and (under(bk[k], ak[o]) or under(ak[o], bk[k])):
            ctx.bump("same-product-other-stack-stays/%s/removed-from-stack-%d/%s%s" % (
                "shared" if bk[k] == ak[o] else "survivor-inside" if under(bk[k], ak[o]) else "survivor-holds", k[0] + 1,
                "recursive" if c.get("recursive") else "plain", extra_key))
    if need and c.get("check", True) and not c.get("force"):
        u = need[0][1]
        ctx.bump("survivor-needing/%s" % ("other-declaration-of-target" if (u[2], u[3]) == tuple(c["args"][:2]) else
                                          "other-flavor" if u[1] != FLAVOR else "other-stack" if u[0] != need[0][0][0] else "same-stack"))
    return fails


def features(ctx, spec):
    decls = spec["decls"]
    nv = {}
    for d in decls:
        nv.setdefault((d["name"], d["version"]), []).append(d)
    if any(len(set(x["stack"] for x in v)) > 1 for v in nv.values()):
        ctx.bump("feature/same-version-in-both-stacks")
    if any(len(set(x["flavor"] for x in v)) > 1 for v in nv.values()):
        ctx.bump("feature/same-version-under-both-flavors")
    g = ref_graph(decls)
    if any(t is not None and t[0] != k[0] for k in g for t in g[k]):
        ctx.bump("feature/dependency-across-stacks")
    if any("stable" in d["tags"] for d in decls if d["stack"] == 0) and any("stable" in d["tags"] for d in decls if d["stack"] == 1):
        ctx.bump("feature/global-tag-in-both-stacks")
    for d in decls:
        k = d.get("dir", "in")
        ctx.bump("feature/directory-%s" % (("shared" if k[0] == "share" else "inside-another") if isinstance(k, list) else k))
    for rel in twin_relations(spec):
        ctx.bump("feature/same-product-both-stacks-directory-%s" % rel)


def run_jobs(ctx, jobs, variant="fixed", nproc=None):
    xv = "xpinned" if variant == "pinned" else variant
    impls = stackgen.run_parallel(impl_chunk, jobs, nproc=nproc)
    lines, plan = [], []
    for j, i in zip(jobs, impls):
        if "child_error" in i:
            raise RuntimeError("implementation driver failed on a two-stack spec: %r" % (i["child_error"],))
        for c, r in zip(j["cases"], i["results"]):
            plan.append((j["spec"], j["spec"]["decls"], c, i["before"], r.get("edges", i["edges"]), r, ""))
        for h, steps in zip(j.get("histories", []), i["histories"]):
            decls = list(j["spec"]["decls"])
            for step, s in zip(h, steps):
                if "declare" in step:
                    decls = decls + [step["declare"]]
                    continue
                if "outcome" not in s:
                    break
                # the reference works on the declarations that are there before this step
                live = [d for d in decls if [STACKS[d["stack"]], d["flavor"], d["name"], d["version"]] in [x[:4] for x in s["before"]["decls"]]]
                plan.append((dict(j["spec"], history=h), live, step, s["before"], s["edges"], s, "/history"))
    for spec, decls, c, before, edges, r, ek in plan:
        lines.append(model_line(xv, before, edges, c))
    outs = ctx.model(lines)
    fails = []
    for (spec, decls, c, before, edges, r, ek), mline in zip(plan, outs):
        fails += compare_one(ctx, spec, decls, c, before, edges, r, mline, xv, ek)
    for j, i in zip(jobs, impls):
        check_edges(ctx, j["spec"], j["spec"]["decls"], i["edges"])
        features(ctx, j["spec"])
        ctx.bump("graph/%s" % j["spec"].get("shape", "?"))
    return impls, fails


def run(ctx, variant="fixed"):
    rng = ctx.rng
    jobs = [{"spec": s, "cases": cs, "histories": hs} for s, cs, hs in directed() + directed_twins()]
    run_jobs(ctx, jobs, variant)
    jobs = []
    for _ in range(ctx.size(16, 200)):
        s = gen_twin_spec(rng)
        jobs.append({"spec": s, "cases": twin_cases(rng, s, ctx.size(8, 24)), "histories": [twin_history(rng, s)]})
    for i in range(0, len(jobs), 100):
        run_jobs(ctx, jobs[i:i + 100], variant)
    n = ctx.size(30, 400)
    jobs = []
    for _ in range(n):
        s = gen_mspec(rng)
        h = history_for(rng, s) if rng.random() < 0.35 else None
        jobs.append({"spec": s, "cases": cases_for(rng, s, ctx.size(14, 40)), "histories": [h] if h else []})
    if jobs:
        ctx.sample({"mspec": jobs[0]["spec"], "commands": jobs[0]["cases"][:3]})
    for i in range(0, len(jobs), 100):
        run_jobs(ctx, jobs[i:i + 100], variant)


def job_of_input(inp):
    spec = inp["mspec"]
    if spec.get("history"):
        return {"spec": {k: v for k, v in spec.items() if k != "history"}, "cases": [], "histories": [spec["history"]]}
    return {"spec": spec, "cases": [inp["command"]], "histories": []}


def replay_input(ctx, inp, variant="fixed"):
    impls, _ = run_jobs(ctx, [job_of_input(inp)], variant, nproc=1)
    return impls[0]
