"""C15 - dry-run (-n) commands change nothing.

Static side: harness/translate_guards.py regenerates coq/Generated/Guards.v from /repo's Eups.py; coq/Props/C15.v
proves that no write site is reachable from declare/undeclare/unassignTag/remove when noaction is true.
Dynamic side: (1) every generated operation is run with noaction=True on the real code and the stack (database
records + product directories, caches excluded) is hashed before and after; (2) the same operations are run with
noaction=False under a spy on the low-level mutators, and every observed change of the stack must happen below a
call site that the translator classified as writing (this validates the translator's "pure" tables).
"""
import hashlib
import json
import os
import shutil
import sys

import common
import translate_guards

PRODUCTS = ["a", "b", "c"]
VERSIONS = ["1.0", "2.0", "3.0"]
TAGS = ["current", "stable"]


# ------------------------------------------------------------------ scratch stacks (run inside children)

def tree_hash(root):
    """path -> sha256 for every file / 'dir' for directories, product caches and user data excluded"""
    out = {}
    for d, dirs, files in os.walk(root):
        dirs.sort()
        rel = os.path.relpath(d, root)
        if "_caches_" in rel.split(os.sep):
            continue
        out[rel + "/"] = "dir"
        for f in sorted(files):
            if ".pickleDB" in f or f.endswith(".lock") or f.startswith(".lockDir"):
                continue
            p = os.path.join(d, f)
            with open(p, "rb") as fd:
                out[os.path.join(rel, f)] = hashlib.sha256(fd.read()).hexdigest()
    return out


def new_eups(stack, userdata, noaction=False, force=False):
    import eups
    sys.modules["eups.db.Database"]._databases.clear()
    os.environ["EUPS_PATH"] = stack
    os.environ["EUPS_USERDATA"] = userdata
    os.environ["EUPS_FLAVOR"] = "Linux64"
    os.environ["EUPS_SHELL"] = "sh"
    e = eups.Eups(noaction=noaction, force=force, quiet=1, readCache=True)
    e.selectVRO(None, None, None, None)
    return e


def build_state(work, state):
    """state: {"declared": [[p, v, tag-or-None], ...]}; returns (stack, userdata)"""
    stack = os.path.join(work, "stack")
    userdata = os.path.join(work, "user")
    os.makedirs(os.path.join(stack, "ups_db"))
    os.makedirs(os.path.join(userdata, "ups_db"))
    for p in PRODUCTS:
        for v in VERSIONS:
            d = os.path.join(stack, "Linux64", p, v)
            os.makedirs(os.path.join(d, "ups"))
            with open(os.path.join(d, "ups", p + ".table"), "w") as f:
                if p == "b":
                    f.write("setupRequired(a)\n")
                if p == "c":
                    f.write("setupRequired(b)\nsetupOptional(a 1.0)\n")
                f.write("envPrepend(PATH, ${PRODUCT_DIR}/bin)\n")
            with open(os.path.join(d, "payload.txt"), "w") as f:
                f.write("%s %s\n" % (p, v))
    os.makedirs(os.path.join(work, "alt", "ups"))
    with open(os.path.join(work, "alt", "ups", "a.table"), "w") as f:
        f.write("envSet(ALT, 1)\n")
    with open(os.path.join(work, "extra.txt"), "w") as f:
        f.write("extra file\n")
    e = new_eups(stack, userdata)
    for p, v, t in state["declared"]:
        e = new_eups(stack, userdata)
        e.declare(p, v, os.path.join(stack, "Linux64", p, v), tag=t)
    return stack, userdata


def apply_op(e, op, stack, work):
    k = op["op"]
    if k == "declare":
        pdir = os.path.join(stack, "Linux64", op["p"], op["v"]) if op.get("dir", "own") == "own" else \
            os.path.join(work, "alt")
        kw = {}
        if op.get("table") == "stream":
            import io
            kw["tablefile"] = io.StringIO("envSet(FROM_STREAM, 1)\n")
        if op.get("extern"):
            kw["externalFileList"] = [(os.path.join(work, "extra.txt"), "doc/extra.txt")]
        e.declare(op["p"], op["v"], pdir, tag=op.get("tag"), **kw)
    elif k == "declare_tag":
        e.declare(op["p"], op["v"], tag=op["tag"])
    elif k == "undeclare":
        e.undeclare(op["p"], op.get("v"), tag=op.get("tag"), undeclareVersionAndTag=bool(op.get("both")))
    elif k == "untag":
        e.unassignTag(op["tag"], op["p"], op.get("v"))
    elif k == "remove":
        e.remove(op["p"], op["v"], recursive=bool(op.get("rec")), checkRecursive=bool(op.get("check")))
    else:
        raise ValueError(k)


def run_case(case, spy_sites=None):
    """child: build the state, run the op; returns dict(before==after?, diff, outcome, spied)"""
    common.import_eups()
    work = common.scratch_dir("c15.")
    try:
        stack, userdata = build_state(work, case["state"])
        before = tree_hash(stack)
        spied = []
        if spy_sites is not None:
            install_spy(stack, spied)
        e = new_eups(stack, userdata, noaction=case["noaction"], force=bool(case["op"].get("force")))
        try:
            apply_op(e, case["op"], stack, work)
            outcome = "ok"
        except BaseException as ex:  # noqa
            outcome = "exc:" + type(ex).__name__
        after = tree_hash(stack)
        diff = sorted(k for k in set(before) | set(after) if before.get(k) != after.get(k))
        return {"unchanged": before == after, "diff": diff[:12], "outcome": outcome, "spied": spied}
    finally:
        shutil.rmtree(work, ignore_errors=True)


# ------------------------------------------------------------------ spy (noaction=False runs)

def install_spy(stack, log):
    """record (method, line) of the innermost translated-method frame for every low-level change under stack"""
    import builtins
    import eups.utils as U
    methods = set(translate_guards.METHODS)

    def note(path):
        try:
            p = os.path.abspath(str(path))
        except Exception:  # noqa
            return
        if not p.startswith(stack + os.sep) or "_caches_" in p or ".pickleDB" in p:
            return
        f = sys._getframe(2)
        while f is not None:
            if f.f_code.co_filename.endswith(os.path.join("eups", "Eups.py")) and f.f_code.co_name in methods:
                log.append([f.f_code.co_name, f.f_lineno, os.path.relpath(p, stack)])
                return
            # nested helpers of declare (cleanup) keep their own names; attribute them to declare
            f = f.f_back
        log.append([None, 0, os.path.relpath(p, stack)])

    def wrap(mod, name, argidx=0):
        orig = getattr(mod, name)

        def w(*a, **k):
            if len(a) > argidx:
                note(a[argidx])
            return orig(*a, **k)
        setattr(mod, name, w)
    for n in ("mkdir", "makedirs", "remove", "unlink", "rmdir", "chmod"):
        wrap(os, n)
    wrap(os, "rename", 1)
    wrap(os, "replace", 1)
    wrap(shutil, "rmtree")
    wrap(U, "copyfile", 1)
    orig_open = builtins.open

    def open_w(file, mode="r", *a, **k):
        if any(c in mode for c in "wax+"):
            note(file)
        return orig_open(file, mode, *a, **k)
    builtins.open = open_w


# ------------------------------------------------------------------ generator

def gen_state(rng):
    declared = []
    for p in PRODUCTS:
        vs = [v for v in VERSIONS if rng.random() < 0.55]
        cur = rng.choice(vs) if vs and rng.random() < 0.8 else None
        for v in vs:
            declared.append([p, v, "current" if v == cur else ("stable" if rng.random() < 0.2 else None)])
    return {"declared": declared}


def gen_op(rng, state):
    decl = [(p, v) for p, v, _ in state["declared"]]
    undecl = [(p, v) for p in PRODUCTS for v in VERSIONS if (p, v) not in decl]
    r = rng.random()
    if r < 0.30:
        p, v = rng.choice(undecl or decl)
        return {"op": "declare", "p": p, "v": v, "tag": rng.choice([None, None, "current", "stable"]),
                "table": rng.choice(["own", "own", "stream"]), "extern": rng.random() < 0.3}
    if r < 0.42 and decl:
        p, v = rng.choice(decl)
        return {"op": "declare", "p": p, "v": v, "dir": rng.choice(["own", "alt"]), "force": rng.random() < 0.5,
                "tag": rng.choice([None, "current"]), "table": rng.choice(["own", "stream"]),
                "extern": rng.random() < 0.3}
    if r < 0.55 and decl:
        p, v = rng.choice(decl)
        return {"op": "declare_tag", "p": p, "v": v, "tag": rng.choice(TAGS)}
    if r < 0.72 and decl:
        p, v = rng.choice(decl)
        return {"op": "undeclare", "p": p, "v": rng.choice([v, v, None]),
                "tag": rng.choice([None, None, "current", "stable"]), "both": rng.random() < 0.3}
    if r < 0.82 and decl:
        p, v = rng.choice(decl)
        return {"op": "untag", "p": p, "v": rng.choice([v, None]), "tag": rng.choice(TAGS)}
    p, v = rng.choice(decl or undecl)
    return {"op": "remove", "p": p, "v": v, "rec": rng.random() < 0.5, "check": rng.random() < 0.4,
            "force": rng.random() < 0.3}


def corpus_cases():
    d = os.path.join(common.ROOT, "corpus", "C15")
    out = []
    if os.path.isdir(d):
        for f in sorted(os.listdir(d)):
            if f.endswith(".json"):
                out.append(json.load(open(os.path.join(d, f)))["input"])
    return out


def par_map(fn, items, nproc=12):
    """run fn(item) in forked children, nproc at a time; results in order"""
    from concurrent.futures import ThreadPoolExecutor
    with ThreadPoolExecutor(max_workers=nproc) as ex:
        return list(ex.map(lambda it: common.in_child(fn, *it, timeout=300), items))


def run(ctx):
    out = os.path.join(common.COQ, "Generated", "Guards.v")
    try:
        info = translate_guards.generate(common.REPO, out)
    except translate_guards.TranslationError as e:
        info = None
        ctx.proof_problems.append({"theorem": None, "what": "translator failed closed: %s" % e})
    ctx.rule = ("static: guard structure regenerated from Eups.py, theorems re-checked; dynamic: random database "
                "states (3 products x 3 versions, tags) x mutating operations (new declaration, redeclaration with/"
                "without force, tag move, stream table file, external files, undeclare with/without tag, untag, "
                "remove, recursive remove) run with noaction=True and the stack hashed before/after; a case is "
                "non-trivial when the same operation with noaction=False changes the stack; distinct = distinct "
                "(state, op)")
    ctx.trusted_base = common.COMMON_TRUSTED + [
        "harness/translate_guards.py (python ast -> Coq term, fail-closed) and its classification tables "
        "(write / not-a-stack-record / pure), printed under coverage.translator",
        "the semantics Model/Guards.v exec as an over-approximation of python control flow with self.noaction fixed "
        "(no assignment to self.noaction inside the translated methods: checked by the translator)"]
    ctx.assumptions = ["a call the translator classifies as pure performs no write to stack records or product "
                       "directories (cross-checked dynamically by the spy runs, not proved)",
                       "self.noaction is not changed during a command"]
    if info is not None:
        ctx.extra["translator"] = info
        ctx.check_theorems()
        if info["unknown_callees"]:
            ctx.notes.append("translator met unknown callees (treated as writes): %s" % info["unknown_callees"][:3])
    site_lines = set()
    if info is not None:
        for s in info["sites"]:
            site_lines.add((s["method"], s["line"]))
        for s in info["not_stack_records"]:
            site_lines.add((s["method"], s["line"]))
    # ---- dynamic
    cases = corpus_cases()
    n = ctx.size(60, 600)
    for _ in range(n):
        st = gen_state(ctx.rng)
        cases.append({"state": st, "op": gen_op(ctx.rng, st)})
    dry = par_map(run_case, [(dict(c, noaction=True), None) for c in cases])
    wet = par_map(run_case, [(dict(c, noaction=False), True) for c in cases])
    for c, d, w in zip(cases, dry, wet):
        if d[0] != "ok" or w[0] != "ok":
            raise RuntimeError("scenario child failed: %r %r" % (d, w))
        d, w = d[1], w[1]
        changed_when_wet = not w["unchanged"]
        ctx.count(1, key="%s/%s" % (c["op"]["op"], "effective" if changed_when_wet else "noop-or-refused"),
                  nontrivial=json.dumps(c, sort_keys=True) if changed_when_wet else None)
        ctx.sample({"case": c, "dry": d["outcome"], "wet": w["outcome"], "wet_changes": w["diff"][:4]})
        if not d["unchanged"]:
            ctx.fail("dry-run-changed-stack", c, expected="stack unchanged", observed=d["diff"],
                     what="with noaction=True the operation changed %s" % d["diff"][:4])
        # translator cross-check: every change made by the wet run sits under a call the translator calls a write
        for meth, line, path in w["spied"]:
            if meth is None:
                continue
            ctx.traces_validated += 1
            if info is not None and (meth, line) not in site_lines:
                ctx.disagree(c, "translator: no write site at %s:%d" % (meth, line),
                             "implementation wrote %s from there" % path, where="translator tables")


def replay(ctx, path):
    obj = json.load(open(path))
    c = obj["input"]
    r = common.in_child(run_case, dict(c, noaction=True), None)
    bad = r[0] != "ok" or not r[1]["unchanged"]
    print("replay %s: %s %s" % (path, "still fails" if bad else "passes", r[1] if r[0] == "ok" else r))
    return 1 if bad else 0
