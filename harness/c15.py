"""C15 - dry-run (-n) commands change nothing.

Static side: harness/translate_guards.py regenerates coq/Generated/Guards.v from /repo's Eups.py, the command
classes of cmd.py and the wrappers of app.py; coq/Props/C15.v proves that no write site is reachable from
declare/undeclare/unassignTag/remove, nor from eups declare / undeclare / remove, when noaction is true.
Dynamic side, per case (a database state, one mutating request, the options of the run):
 (1) the request is run with noaction=True on the real code - through the python API or through the command-line
     front end (eups.cmd.EupsCmd) - and every database record and product directory of the scratch area is hashed
     before, when the call returns, and after the exit handlers of the process have run; caches, lock directories
     and the temporary directory are not part of the hash (see snapshot());
 (2) the dry run is also made under a spy on the low-level mutators: the theorem says no write site is reachable, so
     any mutator call on a record or product directory (even one that leaves the bytes as they were) is a
     disagreement between the generated model and the code;
 (3) the same request is run with noaction=False under the spy, and every observed change must happen below a call
     site that the translator classified as writing (this validates the translator's "pure" tables); a dry run of a
     request that really changes the stack must have reported something (when not run with -q).
Cases: directed_cases() lists every class of the property's quantifier in the forms the python API and the command
line allow, on the database states that matter (interned files, shared product directories, two stacks, user tags,
tags of lost versions, records with a second flavor, stacks the user cannot write, fresh/stale/no cache ...);
random_case() draws states x requests x options on top.  What counts as a record: snapshot() / is_cache_path().
"""
import hashlib
import json
import os
import re
import shutil
import sys

import common
import translate_guards

PRODUCTS = ["a", "b", "c"]
VERSIONS = ["1.0", "2.0", "3.0"]
TAGS = ["current", "stable"]
USERTAG = "mine"                     # defined in <userdata>/startup.py
TABLE = {
    "a": "envPrepend(PATH, ${PRODUCT_DIR}/bin)\n",
    "b": "setupRequired(a)\nenvPrepend(PATH, ${PRODUCT_DIR}/bin)\n",
    "c": "setupRequired(b)\nsetupOptional(a 1.0)\nenvPrepend(PATH, ${PRODUCT_DIR}/bin)\n",
}
STREAMS = {"stream": "envSet(FROM_STREAM, 1)\n", "stream2": "envSet(FROM_STREAM, 2)\nenvSet(MORE, 1)\n",
           "streamopt": "declareOptions(flavor=generic)\nenvSet(FROM_STREAM, 3)\n"}
# external files: key -> (source file under <work>/src, destination relative to the extra directory)
EXTERN = {"x": ("extra.txt", "doc/extra.txt"), "x!": ("extra_changed.txt", "doc/extra.txt"),
          "y": ("notes.txt", "notes.txt"), "z": ("more.txt", "doc/more.txt")}
SITETAG = "beta"                     # defined in <stack>/ups_db/global.tags when the state says site_tags
LEGACY_VERSION_BLOCK = """
Group:
   FLAVOR = DarwinX86
   QUALIFIERS = ""
   DECLARER = someone
   DECLARED = 2019/01/01 00:00:00 UTC
   PROD_DIR = DarwinX86/%(p)s/%(v)s
   UPS_DIR = ups
   TABLE_FILE = %(p)s.table
End:
"""
LEGACY_CHAIN_BLOCK = """
#Group:
   FLAVOR = DarwinX86
   VERSION = %(v)s
   QUALIFIERS = ""
   DECLARER = someone
   DECLARED = 2019/01/01 00:00:00 UTC
#End:
"""
RECORD_RE = re.compile(r"^\w.*\.(version|chain)$")


# ------------------------------------------------------------------ what is observed

def is_cache_path(rel):
    """files that are caches / locks / scratch, not database records or product directories"""
    parts = rel.split(os.sep)
    base = parts[-1]
    if parts[0] == "tmp":
        return True                                        # TMPDIR of the run (stream table copies)
    if any(p.startswith(".lockDir") for p in parts) or base.endswith(".lock"):
        return True
    if ".pickleDB" in base or base.endswith(".tags"):
        return True                                        # product cache, tag-name caches (global.tags, user.tags)
    if "_caches_" in parts:
        # the user's cache area; user-tag chain files (<userdata>/_caches_/<stack>/<product>/<tag>.chain) are
        # tag assignments, i.e. records, everything else there is cache
        return not RECORD_RE.match(base)
    return False


def snapshot(work):
    """path -> sha256 for every record / product file, 'dir' for directories (cache directories excluded)"""
    out = {}
    for d, dirs, files in os.walk(work):
        dirs.sort()
        rel = os.path.relpath(d, work)
        parts = rel.split(os.sep)
        if parts[0] == "tmp" or any(p.startswith(".lockDir") for p in parts):
            dirs[:] = []
            continue
        if "_caches_" not in parts:
            out[rel + "/"] = "dir"
        for sub in dirs:                                   # os.walk does not go through a link to a directory
            if os.path.islink(os.path.join(d, sub)) and "_caches_" not in parts:
                out[os.path.normpath(os.path.join(rel, sub))] = "link:" + os.readlink(os.path.join(d, sub))
        for f in sorted(files):
            r = os.path.normpath(os.path.join(rel, f))
            if is_cache_path(r):
                continue
            try:
                if os.path.islink(os.path.join(d, f)):
                    out[r] = "link:" + os.readlink(os.path.join(d, f))
                    continue
                with open(os.path.join(d, f), "rb") as fd:
                    out[r] = hashlib.sha256(fd.read()).hexdigest()
            except OSError as e:
                out[r] = "unreadable:%s" % type(e).__name__
    return out


def snap_diff(a, b):
    return sorted(k for k in set(a) | set(b) if a.get(k) != b.get(k))


# ------------------------------------------------------------------ scratch stacks (run inside children)

def norm_state(state):
    st = dict(state)
    st.setdefault("flavor", "Linux64")
    st.setdefault("stacks", 1)
    decl = []
    for d in st.get("declared", []):
        if isinstance(d, (list, tuple)):
            d = {"p": d[0], "v": d[1], "tag": d[2]}
        d = dict(d)
        d.setdefault("tag", None)
        d.setdefault("s", 0)
        d.setdefault("dir", "own")
        d.setdefault("table", "own")
        d.setdefault("extern", [])
        decl.append(d)
    st["declared"] = decl
    return st


def layout(work, st):
    stacks = [os.path.join(work, "stack")] + ([os.path.join(work, "stack2")] if st["stacks"] > 1 else [])
    return {"stacks": stacks, "user": os.path.join(work, "user"), "flavor": st["flavor"], "work": work}


def product_dir(lay, kind, p, v, s=0):
    if kind == "own":
        return os.path.join(lay["stacks"][s], lay["flavor"], p, v)
    if kind == "shared":                                   # the directory of c at the same version
        return os.path.join(lay["stacks"][s], lay["flavor"], "c", v)
    if kind == "other":                                    # the directory of another version of the product
        return os.path.join(lay["stacks"][s], lay["flavor"], p, [x for x in VERSIONS if x != v][0])
    if kind == "alt":
        return os.path.join(lay["work"], "alt")
    if kind == "none":
        return "none"
    if kind == "devnull":
        return "/dev/null"
    if kind == "omit":
        return None
    raise ValueError(kind)


def set_environ(lay, env=None):
    for k in list(os.environ):
        if k.startswith("SETUP_") or k.endswith("_DIR") or (k.startswith("EUPS_") and not k.startswith("EUPS_VERIF")):
            del os.environ[k]
    os.environ["EUPS_PATH"] = ":".join(lay["stacks"])
    os.environ["EUPS_USERDATA"] = lay["user"]
    os.environ["EUPS_FLAVOR"] = lay["flavor"]
    os.environ["EUPS_SHELL"] = "sh"
    os.environ["TMPDIR"] = os.path.join(lay["work"], "tmp")
    import tempfile
    tempfile.tempdir = os.path.join(lay["work"], "tmp")
    for p, v in (env or {}).get("setup", []):
        os.environ["SETUP_" + p.upper()] = "%s %s -f %s -Z %s" % (p, v, lay["flavor"], lay["stacks"][0])
        os.environ[p.upper() + "_DIR"] = product_dir(lay, "own", p, v)


def new_eups(lay, noaction=False, force=False, quiet=1, verbose=0, readCache=True, flavor=None):
    import eups
    sys.modules["eups.db.Database"]._databases.clear()
    e = eups.Eups(noaction=noaction, force=force, quiet=quiet, verbose=verbose, readCache=readCache, flavor=flavor)
    e.selectVRO(None, None, None, None)
    return e


def open_stream(lay, kind, how="stringio"):
    if how == "file":
        return open(os.path.join(lay["work"], "src", kind + ".table"))
    import io
    return io.StringIO(STREAMS[kind])


def table_arg(lay, op):
    t = op.get("table", "own")
    if t in ("own", "omit"):
        return None
    if t == "none":
        return "none"
    if t in STREAMS:
        return open_stream(lay, t, op.get("stream", "stringio"))
    s = op.get("s") if isinstance(op.get("s"), int) else 0
    if t == "interned":                                    # the interned copy, by its absolute name
        return os.path.join(lay["stacks"][s], "ups_db", lay["flavor"], op["p"], op["v"], "ups", op["p"] + ".table")
    if t == "explicit":                                    # -m <path of the table file in the product directory>
        return os.path.join(product_dir(lay, "own", op["p"], op["v"], s), "ups", op["p"] + ".table")
    if t == "missing":
        return os.path.join(lay["work"], "src", "nosuch.table")
    if t == "isdir":
        return os.path.join(lay["work"], "src")
    raise ValueError(t)


def extern_arg(lay, op):
    return [(os.path.join(lay["work"], "src", EXTERN[k][0]), EXTERN[k][1]) for k in op.get("extern") or []]


def build_state(work, state):
    """creates the directories and declares the products of the state; returns the layout"""
    st = norm_state(state)
    lay = layout(work, st)
    os.makedirs(os.path.join(lay["user"], "ups_db"))
    os.makedirs(os.path.join(work, "tmp"))
    with open(os.path.join(lay["user"], "startup.py"), "w") as f:
        f.write("hooks.config.Eups.userTags += [%r]\n" % USERTAG)
    for stack in lay["stacks"]:
        os.makedirs(os.path.join(stack, "ups_db"))
        for p in PRODUCTS:
            for v in VERSIONS:
                d = os.path.join(stack, lay["flavor"], p, v)
                os.makedirs(os.path.join(d, "ups"))
                for q in (PRODUCTS if p == "c" else [p]):   # c's directories can be shared by a and b
                    with open(os.path.join(d, "ups", q + ".table"), "w") as f:
                        f.write(TABLE[q])
                with open(os.path.join(d, "payload.txt"), "w") as f:
                    f.write("%s %s\n" % (p, v))
    os.makedirs(os.path.join(work, "alt", "ups"))
    for q in PRODUCTS:
        with open(os.path.join(work, "alt", "ups", q + ".table"), "w") as f:
            f.write("envSet(ALT, 1)\n")
    os.makedirs(os.path.join(work, "odd", "x", "1.0", "ups"))   # the table file is not named after the directory
    with open(os.path.join(work, "odd", "x", "1.0", "ups", "a.table"), "w") as f:
        f.write("envSet(ODD, 1)\n")
    os.makedirs(os.path.join(work, "src"))
    for name, text in [("extra.txt", "extra file\n"), ("extra_changed.txt", "extra file, second edition\n"),
                       ("notes.txt", "notes\n"), ("more.txt", "more\n")] + \
                      [(k + ".table", v) for k, v in STREAMS.items()]:
        with open(os.path.join(work, "src", name), "w") as f:
            f.write(text)
    if st.get("site_tags"):                                # tags defined by the stack itself (ups_db/global.tags)
        with open(os.path.join(lay["stacks"][0], "ups_db", "global.tags"), "w") as f:
            f.write("current stable %s\n" % SITETAG)
    set_environ(lay)
    e, flavored = None, False
    for d in st["declared"]:
        if e is None or d.get("force") or d.get("flavor") or flavored:
            e = new_eups(lay, force=bool(d.get("force")), flavor=d.get("flavor"))
            flavored = bool(d.get("flavor"))
        kw = {}
        t = table_arg(lay, d)
        if t is not None:
            kw["tablefile"] = t
        if d["extern"]:
            kw["externalFileList"] = extern_arg(lay, d)
        if d["dir"] == "none" or d["s"]:
            kw["eupsPathDir"] = lay["stacks"][d["s"]]
        e.declare(d["p"], d["v"], product_dir(lay, d["dir"], d["p"], d["v"], d["s"]), tag=d["tag"], **kw)
        if hasattr(t, "close"):
            t.close()
    # tags that name a version which is not declared (version file lost, chain file still there)
    for p, v in st.get("stale", []):
        for stack in lay["stacks"]:
            f = os.path.join(stack, "ups_db", p, v + ".version")
            if os.path.exists(f):
                os.remove(f)
    # a chain file of a tag that the configuration does not define
    for p in st.get("alien", []):
        src = os.path.join(lay["stacks"][0], "ups_db", p, "current.chain")
        if os.path.exists(src):
            with open(src) as f:
                text = f.read()
            with open(os.path.join(lay["stacks"][0], "ups_db", p, "beta.chain"), "w") as f:
                f.write(text.replace("CHAIN = current", "CHAIN = beta"))
    # records as an older eups or an editor left them: comments, a block for a second flavor
    for p, v in st.get("legacy", []):
        pdb = os.path.join(lay["stacks"][0], "ups_db", p)
        for name in sorted(os.listdir(pdb)) if os.path.isdir(pdb) else []:
            f = os.path.join(pdb, name)
            with open(f) as fd:
                text = fd.read()
            if name == v + ".version":
                text = "# edited by hand\n" + text + LEGACY_VERSION_BLOCK % {"p": p, "v": v}
            elif name.endswith(".chain") and ("VERSION = %s\n" % v) in text:
                text = "# edited by hand\n" + text + LEGACY_CHAIN_BLOCK % {"v": v}
            else:
                continue
            with open(f, "w") as fd:
                fd.write(text)
    # a version file without PROD_DIR
    for p, v in st.get("no_prod_dir", []):
        f = os.path.join(lay["stacks"][0], "ups_db", p, v + ".version")
        with open(f) as fd:
            lines = fd.readlines()
        with open(f, "w") as fd:
            fd.writelines(l for l in lines if "PROD_DIR" not in l)
    # the table file a declaration names is gone
    for p, v in st.get("lost_table", []):
        f = os.path.join(product_dir(lay, "own", p, v), "ups", p + ".table")
        if os.path.exists(f):
            os.remove(f)
    if st.get("warm"):                                     # caches written by a reader after the last change
        new_eups(lay).findProducts()
    return lay


# ------------------------------------------------------------------ the request: python API / command line

def apply_api(e, op, lay):
    k = op["op"]
    if k == "seq":                                         # several requests to one Eups instance
        for sub in op["ops"]:
            try:
                apply_api(e, sub, lay)
            except Exception:  # noqa
                if not op.get("keep_going"):
                    raise
        return
    s = op.get("s")
    if isinstance(s, list):
        root = [lay["stacks"][i] for i in s]
    else:
        root = lay["user"] if s == "user" else (lay["stacks"][s] if s is not None else None)
    if k in ("declare", "declare_tag"):
        kw = {}
        if k == "declare":
            pdir = product_dir(lay, op.get("dir", "own"), op["p"], op["v"], s if isinstance(s, int) else 0)
            t = table_arg(lay, op)
            if t is not None:
                kw["tablefile"] = t
            if op.get("extern"):
                kw["externalFileList"] = extern_arg(lay, op)
        else:
            pdir = None
        if root:
            kw["eupsPathDir"] = root
        if op.get("deprecated"):                           # the old spelling of tag=current
            if op["deprecated"] == "bool":
                kw["tag"] = True
            else:
                kw["declareCurrent"] = True
        else:
            kw["tag"] = op.get("tag")
        e.declare("" if op.get("guess") else op["p"], op["v"], pdir, **kw)
    elif k == "undeclare":
        kw = {}
        if op.get("deprecated"):
            if op["deprecated"] == "bool":
                kw["tag"] = True
            else:
                kw["undeclareCurrent"] = True
        else:
            kw["tag"] = op.get("tag")
        e.undeclare(op["p"], op.get("v"), eupsPathDir=root, undeclareVersionAndTag=bool(op.get("both")), **kw)
    elif k == "untag":
        e.unassignTag(op["tag"], op["p"], op.get("v"), eupsPathDir=root)
    elif k == "remove":
        e.remove(op["p"], op["v"], recursive=bool(op.get("rec")), checkRecursive=bool(op.get("check")),
                 interactive=op.get("answers") is not None)
    else:
        raise ValueError(k)


def place(lay, text):
    """{stack} {stack2} {user} {alt} {src} {dir:p:v} {dir2:p:v} in a command-line word"""
    def sub(m):
        w = m.group(1).split(":")
        if w[0] == "stack":
            return lay["stacks"][0]
        if w[0] == "stack2":
            return lay["stacks"][-1]
        if w[0] in ("user", "work"):
            return lay[w[0]]
        if w[0] in ("alt", "src"):
            return os.path.join(lay["work"], w[0])
        if w[0] in ("dir", "dir2"):
            return product_dir(lay, "own", w[1], w[2], 0 if w[0] == "dir" else len(lay["stacks"]) - 1)
        raise ValueError(text)
    return re.sub(r"\{([^}]*)\}", sub, text)


def cli_argv(op, env, lay, noaction):
    """the eups command line of the request (None when the request has no command-line form)"""
    k = op["op"]
    if op.get("deprecated") or (op.get("s") is not None and (k != "declare" or not isinstance(op["s"], int))):
        return None
    if k == "seq":
        return None
    if k == "cli":                                         # a command line as typed; -n is all that is added
        return [place(lay, a) for a in op["argv"]] + (["-n"] if noaction else [])
    g = []
    if noaction:
        g.append("-n")
    if env.get("quiet"):
        g.append("-q")
    g += ["-v"] * int(env.get("verbose") or 0)
    if env.get("force"):
        g.append("-F")
    if env.get("nolocks"):
        g.append("--nolocks")
    if k in ("declare", "declare_tag"):
        a = ["declare"] + ([] if op.get("guess") else [op["p"]] + ([op["v"]] if op.get("v") else []))
        if k == "declare":
            pdir = product_dir(lay, op.get("dir", "own"), op["p"], op.get("v") or VERSIONS[0], op.get("s") or 0)
            if pdir is not None:
                a += ["-r", pdir]
            t = op.get("table", "own")
            if t in STREAMS:
                a += ["-M", "-" if op.get("stream") == "stdin" else os.path.join(lay["work"], "src", t + ".table")]
            elif t not in ("own", "omit"):
                a += ["-m", table_arg(lay, op)]
            for key in op.get("extern") or []:
                src, dst = EXTERN[key]
                src = os.path.join(lay["work"], "src", src)
                a += ["-L", src if dst == os.path.basename(src) else "%s:%s" % (src, dst)]
        if op.get("tag") == "current" and op.get("c_flag"):
            a.append("-c")
        elif op.get("tag"):
            a += ["-t", op["tag"]]
        return a + g
    if k == "undeclare":
        a = ["undeclare", op["p"]] + ([op["v"]] if op.get("v") else [])
        if op.get("tag"):
            a += ["-t", op["tag"]]
        if op.get("both"):
            a.append("-U")
        return a + g
    if k == "untag":                                       # eups remove -t TAG: the tag is removed everywhere
        return None
    if k == "remove_tag":
        return ["remove", "-t", op["tag"]] + ([op["p"]] if op.get("p") else []) + ([] if op.get("check") else ["-N"]) + g
    if k == "remove":
        a = ["remove", op["p"], op["v"]]
        if op.get("rec"):
            a.append("-R")
        if not op.get("check"):
            a.append("-N")
        if op.get("answers") is not None:
            a.append("-i")
        elif op.get("no_i"):
            a.append("--noInteractive")
        return a + g
    raise ValueError(k)


NOBODY = 65534


def world_accessible(path):
    """can another user reach path (every directory down to it has o+x)?"""
    p = os.path.abspath(path)
    while True:
        if not os.stat(p).st_mode & 0o001:
            return False
        q = os.path.dirname(p)
        if q == p:
            return True
        p = q


def become_nobody(lay, env):
    """the run is made by an ordinary user: the stacks belong to root (not writable), the user data directory, the
    temporary directory and the stacks listed under env[own] belong to the user"""
    if os.getuid() != 0:
        return
    mine = [lay["user"], os.path.join(lay["work"], "tmp")] + [lay["stacks"][i] for i in env.get("own", [])]
    for top in mine:
        for d, dirs, files in os.walk(top):
            os.chown(d, NOBODY, NOBODY)
            for f in files:
                os.chown(os.path.join(d, f), NOBODY, NOBODY)
    covdir = os.environ.get("EUPS_VERIF_COVERAGE")
    if covdir and os.path.isdir(covdir):
        os.chmod(covdir, 0o1777)
    os.setgroups([])
    os.setgid(NOBODY)
    os.setuid(NOBODY)


def phase(case, lay, noaction, spy):
    """grandchild: one run of the request; returns outcome, snapshots' differences, captured report, spied writes"""
    import io
    import tempfile
    import atexit
    env = case.get("env") or {}
    op = case["op"]
    work = lay["work"]
    atexit._clear()                                        # handlers inherited from the harness are not the command's
    set_environ(lay, env)
    if env.get("user") == "nobody":
        become_nobody(lay, env)
    before = snapshot(work)
    spied = []
    if spy:
        install_spy(work, spied)
    if op.get("answers") is not None:
        sys.stdin = io.StringIO("".join(a + "\n" for a in op["answers"]))
    elif op.get("stream") == "stdin":
        sys.stdin = io.StringIO(STREAMS[op["table"]])
    error = None
    cap = tempfile.TemporaryFile(dir=os.path.join(work, "tmp"))
    sys.stdout.flush()
    sys.stderr.flush()
    saved = os.dup(1), os.dup(2)
    os.dup2(cap.fileno(), 1)
    os.dup2(cap.fileno(), 2)
    try:
        try:
            if env.get("via") == "cli":
                import eups.cmd as C
                argv = cli_argv(op, env, lay, noaction)
                sys.modules["eups.db.Database"]._databases.clear()
                rc = C.EupsCmd(args=argv, toolname="eups").run()
                outcome = "ok" if not rc else "status:%s" % rc
            else:
                e = new_eups(lay, noaction=noaction, force=bool(env.get("force")), quiet=int(env.get("quiet", 1)),
                             verbose=int(env.get("verbose") or 0), readCache=not env.get("nocache"))
                apply_api(e, op, lay)
                outcome = "ok"
        except BaseException as ex:  # noqa
            outcome = "exc:" + type(ex).__name__
            error = str(ex)[:300]
    finally:
        sys.stdout.flush()
        sys.stderr.flush()
        os.dup2(saved[0], 1)
        os.dup2(saved[1], 2)
    at_return = snapshot(work)
    # what a process does when it ends normally: exit handlers (lock release, removal of the stream table copy)
    try:
        atexit._run_exitfuncs()
    except BaseException:  # noqa
        pass
    at_exit = snapshot(work)
    cap.seek(0)
    text = cap.read().decode("utf-8", "replace")
    diff = sorted(set(snap_diff(before, at_return)) | set(snap_diff(before, at_exit)))
    return {"unchanged": not diff, "diff": diff[:12], "outcome": outcome, "error": error, "spied": spied[:40],
            "report": [l for l in text.split("\n") if l.strip()][:6]}


def run_case(case):
    """child: build the state, then the dry run and the real run one after the other in forked grandchildren"""
    common.import_eups()
    work = common.scratch_dir("c15.")
    try:
        lay = build_state(work, case["state"])
        as_root = False
        if (case.get("env") or {}).get("user") == "nobody":
            os.chmod(work, 0o755)
            if os.getuid() != 0 or not world_accessible(work):
                case = dict(case, env=dict(case["env"], user=None))
                as_root = True
        dry = common.in_child(phase, case, lay, True, True, timeout=300)
        if dry[0] != "ok":
            raise RuntimeError("dry run child failed: %r" % (dry,))
        wet = None
        if dry[1]["unchanged"]:
            wet = common.in_child(phase, case, lay, False, True, timeout=300)
            if wet[0] != "ok":
                raise RuntimeError("real run child failed: %r" % (wet,))
            wet = wet[1]
        return {"dry": dry[1], "wet": wet, "as_root": as_root}
    finally:
        shutil.rmtree(work, ignore_errors=True)


# ------------------------------------------------------------------ spy on the low-level mutators

def install_spy(work, log):
    """record (method, line) of the innermost translated-method frame for every low-level change of a record or
    product directory under work"""
    import builtins
    import eups.utils as U
    methods = set(translate_guards.METHODS)

    def note(path):
        try:
            p = os.path.abspath(os.fspath(path))
        except Exception:  # noqa
            return
        if not p.startswith(work + os.sep) or is_cache_path(os.path.relpath(p, work)):
            return
        f = sys._getframe(2)
        while f is not None:
            fn = f.f_code.co_filename
            if fn.endswith(os.path.join("eups", "Eups.py")) and f.f_code.co_name in methods:
                log.append([f.f_code.co_name, f.f_lineno, os.path.relpath(p, work)])
                return
            f = f.f_back
        log.append([None, 0, os.path.relpath(p, work)])

    def wrap(mod, name, argidx=0):
        orig = getattr(mod, name)

        def w(*a, **k):
            if len(a) > argidx:
                note(a[argidx])
            return orig(*a, **k)
        setattr(mod, name, w)
    for n in ("mkdir", "makedirs", "remove", "unlink", "rmdir", "chmod", "truncate", "utime"):
        wrap(os, n)
    for n in ("rename", "replace", "symlink", "link"):
        wrap(os, n, 1)
    wrap(os, "rename", 0)
    wrap(shutil, "rmtree")
    wrap(shutil, "move", 1)
    wrap(U, "copyfile", 1)
    orig_open = builtins.open
    orig_os_open = os.open

    def open_w(file, mode="r", *a, **k):
        if isinstance(file, (str, bytes, os.PathLike)) and any(c in mode for c in "wax+"):
            note(file)
        return orig_open(file, mode, *a, **k)
    builtins.open = open_w

    def os_open_w(path, flags, *a, **k):
        if flags & (os.O_WRONLY | os.O_RDWR | os.O_CREAT | os.O_TRUNC | os.O_APPEND):
            note(path)
        return orig_os_open(path, flags, *a, **k)
    os.open = os_open_w


# ------------------------------------------------------------------ generators

def gen_state(rng):
    declared = []
    for p in PRODUCTS:
        vs = [v for v in VERSIONS if rng.random() < 0.55]
        cur = rng.choice(vs) if vs and rng.random() < 0.8 else None
        for v in vs:
            d = {"p": p, "v": v, "tag": "current" if v == cur else ("stable" if rng.random() < 0.2 else None)}
            r = rng.random()
            if r < 0.12:
                d["table"] = "stream"
            elif r < 0.22:
                d["extern"] = [rng.choice(["x", "y"])]
            elif r < 0.30 and p != "c":
                d["dir"] = "shared"
            elif r < 0.35:
                d["dir"], d["table"] = "none", "none"
            declared.append(d)
    st = {"declared": declared, "flavor": rng.choice(["Linux64", "Linux64", "generic"])}
    if rng.random() < 0.25:
        st["stacks"] = 2
        for p in PRODUCTS:
            if rng.random() < 0.5:
                st["declared"].append({"p": p, "v": rng.choice(VERSIONS), "s": 1,
                                       "tag": rng.choice([None, "current", "stable"])})
    tagged = [(d["p"], d["v"]) for d in declared if d["tag"]]
    if tagged and rng.random() < 0.15:
        st["stale"] = [list(rng.choice(tagged))]
    if rng.random() < 0.3:
        st["warm"] = True
    r = rng.random()
    if r < 0.10 and declared:
        d = rng.choice(declared)
        if d.get("dir", "own") == "own" and d.get("table", "own") == "own":
            st["legacy"] = [[d["p"], d["v"]]]
    elif r < 0.18:
        cur = [d["p"] for d in declared if d["tag"] == "current"]
        if cur:
            st["alien"] = [rng.choice(cur)]
    elif r < 0.26:
        st["site_tags"] = True
    return st


def gen_env(rng, st=None):
    env = {"via": rng.choice(["api", "cli"]), "quiet": int(rng.random() < 0.4),
           "verbose": rng.choice([0, 0, 1, 2, 3]), "force": rng.random() < 0.35, "nolocks": rng.random() < 0.5}
    r = rng.random()
    if r < 0.10:                                           # an ordinary user; the second stack may be the user's own
        env["user"], env["nolocks"] = "nobody", True
        if st and st.get("stacks", 1) > 1 and rng.random() < 0.6:
            env["own"] = [1]
    elif r < 0.18:
        env["via"], env["nocache"] = "api", True
    elif r < 0.26 and st and st.get("declared"):
        d = rng.choice(st["declared"])
        if d.get("s", 0) == 0 and d.get("dir", "own") == "own":
            env["setup"] = [[d["p"], d["v"]]]
    return env


def gen_op(rng, state):
    st = norm_state(state)
    decl = [(d["p"], d["v"]) for d in st["declared"]]
    undecl = [(p, v) for p in PRODUCTS for v in VERSIONS if (p, v) not in decl]
    tags = TAGS + [USERTAG]
    r = rng.random()
    if r < 0.25:
        p, v = rng.choice(undecl or decl)
        return {"op": "declare", "p": p, "v": v, "tag": rng.choice([None, None, "current", "stable", USERTAG]),
                "dir": rng.choice(["own", "own", "own", "alt", "shared" if p != "c" else "own"]),
                "table": rng.choice(["own", "own", "stream", "stream2"]),
                "stream": rng.choice(["stringio", "file"]),
                "extern": rng.choice([[], [], ["x"], ["x", "y"], ["y", "z"]])}
    if r < 0.42 and decl:
        p, v = rng.choice(decl)
        return {"op": "declare", "p": p, "v": v, "dir": rng.choice(["own", "own", "alt", "other"]),
                "tag": rng.choice([None, "current", "stable"]),
                "table": rng.choice(["own", "own", "stream", "stream2", "interned", "explicit"]),
                "extern": rng.choice([[], [], ["x"], ["x!"], ["x", "z"], ["y"]])}
    if r < 0.52 and decl:
        p, v = rng.choice(decl)
        return {"op": "declare_tag", "p": p, "v": v, "tag": rng.choice(tags)}
    if r < 0.70 and decl:
        p, v = rng.choice(decl)
        return {"op": "undeclare", "p": p, "v": rng.choice([v, v, None]),
                "tag": rng.choice([None, None, "current", "stable"]), "both": rng.random() < 0.3}
    if r < 0.80 and decl:
        p, v = rng.choice(decl)
        return {"op": "untag", "p": p, "v": rng.choice([v, None]), "tag": rng.choice(TAGS)}
    if r < 0.85 and decl:
        return {"op": "remove_tag", "tag": rng.choice(TAGS), "p": rng.choice([None, None, rng.choice(decl)[0]])}
    p, v = rng.choice(decl or undecl)
    op = {"op": "remove", "p": p, "v": v, "rec": rng.random() < 0.6, "check": rng.random() < 0.4}
    if rng.random() < 0.2:
        op["answers"] = rng.choice([["y", "y", "y"], ["n", "y", "y"], ["y", "q"], ["!"], ["?", "y", "n", "y"]])
    return op


def random_case(rng):
    st = gen_state(rng)
    op = gen_op(rng, st)
    env = gen_env(rng, st)
    if env["via"] == "cli" and cli_argv(op, env, layout("/w", norm_state(st)), True) is None:
        env["via"] = "api"
    if env["via"] == "api" and op["op"] == "remove_tag":
        env["via"] = "cli"
        env.pop("nocache", None)
    return {"state": st, "op": op, "env": env}


def D(p, v, tag=None, **kw):
    return dict({"p": p, "v": v, "tag": tag}, **kw)


def directed_cases():
    """the input classes of the property's quantifier, each in the forms the command line allows; every entry is
    (family, state, op, list of option sets)"""
    API, CLI = {"via": "api"}, {"via": "cli"}
    F = {"force": True}
    both = [dict(API, quiet=1), dict(CLI)]
    both_f = [dict(API, quiet=1), dict(CLI), dict(API, quiet=0, **F), dict(CLI, **F)]
    loud = [dict(API, quiet=0, verbose=2), dict(CLI, verbose=1), dict(CLI, verbose=3, nolocks=True),
            dict(CLI, quiet=1)]
    base = [D("a", "1.0", "current"), D("a", "2.0", "stable"), D("b", "1.0", "current"), D("c", "1.0", "current")]
    interned = [D("a", "1.0", "current", table="stream", extern=["x"]), D("a", "2.0"), D("b", "1.0", "current")]
    out = []

    def add(family, declared, op, envs, **st):
        out.append((family, dict({"declared": declared}, **st), op, envs))

    # -- new declarations
    add("declare/first-of-product", [], {"op": "declare", "p": "a", "v": "1.0"}, both + loud)
    add("declare/first-of-product", [D("b", "1.0", "current")], {"op": "declare", "p": "a", "v": "2.0", "tag": "stable"},
        both)
    add("declare/new-version", base, {"op": "declare", "p": "a", "v": "3.0"}, both_f)
    for tag in ("current", "stable", USERTAG):
        add("declare/new-version-with-tag", base, {"op": "declare", "p": "a", "v": "3.0", "tag": tag}, both)
    add("declare/new-version-with-tag", base, {"op": "declare", "p": "a", "v": "3.0", "tag": "current", "c_flag": True},
        [CLI])
    add("declare/deprecated-current", base, {"op": "declare", "p": "a", "v": "3.0", "deprecated": "flag"}, [API])
    add("declare/deprecated-current", base, {"op": "declare", "p": "a", "v": "3.0", "deprecated": "bool"}, [API])
    for kind, how in (("stream", "stringio"), ("stream", "file"), ("stream2", "stdin"), ("streamopt", "file")):
        add("declare/new-stream-table", base, {"op": "declare", "p": "a", "v": "3.0", "table": kind, "stream": how,
                                               "tag": "current"},
            [CLI] if how == "stdin" else both)
    for ext in (["x"], ["y"], ["x", "y", "z"]):
        add("declare/new-external-files", base, {"op": "declare", "p": "b", "v": "2.0", "extern": ext}, both)
    add("declare/new-external-files", base, {"op": "declare", "p": "b", "v": "2.0", "extern": ["x"], "table": "stream",
                                             "tag": "stable"}, both_f)
    add("declare/new-no-directory", base, {"op": "declare", "p": "a", "v": "3.0", "dir": "none", "table": "none"}, both)
    add("declare/new-no-directory", base, {"op": "declare", "p": "a", "v": "3.0", "dir": "none", "table": "stream"},
        both)
    add("declare/new-no-table", base, {"op": "declare", "p": "a", "v": "3.0", "table": "none"}, both)
    add("declare/new-explicit-table", base, {"op": "declare", "p": "a", "v": "3.0", "table": "explicit"}, both)
    add("declare/new-outside-stack", base, {"op": "declare", "p": "a", "v": "3.0", "dir": "alt"}, both)
    add("declare/new-directory-guessed", base, {"op": "declare", "p": "a", "v": "3.0", "dir": "omit"}, both)
    add("declare/new-shared-directory", base, {"op": "declare", "p": "b", "v": "2.0", "dir": "shared"}, both)
    add("declare/tag-as-version", base, {"op": "declare", "p": "a", "v": None, "dir": "alt", "tag": USERTAG}, [CLI])
    add("declare/tag-as-version", base, {"op": "declare", "p": "a", "v": "tag:" + USERTAG, "dir": "alt",
                                         "tag": USERTAG}, [API])
    add("declare/tag-as-version-again", base + [D("a", "tag:" + USERTAG, USERTAG, dir="alt")],
        {"op": "declare", "p": "a", "v": "tag:" + USERTAG, "dir": "other", "s": "user", "tag": USERTAG},
        [API, dict(API, **F)])
    add("declare/bad-arguments", base, {"op": "declare", "p": "a-b", "v": "1.0"}, [API])
    add("declare/bad-arguments", base, {"op": "declare", "p": "a", "v": "9.9", "dir": "omit"}, both)
    add("declare/bad-arguments", base, {"op": "declare", "p": "a", "v": "9.9", "dir": "own"}, both)
    add("declare/new-interned-table-name", base, {"op": "declare", "p": "a", "v": "3.0", "table": "interned"}, both)
    add("declare/bad-arguments", base, {"op": "declare", "p": "a", "v": "3.0", "table": "missing"}, both)
    add("declare/bad-arguments", base, {"op": "declare", "p": "a", "v": "3.0", "table": "isdir"}, both)
    add("declare/bad-arguments", base, {"op": "declare", "p": "a", "v": "3.0", "dir": "devnull"}, both)
    add("declare/new-directory-guessed", base, {"op": "declare", "p": "a", "v": "3.0", "dir": "devnull",
                                                "tag": "stable"}, both)
    add("declare/new-no-directory", base, {"op": "declare", "p": "a", "v": "3.0", "dir": "none", "table": "explicit"},
        both)
    add("declare/product-name-guessed", base, {"op": "declare", "p": "a", "v": "3.0", "guess": True}, both)
    add("declare/product-name-guessed", base, {"op": "declare", "p": "a", "v": "3.0", "guess": True, "dir": "alt"},
        both)
    # -- the command line as typed: argument errors, other spellings, path and flavor options
    for argv in (["declare"], ["declare", "a"], ["declare", "-m", "none"], ["declare", "-M", "{src}/stream.table"],
                 ["declare", "-r", "none"], ["declare", "-r", "{src}"], ["declare", "-r", "{dir:a:3.0}", "-t", "stable"],
                 ["declare", "-r", "{alt}", "-t", "stable"], ["declare", "-r", "{alt}"],
                 ["declare", "a", "3.0", "-r", "{dir:a:3.0}", "-t", "current", "-t", "stable"],
                 ["declare", "a", "3.0", "-r", "{dir:a:3.0}", "-m", "a.table", "-M", "{src}/stream.table"],
                 ["declare", "a", "3.0", "-r", "{dir:a:3.0}", "-M", "{src}/nosuch.table"],
                 ["declare", "a", "3.0", "-r", "{dir:a:3.0}", "-L", "-"],
                 ["declare", "a", "3.0", "-r", "{dir:a:3.0}", "-L", "{src}/nosuch.txt"],
                 ["declare", "a", "3.0", "-r", "{dir:a:3.0}", "-L", "{src}/extra.txt:renamed.txt"],
                 ["declare", "a", "3.0", "-r", "{dir:a:3.0}", "-L", "{src}/extra.txt:doc/renamed.txt:junk"],
                 ["declare", "a", "3.0", "-r", "{dir:a:3.0}", "-L", "{src}/extra.txt", "-L", "{src}/notes.txt:doc/"],
                 ["declare", "a", "3.0", "-r", "{dir:a:3.0}", "-f", "DarwinX86"],
                 ["declare", "a", "1.0", "-r", "{dir:a:1.0}", "-f", "DarwinX86", "-t", "stable"],
                 ["declare", "a", "3.0", "-r", "{dir:a:3.0}", "-Z", "{stack}"],
                 ["declare", "a", "3.0", "-r", "{dir:a:3.0}", "-z", "stack"],
                 ["declare", "a", "3.0", "-r", "{dir:a:3.0}", "--nolocks", "-T", "build"],
                 ["declare", "a", "3.0", "-r", "{dir:a:3.0}", "--vro", "current"],
                 ["declare", "-r", "{work}/odd/x/1.0"], ["declare", "-r", "{work}/odd/x/1.0", "-t", "stable"],
                 ["declare", "-r", "{work}/odd/x/1.0", "7.0"],
                 ["declare", "a", "3.0", "-r", "{dir:a:3.0}", "-Z", "/nonexistent"],
                 ["undeclare", "a", "1.0", "-Z", "/nonexistent"], ["remove", "a", "2.0", "-Z", "/nonexistent"],
                 ["undeclare"], ["undeclare", "a", "-U"], ["undeclare", "a", "1.0", "-c"],
                 ["undeclare", "a", "-t", "latest"], ["undeclare", "a", "-t", "latest", "-F"],
                 ["undeclare", "a", "-t", "nosuchtag"], ["undeclare", "a", "1.0", "-f", "DarwinX86"],
                 ["undeclare", "a", "1.0", "-Z", "{stack}"],
                 ["remove"], ["remove", "a"], ["remove", "a", "2.0", "--noInteractive", "-N"],
                 ["remove", "a", "2.0", "-f", "DarwinX86"], ["remove", "-t", "current", "-v"],
                 ["remove", "implicitProducts", "1.0", "-N"]):
        add("cli/%s-as-typed" % argv[0], base, {"op": "cli", "argv": argv}, [CLI])
    two0 = base + [D("a", "1.0", None, s=1), D("a", "3.0", "stable", s=1)]
    for argv in (["declare", "b", "2.0", "-r", "{dir2:b:2.0}", "-Z", "{stack2}"],
                 ["declare", "b", "2.0", "-r", "{dir:b:2.0}", "-Z", "{stack2}", "-t", "stable"],
                 ["declare", "a", "3.0", "-t", "current", "-z", "stack2"],
                 ["undeclare", "a", "1.0", "-Z", "{stack2}"], ["undeclare", "a", "-t", "stable", "-z", "stack2"],
                 ["remove", "a", "1.0", "-Z", "{stack2}:{stack}", "-N"], ["remove", "-t", "stable", "-Z", "{stack2}"]):
        add("cli/%s-as-typed" % argv[0], two0, {"op": "cli", "argv": argv}, [CLI], stacks=2)
    # -- redeclarations
    add("redeclare/lost-table-file", base, {"op": "declare", "p": "a", "v": "1.0", "dir": "alt"}, both_f,
        lost_table=[["a", "1.0"]])
    add("redeclare/lost-table-file", base, {"op": "declare", "p": "a", "v": "1.0", "dir": "alt", "tag": "stable"}, both,
        lost_table=[["a", "1.0"]])
    add("redeclare/identical", base, {"op": "declare", "p": "a", "v": "1.0"}, both_f)
    add("redeclare/identical-with-tag", base, {"op": "declare", "p": "a", "v": "1.0", "tag": "stable"}, both_f)
    add("redeclare/identical-with-tag", base, {"op": "declare", "p": "a", "v": "1.0", "tag": "current"}, both)
    for d in ("alt", "other"):
        add("redeclare/other-directory", base, {"op": "declare", "p": "a", "v": "1.0", "dir": d}, both_f)
        add("redeclare/other-directory-with-tag", base, {"op": "declare", "p": "a", "v": "1.0", "dir": d,
                                                         "tag": "stable"}, both_f + loud)
    add("redeclare/other-table", base, {"op": "declare", "p": "a", "v": "1.0", "table": "none"}, both_f)
    for t in ("stream", "stream2"):
        add("redeclare/stream-table-over-plain", base, {"op": "declare", "p": "a", "v": "1.0", "table": t}, both_f)
        add("redeclare/stream-table-over-interned", interned, {"op": "declare", "p": "a", "v": "1.0", "table": t,
                                                               "extern": ["x"]}, both_f)
        add("redeclare/stream-table-drops-external", interned, {"op": "declare", "p": "a", "v": "1.0", "table": t},
            both_f)
    add("redeclare/stream-table-over-interned", interned, {"op": "declare", "p": "a", "v": "1.0", "table": "stream2",
                                                           "tag": "stable", "extern": ["x!"]}, both_f)
    for ext in (["x"], ["x!"], ["x", "z"], ["y"], []):
        add("redeclare/external-files-again", interned, {"op": "declare", "p": "a", "v": "1.0", "table": "interned",
                                                         "extern": ext}, both_f)
        add("redeclare/plain-table-over-interned", interned, {"op": "declare", "p": "a", "v": "1.0", "extern": ext,
                                                              "tag": "stable"}, both_f)
    add("redeclare/external-files-again", [D("b", "1.0", "current", extern=["x"])],
        {"op": "declare", "p": "b", "v": "1.0", "extern": ["x!", "z"], "tag": "current"}, both_f)
    add("redeclare/plain-table-over-interned", interned, {"op": "declare", "p": "a", "v": "1.0"}, both_f)
    # -- tag moves
    for tag in TAGS + [USERTAG]:
        add("tag/assign-to-declared", base, {"op": "declare_tag", "p": "a", "v": "2.0", "tag": tag}, both + loud[:2])
    add("tag/assign-to-declared", base, {"op": "declare_tag", "p": "a", "v": "1.0", "tag": "current"}, both)
    add("tag/assign-to-declared", base + [D("a", "3.0", dir="none", table="none")],
        {"op": "declare_tag", "p": "a", "v": "3.0", "tag": "stable"}, both)
    add("tag/assign-to-declared", base, {"op": "declare_tag", "p": "a", "v": "2.0", "tag": "current"}, both_f,
        no_prod_dir=[["a", "2.0"]])
    add("tag/assign-site-tag", base + [D("b", "2.0", SITETAG)], {"op": "declare_tag", "p": "a", "v": "2.0",
                                                                  "tag": SITETAG}, both, site_tags=True)
    add("tag/assign-site-tag", base + [D("b", "2.0", SITETAG)], {"op": "undeclare", "p": "b", "v": None,
                                                                  "tag": SITETAG}, both, site_tags=True)
    add("tag/assign-site-tag", base + [D("b", "2.0", SITETAG)], {"op": "remove_tag", "tag": SITETAG}, [CLI],
        site_tags=True)
    add("tag/assign-to-undeclared", base, {"op": "declare_tag", "p": "a", "v": "3.0", "tag": "current"}, both)
    add("tag/assign-unknown-tag", base, {"op": "declare_tag", "p": "a", "v": "2.0", "tag": "nosuchtag"}, both)
    add("tag/assign-reserved-tag", base, {"op": "declare_tag", "p": "a", "v": "2.0", "tag": "latest"}, both_f)
    # -- undeclare
    add("undeclare/version", base, {"op": "undeclare", "p": "a", "v": "1.0"}, both_f + loud)
    add("undeclare/version", base, {"op": "undeclare", "p": "a", "v": "2.0"}, both)
    add("undeclare/only-version", base, {"op": "undeclare", "p": "b", "v": None}, both)
    add("undeclare/ambiguous", base, {"op": "undeclare", "p": "a", "v": None}, both)
    add("undeclare/not-declared", base, {"op": "undeclare", "p": "a", "v": "3.0"}, both)
    add("undeclare/not-declared", base, {"op": "undeclare", "p": "nosuch", "v": None}, both)
    add("undeclare/interned", interned, {"op": "undeclare", "p": "a", "v": "1.0"}, both)
    add("undeclare/setup-product", base, {"op": "undeclare", "p": "a", "v": "1.0"},
        [dict(e, setup=[["a", "1.0"]]) for e in both_f])
    for v in ("1.0", None):
        add("undeclare/tag-only", base, {"op": "undeclare", "p": "a", "v": v, "tag": "current"}, both + loud[:2])
        add("undeclare/tag-and-version", base, {"op": "undeclare", "p": "a", "v": v, "tag": "current", "both": True},
            both)
    add("undeclare/tag-not-assigned", base, {"op": "undeclare", "p": "a", "v": "1.0", "tag": "stable"},
        both + [dict(API, quiet=0)])
    add("undeclare/tag-not-assigned", base, {"op": "undeclare", "p": "c", "v": None, "tag": "stable"},
        both + [dict(API, quiet=0)])
    add("undeclare/deprecated-current", base, {"op": "undeclare", "p": "a", "v": "1.0", "deprecated": "flag"}, [API])
    add("undeclare/deprecated-current", base, {"op": "undeclare", "p": "a", "v": None, "deprecated": "bool"}, [API])
    add("undeclare/tag-as-version", base + [D("a", "tag:" + USERTAG, USERTAG, dir="alt")],
        {"op": "undeclare", "p": "a", "v": None, "tag": USERTAG}, both)
    add("undeclare/user-tag", base + [D("a", "2.0", USERTAG, dir="omit", table="omit")],
        {"op": "undeclare", "p": "a", "v": "2.0", "tag": USERTAG}, both)
    # -- tag removal
    for v in ("1.0", None):
        add("untag/assigned", base, {"op": "untag", "p": "a", "v": v, "tag": "current"},
            [dict(API, quiet=1), dict(API, quiet=0, verbose=1)])
    add("untag/assigned-in-named-stack", base, {"op": "untag", "p": "a", "v": None, "tag": "current", "s": 0}, [API])
    add("untag/not-assigned", base, {"op": "untag", "p": "a", "v": "2.0", "tag": "current"},
        [dict(API, quiet=1), dict(API, quiet=0)])
    add("untag/not-assigned", base, {"op": "untag", "p": "c", "v": None, "tag": "stable"},
        [dict(API, quiet=1), dict(API, quiet=0)])
    add("untag/not-assigned", base, {"op": "untag", "p": "c", "v": None, "tag": "stable", "s": [0]},
        [dict(API, quiet=0)])
    add("untag/assigned-in-named-stack", base, {"op": "untag", "p": "a", "v": None, "tag": "current", "s": [0]}, [API])
    add("untag/not-declared", base, {"op": "untag", "p": "nosuch", "v": None, "tag": "current"}, [API])
    add("untag/not-declared", base, {"op": "untag", "p": "a", "v": "3.0", "tag": "current"}, [API])
    add("untag/user-tag", base + [D("a", "tag:" + USERTAG, USERTAG, dir="alt")],
        {"op": "untag", "p": "a", "v": None, "tag": USERTAG}, [API])
    add("untag/everywhere", base, {"op": "remove_tag", "tag": "current"}, [CLI, dict(CLI, verbose=1)])
    add("untag/everywhere", base, {"op": "remove_tag", "tag": "stable"}, [CLI])
    add("untag/everywhere", base, {"op": "remove_tag", "tag": "latest"}, [CLI, dict(CLI, **F)])
    add("untag/everywhere", base, {"op": "remove_tag", "tag": "nosuchtag"}, [CLI])
    add("remove/version-of-tag", base, {"op": "remove_tag", "tag": "stable", "p": "a"}, [CLI, dict(CLI, **F)])
    add("remove/version-of-tag", base, {"op": "remove_tag", "tag": "current", "p": "a", "check": True}, [CLI, dict(CLI, **F)])
    add("remove/version-of-tag", base, {"op": "remove_tag", "tag": "stable", "p": "b"}, [CLI])
    # -- remove
    add("remove/single", base, {"op": "remove", "p": "a", "v": "2.0"}, both_f + loud)
    add("remove/single-in-use", base, {"op": "remove", "p": "a", "v": "1.0", "check": True}, both_f)
    add("remove/not-declared", base, {"op": "remove", "p": "a", "v": "3.0"}, both)
    add("remove/default-product", base, {"op": "remove", "p": "implicitProducts", "v": "1.0"}, [API])
    add("remove/no-directory", base + [D("a", "3.0", dir="none", table="none")],
        {"op": "remove", "p": "a", "v": "3.0"}, both)
    add("remove/interned", interned, {"op": "remove", "p": "a", "v": "1.0"}, both)
    add("remove/setup-product", base, {"op": "remove", "p": "a", "v": "2.0"},
        [dict(e, setup=[["a", "2.0"]]) for e in both_f])
    for chk in (False, True):
        add("remove/recursive", base, {"op": "remove", "p": "c", "v": "1.0", "rec": True, "check": chk, "no_i": True},
            both_f + [dict(CLI, verbose=1)])
        add("remove/recursive", base + [D("c", "2.0")],
            {"op": "remove", "p": "c", "v": "1.0", "rec": True, "check": chk}, both_f)
    shared = [D("c", "1.0", "current"), D("b", "1.0", "current", dir="shared"), D("a", "1.0", "current", dir="shared")]
    add("remove/recursive-shared-directory", shared, {"op": "remove", "p": "c", "v": "1.0", "rec": True}, both_f)
    add("remove/recursive-shared-directory", shared[:2] + [D("a", "1.0", "current")],
        {"op": "remove", "p": "c", "v": "1.0", "rec": True, "check": True}, both)
    for ans in (["y", "y", "y"], ["n", "y", "n"], ["y", "q"], ["!"], ["?", "", "n", "y"], []):
        add("remove/interactive", base, {"op": "remove", "p": "c", "v": "1.0", "rec": True, "answers": ans}, both)
    # -- database states
    stale = dict(stale=[["a", "2.0"]])
    for op in ({"op": "undeclare", "p": "a", "v": "1.0"}, {"op": "remove", "p": "a", "v": "1.0"},
               {"op": "undeclare", "p": "a", "v": None, "tag": "stable"},
               {"op": "untag", "p": "a", "v": None, "tag": "stable"},
               {"op": "declare_tag", "p": "a", "v": "1.0", "tag": "stable"},
               {"op": "declare", "p": "a", "v": "2.0"},
               {"op": "remove", "p": "c", "v": "1.0", "rec": True}):
        add("state/tag-of-lost-version", base, op, [API] if op["op"] == "untag" else both, **stale)
    for op in ({"op": "declare", "p": "a", "v": "3.0", "tag": "current"}, {"op": "undeclare", "p": "a", "v": "1.0"},
               {"op": "remove_tag", "tag": "current"}):
        add("state/tag-unknown-to-configuration", base, op, [dict(CLI), dict(CLI, verbose=1)] if
            op["op"] == "remove_tag" else both, alien=["a"])
    legacy = dict(legacy=[["a", "1.0"], ["b", "1.0"]])
    for op in ({"op": "undeclare", "p": "a", "v": "1.0"}, {"op": "undeclare", "p": "a", "v": None, "tag": "current"},
               {"op": "untag", "p": "a", "v": "1.0", "tag": "current"},
               {"op": "declare_tag", "p": "a", "v": "2.0", "tag": "current"},
               {"op": "declare", "p": "a", "v": "1.0", "dir": "alt"},
               {"op": "remove", "p": "c", "v": "1.0", "rec": True},
               {"op": "cli", "argv": ["undeclare", "a", "1.0", "-f", "DarwinX86"]},
               {"op": "cli", "argv": ["declare", "a", "1.0", "-t", "stable", "-f", "DarwinX86"]}):
        envs = [CLI] if op["op"] == "cli" else ([API] if op["op"] == "untag" else
                                                (both_f if op["op"] == "declare" else both))
        add("state/records-with-second-flavor", base, op, envs, **legacy)
    # -- a product declared for the fallback flavor (generic) while the commands run as Linux64
    fb = base + [D("a", "3.0", "stable", flavor="generic"), D("b", "2.0", None, flavor="generic")]
    for op in ({"op": "undeclare", "p": "a", "v": "3.0"}, {"op": "undeclare", "p": "a", "v": None, "tag": "stable"},
               {"op": "untag", "p": "a", "v": "3.0", "tag": "stable"},
               {"op": "declare_tag", "p": "b", "v": "2.0", "tag": "current"},
               {"op": "declare", "p": "a", "v": "3.0", "tag": "current"},
               {"op": "declare", "p": "a", "v": "3.0", "dir": "alt"},
               {"op": "remove", "p": "b", "v": "2.0", "rec": True},
               {"op": "cli", "argv": ["undeclare", "a", "3.0", "-f", "generic"]},
               {"op": "cli", "argv": ["remove", "b", "2.0", "-f", "generic", "-N"]}):
        envs = [CLI] if op["op"] == "cli" else ([API] if op["op"] == "untag" else
                                                (both_f if op["op"] == "declare" else both))
        add("state/declared-for-fallback-flavor", fb, op, envs)
    # -- several requests to one Eups instance (python API)
    for ops in ([{"op": "declare", "p": "a", "v": "3.0", "table": "streamopt", "tag": "current"},
                 {"op": "undeclare", "p": "a", "v": "1.0"}, {"op": "remove", "p": "c", "v": "1.0", "rec": True}],
                [{"op": "untag", "p": "a", "v": None, "tag": "current"}, {"op": "undeclare", "p": "a", "v": "1.0"},
                 {"op": "declare", "p": "a", "v": "1.0", "dir": "alt"}, {"op": "remove", "p": "a", "v": "2.0"}],
                [{"op": "declare", "p": "b", "v": "2.0", "extern": ["x"], "table": "stream"},
                 {"op": "declare", "p": "b", "v": "2.0", "extern": ["x!"], "table": "stream2", "tag": "stable"},
                 {"op": "undeclare", "p": "b", "v": "2.0"}]):
        add("sequence/one-instance", base, {"op": "seq", "ops": ops, "keep_going": True},
            [dict(API, quiet=0), dict(API, quiet=0, verbose=1, **F)])
    # -- an ordinary user on stacks that belong to somebody else
    nob = dict(user="nobody")
    ro = [dict(API, quiet=0, **nob), dict(CLI, nolocks=True, **nob)]     # (the lock directory cannot be made either)
    for op in ({"op": "declare", "p": "a", "v": "3.0"}, {"op": "declare", "p": "a", "v": "3.0", "s": 0},
               {"op": "declare", "p": "a", "v": "3.0", "tag": USERTAG},
               {"op": "declare", "p": "a", "v": "3.0", "table": "stream", "extern": ["x"]},
               {"op": "declare_tag", "p": "a", "v": "2.0", "tag": "current"},
               {"op": "declare_tag", "p": "a", "v": "2.0", "tag": USERTAG},
               {"op": "undeclare", "p": "a", "v": "1.0"}, {"op": "undeclare", "p": "a", "v": None, "tag": "current"},
               {"op": "untag", "p": "a", "v": None, "tag": "current"},
               {"op": "remove", "p": "c", "v": "1.0", "rec": True}, {"op": "remove_tag", "tag": "current"}):
        envs = [ro[1]] if op["op"] == "remove_tag" else ([ro[0]] if op["op"] == "untag" or op.get("s") is not None
                                                         else ro[:2])
        add("state/stack-not-writable", base, op, envs)
    two1 = base + [D("a", "1.0", None, s=1), D("b", "2.0", "stable", s=1)]
    for op in ({"op": "declare", "p": "a", "v": "3.0"}, {"op": "declare", "p": "a", "v": "3.0", "tag": "stable"},
               {"op": "declare", "p": "a", "v": "3.0", "table": "stream2", "extern": ["y"]},
               {"op": "declare_tag", "p": "a", "v": "2.0", "tag": "current"},
               {"op": "declare_tag", "p": "b", "v": "1.0", "tag": "stable"},
               {"op": "declare", "p": "c", "v": "3.0", "s": 1},
               {"op": "undeclare", "p": "b", "v": "2.0"}, {"op": "undeclare", "p": "a", "v": "1.0"},
               {"op": "remove", "p": "b", "v": "2.0", "rec": True}):
        add("state/first-stack-not-writable", two1, op, [dict(e, own=[1]) for e in ro[:2]], stacks=2)
    # -- no product cache (python API only)
    for op in ({"op": "declare", "p": "a", "v": "3.0", "tag": "current"},
               {"op": "declare_tag", "p": "a", "v": "2.0", "tag": "current"}, {"op": "undeclare", "p": "a", "v": "1.0"},
               {"op": "undeclare", "p": "a", "v": None, "tag": "current"},
               {"op": "untag", "p": "a", "v": None, "tag": "current"},
               {"op": "remove", "p": "c", "v": "1.0", "rec": True, "check": True}):
        add("state/no-product-cache", base, op, [dict(API, nocache=True), dict(API, nocache=True, **F)])
    two = base + [D("a", "1.0", None, s=1), D("a", "3.0", "stable", s=1), D("b", "2.0", "stable", s=1)]
    for op in ({"op": "declare_tag", "p": "a", "v": "1.0", "tag": "stable"},
               {"op": "declare_tag", "p": "a", "v": "3.0", "tag": "current"},
               {"op": "declare", "p": "c", "v": "2.0", "s": 1, "tag": "current"},
               {"op": "declare", "p": "a", "v": "2.0", "s": 1, "dir": "own"},
               {"op": "undeclare", "p": "a", "v": "1.0"}, {"op": "undeclare", "p": "a", "v": "3.0"},
               {"op": "undeclare", "p": "a", "v": "1.0", "s": 1},
               {"op": "undeclare", "p": "a", "v": None, "tag": "stable"},
               {"op": "untag", "p": "a", "v": None, "tag": "stable", "s": 1},
               {"op": "untag", "p": "b", "v": "2.0", "tag": "stable"},
               {"op": "remove", "p": "a", "v": "3.0"}, {"op": "remove", "p": "b", "v": "2.0", "rec": True},
               {"op": "remove_tag", "tag": "stable"}):
        envs = [CLI] if op["op"] == "remove_tag" else ([API] if op["op"] == "untag" or
                                                       (op.get("s") is not None and op["op"] != "declare") else both)
        add("state/two-stacks", two, op, envs, stacks=2)
    for fl, warm in (("generic", True), ("generic", False), ("Linux64", True)):
        for op in ({"op": "declare", "p": "a", "v": "3.0", "tag": "current"}, {"op": "undeclare", "p": "a", "v": "1.0"},
                   {"op": "untag", "p": "a", "v": None, "tag": "current"},
                   {"op": "remove", "p": "c", "v": "1.0", "rec": True, "check": True}):
            add("state/cache-%s-%s" % ("fresh" if warm else "stale", fl), base, op,
                [API] if op["op"] == "untag" else both, flavor=fl, warm=warm)
    return out


def corpus_cases():
    d = os.path.join(common.ROOT, "corpus", "C15")
    out = []
    if os.path.isdir(d):
        for f in sorted(os.listdir(d)):
            if f.endswith(".json"):
                out.append(json.load(open(os.path.join(d, f)))["input"])
    return out


def op_class(case):
    """shape of the request for the input-distribution histogram"""
    op, env = case["op"], case.get("env") or {}
    bits = [op["op"]]
    if op["op"] == "cli":
        return "cli:" + op["argv"][0]
    if op["op"] == "seq":
        return "seq:" + ",".join(o["op"] for o in op["ops"])
    if op["op"] == "declare":
        t = op.get("table", "own")
        bits.append("table:" + ("stream" if t in STREAMS else t))
        if op.get("extern"):
            bits.append("extern")
        if op.get("dir", "own") != "own":
            bits.append("dir:" + op["dir"])
    if op.get("tag"):
        bits.append("usertag" if op["tag"] == USERTAG else "tag")
    for k in ("both", "rec", "check"):
        if op.get(k):
            bits.append(k)
    if op.get("answers") is not None:
        bits.append("interactive")
    if env.get("force"):
        bits.append("force")
    return "+".join(bits)


def par_map(fn, items, nproc=12):
    """run fn(item) in forked children, nproc at a time; results in order"""
    from concurrent.futures import ThreadPoolExecutor
    with ThreadPoolExecutor(max_workers=nproc) as ex:
        return list(ex.map(lambda it: common.in_child(fn, it, timeout=600), items))


def judge(ctx, c, res, site_lines, family=None):
    d, w = res["dry"], res["wet"]
    env = c.get("env") or {}
    st = norm_state(c["state"])
    effective = bool(w is not None and not w["unchanged"])
    kind = c["op"]["argv"][0] if c["op"]["op"] == "cli" else c["op"]["op"]
    ctx.count(1, key="%s/%s" % (kind, "effective" if effective else "noop-or-refused"),
              nontrivial=json.dumps(c, sort_keys=True) if effective else None)
    ctx.bump("class:" + op_class(c))
    ctx.bump("via:" + env.get("via", "api"))
    ctx.bump("options:quiet=%s,verbose=%s" % (env.get("quiet", 1), env.get("verbose", 0)))
    ctx.bump("state:flavor=%s,%s" % (st["flavor"], "cache-fresh" if st.get("warm") else "cache-stale"))
    for k, name in (("stale", "state:tag-of-lost-version"), ("alien", "state:tag-unknown-to-configuration"),
                    ("legacy", "state:records-with-second-flavor"), ("lost_table", "state:lost-table-file"),
                    ("no_prod_dir", "state:version-file-without-PROD_DIR"),
                    ("site_tags", "state:tags-defined-by-stack")):
        if st.get(k):
            ctx.bump(name)
    if st["stacks"] > 1:
        ctx.bump("state:two-stacks")
    if any(x["dir"] == "shared" for x in st["declared"]):
        ctx.bump("state:shared-product-directory")
    if any(x["table"] in STREAMS or x["extern"] for x in st["declared"]):
        ctx.bump("state:interned-files")
    if any(x["tag"] == USERTAG for x in st["declared"]):
        ctx.bump("state:user-tag")
    if any(x.get("flavor") for x in st["declared"]):
        ctx.bump("state:declared-for-fallback-flavor")
    if env.get("setup"):
        ctx.bump("state:product-is-setup")
    if env.get("user") == "nobody":
        ctx.bump("run-as:ordinary-user(stack not writable)" if not res.get("as_root") else "run-as:root(fallback)")
    if env.get("nocache"):
        ctx.bump("options:readCache=False")
    if family:
        ctx.bump("family:" + family)
    ctx.bump("dry-outcome:" + d["outcome"].split(":")[0])
    ctx.sample({"case": c, "dry": d["outcome"], "report": d["report"][:2], "wet": w and w["outcome"],
                "wet_changes": w and w["diff"][:4]})
    if not d["unchanged"]:
        ctx.fail("dry-run-changed-stack", c, expected="records and product directories unchanged", observed=d["diff"],
                 what="with noaction=True the operation changed %s" % d["diff"][:4])
    # the theorem: no write site is reachable under noaction - not even one that rewrites the same bytes
    for meth, line, path in d["spied"]:
        ctx.traces_validated += 1
        ctx.disagree(c, "dryrun_changes_nothing: no mutator call on a record or product directory",
                     "dry run called a mutator on %s (below %s:%s)" % (path, meth, line), where="dry-run spy")
        if d["unchanged"]:
            ctx.bump("dry-run-mutator-call-without-change")
    if w is None:
        return
    # "report what they would do": a request that changes the stack when run for real says something when dry
    if effective and not int(env.get("quiet", 1 if env.get("via", "api") == "api" else 0)) and not d["report"]:
        ctx.fail("dry-run-silent", c, expected="a report of what would be done", observed=d["report"],
                 what="the dry run printed nothing although the real run changes %s" % w["diff"][:4])
    # translator cross-check: every change made by the real run sits under a call the translator calls a write
    for meth, line, path in w["spied"]:
        if meth is None:
            ctx.bump("write-outside-translated-methods")
            continue
        ctx.traces_validated += 1
        if site_lines is not None and (meth, line) not in site_lines:
            ctx.disagree(c, "translator: no write site at %s:%d" % (meth, line),
                         "implementation wrote %s from there" % path, where="translator tables")


def run(ctx):
    out = os.path.join(common.COQ, "Generated", "Guards.v")
    try:
        info = translate_guards.generate(common.REPO, out)
    except translate_guards.TranslationError as e:
        info = None
        ctx.proof_problems.append({"theorem": None, "what": "translator failed closed: %s" % e})
    ctx.rule = ("static: guard structure regenerated from Eups.py and cmd.py, theorems re-checked; dynamic: directed "
                "families (every class of the quantifier - first declaration, new version, redeclaration with/without "
                "force, tag move, stream table file, external files, undeclare with/without version and tag, tag "
                "removal, remove, recursive remove, interactive remove - in the forms the python API and the command "
                "line allow, on states with interned files, shared product directories, two stacks, user tags, tags "
                "of lost versions, tags unknown to the configuration, fresh and stale caches) plus random states x "
                "requests x options; each run with noaction=True, records and product directories hashed before/"
                "after/after exit handlers, under a spy on the low-level mutators; a case is non-trivial when the "
                "same request with noaction=False changes the stack; distinct = distinct (state, request, options)")
    ctx.trusted_base = common.COMMON_TRUSTED + [
        "harness/translate_guards.py (python ast -> Coq term, fail-closed) and its classification tables "
        "(write / not-a-stack-record / pure), printed under coverage.translator",
        "the semantics Model/Guards.v exec as an over-approximation of python control flow with self.noaction fixed "
        "(no assignment to self.noaction inside the translated methods: checked by the translator)"]
    ctx.assumptions = ["a call the translator classifies as pure performs no write to stack records or product "
                       "directories (cross-checked dynamically by the spy runs, not proved)",
                       "self.noaction is not changed during a command"]
    if info is not None:
        ctx.extra["translator"] = info
        ctx.check_theorems()
        if info["unknown_callees"]:
            ctx.notes.append("translator met unknown callees (treated as writes): %s" % info["unknown_callees"][:3])
    site_lines = None
    if info is not None:
        site_lines = set()
        for s in info["sites"]:
            site_lines.add((s["method"], s["line"]))
        for s in info["not_stack_records"]:
            site_lines.add((s["method"], s["line"]))
    # ---- dynamic
    cases = [(None, c) for c in corpus_cases()]
    if ctx.scale == 1:                                     # deterministic: no use repeating them in an enlarged search
        for family, st, op, envs in directed_cases():
            for env in envs:
                cases.append((family, {"state": st, "op": op, "env": env}))
    for _ in range(ctx.size(70, 900)):
        cases.append((None, random_case(ctx.rng)))
    common.import_eups()                                   # once, here: the children are forked with it loaded
    import eups.cmd  # noqa
    results = par_map(run_case, [c for _, c in cases])
    for (family, c), r in zip(cases, results):
        if r[0] != "ok":
            raise RuntimeError("scenario child failed: %r on %s" % (r, json.dumps(c)))
        judge(ctx, c, r[1], site_lines, family)


def replay(ctx, path):
    obj = json.load(open(path))
    if "input" not in obj:                                 # a proof-broken record has no input: the whole check decides
        print("replay %s: no failing input recorded (%s); run ./check C15" % (path, obj.get("kind")))
        return 1
    c = obj["input"]
    r = common.in_child(run_case, c, timeout=600)
    bad = r[0] != "ok" or not r[1]["dry"]["unchanged"] or r[1]["dry"]["spied"]
    if not bad and r[1]["wet"] is not None:
        env = c.get("env") or {}
        quiet = int(env.get("quiet", 1 if env.get("via", "api") == "api" else 0))
        bad = bool(not r[1]["wet"]["unchanged"] and not quiet and not r[1]["dry"]["report"])
    print("replay %s: %s %s" % (path, "still fails" if bad else "passes", r[1]["dry"] if r[0] == "ok" else r))
    return 1 if bad else 0
