"""C16 - database records round-trip and stacks are relocatable.

Model: coq/Model/Records.v, coq/Model/Paths.v   Theorems: coq/Props/C16.v
Implementation: eups.db.VersionFile / ChainFile (read, write, addFlavor, setVersion),
eups.Product (canonicalizePaths, resolvePaths), eups.db.Database (declare, findProduct, assignTag,
getTaggedVersion).

Three correspondence streams
  codec   random version / chain file texts (well formed and malformed) through the real readers and
          writers, against vf_read / vf_lines / cf_read / cf_lines
  paths   Product.canonicalizePaths, Product(...).resolvePaths and VersionFile.addFlavor + write(trimDir)
          on symbolic products over a fake file system (os.path.exists / isfile / isdir replaced by
          membership in a generated set), against canon / resolve / add_flavor / vf_write
  stack   product records declared through the real Database.declare on a real scratch stack, read
          back, the stack renamed and then copied, every record resolved again; against db_declare and
          db_find, step by step.  The stack may be reached through a symbolic link (the stack directory
          is a link, or a directory above it is), declarations are made through the link or through the
          resolved name with either spelling of the paths, from a working directory inside the product,
          inside the stack or elsewhere; the records are read through the link and through the resolved
          name, and again after the move.  The link table and the working directory are data for the
          model (Model/Paths.v penv).
and the property's own oracle on the implementation's outputs of the stack stream.
"""
import json
import os
import shutil
import sys

import common
from common import enc, dec, enc_list, dec_list

META = ("DECLARER", "DECLARED", "MODIFIER", "MODIFIED")
ERRMAP = {"RuntimeError": "BadTable", "KeyError": "Crash", "TypeError": "Crash", "AttributeError": "Crash",
          "UnboundLocalError": "Crash", "UnderSpecifiedProduct": "Refused", "TableFileNotFound": "Undefined",
          "IndexError": "Crash", "ProductNotFound": "NotFound", "RecursionError": "Crash"}


# ------------------------------------------------------------------ encoding helpers

def enc_val(v):
    return "~" if v is None else enc(v)


def dec_val(s):
    return None if s == "~" else dec(s)


def enc_lines(lines):
    return "~" if lines is None else enc_list("|", lines)


def dec_lines(s):
    return dec_list("|", s)


def enc_product(p):
    """p = [name, version, flavor, dir, table, db, ups]"""
    return ",".join([enc(p[0]), enc(p[1]), enc(p[2])] + [enc_val(x) for x in p[3:7]])


def dec_product(s):
    f = s.split(",")
    return [dec(f[0]), dec(f[1]), dec(f[2])] + [dec_val(x) for x in f[3:7]]


def enc_blocks(blocks, valenc=enc_val):
    return "|".join(enc(f) + "," + ";".join(enc(k) + "=" + valenc(v) for k, v in i) for f, i in blocks)


def dec_blocks(s, valdec=dec_val):
    out = []
    if s == "":
        return out
    for b in s.split("|"):
        f, _, i = b.partition(",")
        kvs = []
        if i != "":
            for kv in i.split(";"):
                k, _, v = kv.partition("=")
                kvs.append([dec(k), valdec(v)])
        out.append([dec(f), kvs])
    return out


def errclass(name):
    return ERRMAP.get(name, "Other:" + name)


def drop_meta(lines):
    return [l for l in lines if not any(l.strip().startswith(m + " =") for m in META)]


def split_file(path):
    """the lines of a record file, as python's reader sees them (newline characters removed)"""
    with open(path) as f:
        txt = f.read()
    lines = txt.split("\n")
    if lines and lines[-1] == "":
        lines.pop()
    return lines


# ------------------------------------------------------------------ stream 1: codec

NAMES = ["prod", "my_prod", "p2", "afw"]
VERSIONS = ["1.0", "svn123", "2.1.b", "v1_2", "1.0-rc 1"]
FLAVORS = ["Linux64", "Darwin", "generic", "DarwinX86", "Linux"]
PATHVALS = ["Linux64/prod/1.0", "/opt/else where/prod/1.0", "none", "ups", "prod.table", "tables/prod.table",
            "$UPS_DB/Linux64/prod/1.0/ups", "/a b/c.table", "", "x#y", "\"q\"", "\"lead", "trail\"", "a\"b",
            " sp", "(none)", "???", "\"\"", "\""]


def gen_kv(rng, key, value):
    k = rng.choice([key, key, key, key.lower(), key.capitalize()])
    eq = rng.choice([" = ", " = ", " = ", "=", "  =", "= ", "\t=\t"])
    if rng.random() < 0.15:
        value = '"%s"' % value
    lead = rng.choice(["   ", "   ", "", "\t", "  "])
    tail = rng.choice(["", "", "", "", " ", "  # note", "# c", "\t"])
    return lead + k + eq + value + tail


def gen_vf_text(rng):
    """a version file text from the grammar of write() with mutations; returns (lines, shape)"""
    lines = []
    shape = "wellformed"
    name, version = rng.choice(NAMES), rng.choice(VERSIONS)
    r = rng.random()
    lines.append(gen_kv(rng, "FILE", rng.choice(["version"] * 6 + ["Version", "VERSION", "chain", "bogus"])).lstrip())
    if r < 0.93:
        lines.append(gen_kv(rng, "PRODUCT", name).lstrip())
    if r < 0.96:
        lines.append(gen_kv(rng, "VERSION", version).lstrip())
    lines.append("#***************************************")
    nfl = rng.choice([0, 1, 1, 2, 2, 3])
    fls = [rng.choice(FLAVORS) for _ in range(nfl)]       # duplicates possible
    for f in fls:
        lines.append("")
        lines.append(rng.choice(["Group:"] * 6 + ["Group :", "Group:  # g", "group:", "Group"]))
        lines.append(gen_kv(rng, "FLAVOR", f))
        q = rng.choice([""] * 6 + ["build", "a b"])
        rq = rng.random()
        if rq < 0.85:
            lines.append('   QUALIFIERS = "%s"' % q)
        elif rq < 0.92:
            lines.append("   QUALIFIERS = %s" % q)
        for fld in ["DECLARER", "DECLARED", "MODIFIER", "MODIFIED", "PROD_DIR", "UPS_DIR", "TABLE_FILE"]:
            if rng.random() < (0.5 if fld.startswith(("DECL", "MOD")) else 0.85):
                if fld in ("DECLARER", "MODIFIER"):
                    v = rng.choice(["alice", "Bob B"])
                elif fld in ("DECLARED", "MODIFIED"):
                    v = rng.choice(["2026/09/29 10:17:51 UTC", "Mon Jan  1 00:00:00 2001"])
                else:
                    v = rng.choice(PATHVALS)
                lines.append(gen_kv(rng, fld, v))
        if rng.random() < 0.08:
            lines.append(gen_kv(rng, rng.choice(["EXTRA", "x_1", "PRODUCT", "VERSION"]), "zz"))
        if rng.random() < 0.25:
            lines.append(rng.choice(["End:", "End :", "End:", "end:", "   End:"]))
    if rng.random() < 0.8:
        lines.append("End:")
    # mutations
    m = rng.random()
    if m < 0.10 and lines:
        lines.insert(rng.randrange(len(lines) + 1), rng.choice(["garbage", "= x", "a b = c", "k : v", "Grouping = 1",
                                                                 "End = 1", "é = 1"][:6]))
        shape = "junk-line"
    elif m < 0.18:
        lines.insert(rng.randrange(1, len(lines) + 1), rng.choice(["   ", "# only a comment", "\t\t", "  #x = y"]))
        shape = "blank-or-comment"
    elif m < 0.24:
        # a key before any flavor block
        lines.insert(1, gen_kv(rng, rng.choice(["PROD_DIR", "UPS_DIR", "QUALIFIERS"]), rng.choice(["x", ""])))
        shape = "key-before-flavor"
    return lines, shape


def gen_cf_text(rng):
    lines = []
    shape = "wellformed"
    name, tag = rng.choice(NAMES), rng.choice(["current", "stable", "beta"])
    lines.append(gen_kv(rng, "FILE", rng.choice(["version"] * 4 + ["chain", "Chain", "bogus"])).lstrip())
    if rng.random() < 0.93:
        lines.append(gen_kv(rng, "PRODUCT", name).lstrip())
    if rng.random() < 0.93:
        lines.append(gen_kv(rng, "CHAIN", tag).lstrip())
    lines.append("#***************************************")
    for _ in range(rng.choice([0, 1, 1, 2, 3])):
        f = rng.choice(FLAVORS)
        lines.append("")
        lines.append(rng.choice(["#Group:", "#Group:", "Group:", "Group :"]))
        lines.append(gen_kv(rng, "FLAVOR", f))
        if rng.random() < 0.93:
            lines.append(gen_kv(rng, "VERSION", rng.choice(VERSIONS + ["\"\"q\"\"", ""])))
        if rng.random() < 0.9:
            lines.append('   QUALIFIERS = "%s"' % rng.choice([""] * 6 + ["build"]))
        for fld in ["DECLARER", "DECLARED", "MODIFIER", "MODIFIED"]:
            if rng.random() < 0.5:
                lines.append(gen_kv(rng, fld, rng.choice(["alice", "2026/09/29 10:17:51 UTC", "x # y"])))
        lines.append(rng.choice(["#End:", "#End:", "End:", "End :"]))
    m = rng.random()
    if m < 0.10:
        lines.insert(rng.randrange(len(lines) + 1), rng.choice(["garbage", "= x", "a b = c", "k : v", "Grouping"]))
        shape = "junk-line"
    elif m < 0.16:
        lines.insert(1, gen_kv(rng, rng.choice(["VERSION", "QUALIFIERS", "DECLARER"]), rng.choice(["x", ""])))
        shape = "key-before-flavor"
    return lines, shape


def gen_codec(rng):
    if rng.random() < 0.65:
        lines, shape = gen_vf_text(rng)
        c = {"kind": "vftext", "lines": lines, "shape": shape}
    else:
        lines, shape = gen_cf_text(rng)
        c = {"kind": "cftext", "lines": lines, "shape": shape}
    c["given"] = rng.random() < 0.5     # are the product name and version / tag passed to the constructor
    c["name"] = rng.choice(NAMES)
    c["second"] = rng.choice(VERSIONS) if c["kind"] == "vftext" else rng.choice(["current", "stable"])
    return c


def impl_codec(cases, scratch):
    """in a forked child"""
    common.import_eups()
    from eups.db.VersionFile import VersionFile
    from eups.db.ChainFile import ChainFile
    import eups.utils
    devnull = open(os.devnull, "w")
    eups.utils.stdwarn = devnull
    sys.modules["eups.db.ChainFile"].stdwarn = devnull
    out = []
    fin = os.path.join(scratch, "in.rec")
    fout = os.path.join(scratch, "out.rec")
    for c in cases:
        with open(fin, "w") as f:
            f.write("".join(l + "\n" for l in c["lines"]))
        if os.path.exists(fout):
            os.remove(fout)
        res = {}
        cls = VersionFile if c["kind"] == "vftext" else ChainFile
        try:
            if c["given"]:
                v = cls(fin, c["name"], c["second"])
            else:
                v = cls(fin)
            res["read"] = {"name": v.name, "second": (v.version if c["kind"] == "vftext" else v.tag),
                           "info": [[f, [[k, x] for k, x in i.items()]] for f, i in v.info.items()]}
        except Exception as e:  # noqa
            res["read"] = {"err": errclass(type(e).__name__)}
            out.append(res)
            continue
        try:
            v.write(file=fout)
            res["write"] = {"lines": split_file(fout) if os.path.exists(fout) else []}
        except Exception as e:  # noqa
            res["write"] = {"err": errclass(type(e).__name__)}
        out.append(res)
    return out


def codec_queries(c):
    op = "vfread" if c["kind"] == "vftext" else "cfread"
    return ["\t".join([op, enc(c["name"]) if c["given"] else "~", enc(c["second"]) if c["given"] else "~",
                       enc_lines(c["lines"])])]


def run_codec(ctx, cases, scratch):
    r = common.in_child(impl_codec, cases, scratch, timeout=600)
    if r[0] != "ok":
        raise RuntimeError("codec implementation driver failed: %r" % (r,))
    ires = r[1]
    mread = ctx.model([codec_queries(c)[0] for c in cases])
    q2, idx = [], []
    for n, (c, line) in enumerate(zip(cases, mread)):
        f = line.split("\t")
        if f[0] == "ok":
            f += [""] * (4 - len(f))
            op = "vflines" if c["kind"] == "vftext" else "cflines"
            q2.append("\t".join([op, f[1], f[2], f[3]]))
            idx.append(n)
    mwrite = dict(zip(idx, ctx.model(q2)))
    for n, (c, line, i) in enumerate(zip(cases, mread, ires)):
        f = line.split("\t")
        isvf = c["kind"] == "vftext"
        if f[0] == "ok":
            f += [""] * (4 - len(f))
            m = {"read": {"name": dec_val(f[1]), "second": dec_val(f[2]),
                          "info": dec_blocks(f[3], dec_val if isvf else dec)}}
            w = mwrite[n].split("\t")
            m["write"] = {"lines": dec_lines(w[1] if len(w) > 1 else "")} if w[0] == "ok" else {"err": w[1]}
        else:
            m = {"read": {"err": f[1] if len(f) > 1 else line}}
        nblocks = len(i["read"].get("info", [])) if "info" in i["read"] else -1
        ctx.count(1, key="codec/%s/%s/%s" % (c["kind"], c["shape"], "err" if nblocks < 0 else "%dfl" % min(nblocks, 3)),
                  nontrivial=("codec", tuple(c["lines"]), c["given"]) if nblocks > 0 else None)
        if m != i:
            ctx.disagree(c, m, i, where="codec")
        # oracle: what the writer prints, the reader reads back unchanged (write . read . write = write)
        if "write" in i and "lines" in i["write"] and i["write"]["lines"] and c.get("recheck", True):
            c["_rewritten"] = i["write"]["lines"]
    # second pass: texts printed by the real writer are re-read and re-written by the real code
    again = []
    for c in cases:
        if "_rewritten" in c:
            again.append({"kind": c["kind"], "lines": c.pop("_rewritten"), "shape": "printed", "given": c["given"],
                          "name": c["name"], "second": c["second"], "recheck": False, "origin": c["lines"]})
    if again:
        r = common.in_child(impl_codec, again, scratch, timeout=600)
        if r[0] != "ok":
            raise RuntimeError("codec implementation driver failed: %r" % (r,))
        mread = ctx.model([codec_queries(c)[0] for c in again])
        for c, i, line in zip(again, r[1], mread):
            ctx.count(1, key="codec/%s/printed" % c["kind"], nontrivial=("printed", tuple(c["lines"])))
            f = line.split("\t")
            if "err" in i["read"] or f[0] != "ok":
                if ("err" in i["read"]) != (f[0] != "ok"):
                    ctx.disagree(c, line, i, where="codec-printed")
                # a text the writer printed that the reader rejects: only for values outside the alphabet
                continue
            if "lines" in i.get("write", {}):
                # fixpoint after one more cycle at most (absent dir: None, then the word none)
                if drop_meta(i["write"]["lines"]) != drop_meta(c["lines"]) and wf_text(c["origin"]):
                    c2 = dict(c)
                    c2["lines"] = i["write"]["lines"]
                    r3 = common.in_child(impl_codec, [c2], scratch)
                    l3 = r3[1][0].get("write", {}).get("lines") if r3[0] == "ok" else None
                    if l3 != i["write"]["lines"]:
                        ctx.fail("codec-not-stable", c, expected=i["write"]["lines"], observed=l3,
                                 what="write . read does not reach a fixpoint after two cycles")
            elif "err" in i.get("write", {}):
                ctx.fail("rewrite-raises", c, expected="the record is written again", observed=i["write"],
                         what="a record file printed by the writer cannot be re-written after being read: %s"
                              % i["write"]["err"])


def wf_text(lines):
    """values inside the alphabet of the round-trip claim: no hash, quote, leading/trailing blank, empty value"""
    for l in lines:
        if "=" in l:
            v = l.split("=", 1)[1]
            if "#" in v or '"' in v.replace('""', "") or v.strip() == "" or "\t" in v:
                return False
    return True


# ------------------------------------------------------------------ stream 2: paths over a fake file system

def gen_paths(rng):
    root = rng.choice(["/S", "/S T/stack", "/S"])
    db = rng.choice([root + "/ups_db"] * 5 + [None, root + "/db", "none"])
    dbS = db if db not in (None, "none") else root + "/ups_db"
    name, ver, fl = "p", rng.choice(["1", "1.0"]), rng.choice(["F", "Linux64"])
    pd_in = "%s/%s/%s/%s" % (root, fl, name, ver)
    pd_out = "/O o/%s/%s" % (name, ver)
    dirs = [None, "none", pd_in, pd_in, pd_out, "%s/%s/%s" % (fl, name, ver), "$PROD_ROOT/%s/%s" % (name, ver), "",
            root, pd_in + "/", root + "/ups_dbx/p/1", "$FLAVOR/p", "/O/$FLAVOR/p", "$UPS_DB/x", "$PROD_DIRx",
            # beside the stack, in a directory whose path begins with the stack's path as a string
            root + "2/%s/%s/%s" % (fl, name, ver), root + "-extras/%s/%s" % (name, ver)]
    d = rng.choice(dirs)
    dS = d.rstrip("/") if d not in (None, "none", "") else pd_in      # existing paths stay normalised
    upss = [None, "ups", "ups", "none", dS + "/ups", "$UPS_DB/%s/%s/%s/ups" % (fl, name, ver), "$PROD_DIR/ups",
            dbS + "/%s/%s/%s/ups" % (fl, name, ver), dbS, dS, "etc/", "/O o/ups", "", "$PROD_ROOT/u", "$UPS_DIR"]
    u = rng.choice(upss)
    tabs = [None, "none", "p.table", dS + "/ups/p.table", dS + "/p.table", root + "/tables/p.table",
            "/O o/t/p.table", dbS + "/%s/%s/%s/ups/p.table" % (fl, name, ver), "$UPS_DIR/p.table",
            "$PROD_DIR/ups/p.table", "$UPS_DB/x/p.table", "ups/p.table", "$PROD_ROOT/t.table", "$FLAVORx/t",
            "a$FLAVOR/b$FLAVOR.table", "tables/p.table", "", dbS + "x/p.table", "$UPS_DBX/t", "$PROD_ROOT-1/t",
            root + "2/tables/p.table", root + "-extras/p.table"]
    t = rng.choice(tabs)
    cand = set()
    for a in [dS, dS + "/ups", root, dbS, pd_in, pd_out, root + "/tables", "/O o/t", "/O o/ups"]:
        cand.add(a)
        for b in ["p.table", "ups/p.table", "tables/p.table", "ups"]:
            cand.add(os.path.join(a, b))
    for x in (d, u, t):
        if x and x.startswith("/"):
            cand.add(x)
    cand = sorted(cand)
    exists = [x for x in cand if rng.random() < 0.4]
    prod = [name, ver, fl, d, t, db, u]
    op = rng.choice(["canon", "canon", "resolve", "resolve", "resolve", "vfwrite"])
    c = {"kind": op, "product": prod, "exists": exists, "shape": "paths"}
    if op == "vfwrite":
        # VersionFile.addFlavor once or twice, then write(trimDir)
        c["trim"] = rng.choice([root, root, None, "/S T"])
        c["adds"] = [[rng.choice(["F", "G"]), d, t, u]]
        if rng.random() < 0.5:
            c["adds"].append([rng.choice(["F", "G"]), rng.choice(dirs), rng.choice(tabs), rng.choice(upss)])
    return c


def impl_paths(cases, scratch):
    common.import_eups()
    from eups.Product import Product
    from eups.db.VersionFile import VersionFile
    import eups.utils
    eups.utils.stdwarn = open(os.devnull, "w")
    real = (os.path.exists, os.path.isfile, os.path.isdir)
    os.chdir(scratch)
    out = []
    fout = os.path.join(scratch, "w.version")
    for c in cases:
        S = set(c["exists"])
        fake = lambda p: p in S     # noqa
        n, v, f, d, t, db, u = c["product"]
        try:
            os.path.exists = os.path.isfile = os.path.isdir = fake
            try:
                if c["kind"] == "canon":
                    p = Product(n, v, f, d, t, None, db, ups_dir=u).clone().canonicalizePaths()
                    res = {"product": [p.name, p.version, p.flavor, p.dir, p.tablefile, p.db, p.ups_dir]}
                elif c["kind"] == "resolve":
                    p = Product(n, v, f, d, t, db=db, ups_dir=u)
                    p.resolvePaths()
                    res = {"product": [p.name, p.version, p.flavor, p.dir, p.tablefile, p.db, p.ups_dir]}
                else:
                    vf = VersionFile(fout, n, v, readFile=False)
                    for a in c["adds"]:
                        vf.addFlavor(a[0], a[1], a[2], a[3])
                    info = [[k, [[kk, vv] for kk, vv in i.items() if kk not in ("declarer", "declared", "modifier",
                                                                                 "modified")]]
                            for k, i in vf.info.items()]
                    os.path.exists, os.path.isfile, os.path.isdir = real
                    if os.path.exists(fout):
                        os.remove(fout)
                    os.path.isfile = os.path.isdir = fake
                    vf.write(trimDir=c["trim"], file=fout)
                    os.path.exists, os.path.isfile, os.path.isdir = real
                    res = {"info": info, "lines": drop_meta(split_file(fout))}
            finally:
                os.path.exists, os.path.isfile, os.path.isdir = real
        except Exception as e:  # noqa
            res = {"err": errclass(type(e).__name__)}
        out.append(res)
    return out


def run_paths(ctx, cases, scratch):
    r = common.in_child(impl_paths, cases, scratch, timeout=600)
    if r[0] != "ok":
        raise RuntimeError("paths implementation driver failed: %r" % (r,))
    lines = []
    for c in cases:
        ex = enc_list(";", c["exists"])
        if c["kind"] == "canon":
            # Product(...).clone(): two constructor runs, then canonicalizePaths
            lines.append("\t".join(["canon2", ex, enc_product(c["product"])]))
        elif c["kind"] == "resolve":
            lines.append("\t".join(["mkresolve", ex, enc_product(c["product"])]))
        else:
            lines.append("\t".join(["addwrite", ex, enc_val(c["trim"]), enc(c["product"][0]), enc(c["product"][1]),
                                    "|".join(",".join([enc(a[0])] + [enc_val(x) for x in a[1:]]) for a in c["adds"])]))
    mres = ctx.model(lines)
    for c, i, line in zip(cases, r[1], mres):
        f = line.split("\t")
        if f[0] == "ok" and c["kind"] in ("canon", "resolve"):
            m = {"product": dec_product(f[1])}
        elif f[0] == "ok":
            f += [""] * (3 - len(f))
            m = {"info": [[fl, [kv for kv in i if kv[0] not in ("declarer", "declared", "modifier", "modified")]]
                          for fl, i in dec_blocks(f[1])], "lines": drop_meta(dec_lines(f[2]))}
        else:
            m = {"err": f[1] if len(f) > 1 else line}
        p = c["product"]
        ctx.count(1, key="paths/%s" % c["kind"],
                  nontrivial=("paths", c["kind"], tuple(str(x) for x in p), tuple(c["exists"]), str(c.get("adds")),
                              c.get("trim")))
        if c["kind"] == "vfwrite" and c.get("trim"):
            sib = [x for a in c["adds"] for x in a[1:] if x and x in c["exists"] and x.startswith(c["trim"])
                   and not x.startswith(c["trim"] + "/") and x != c["trim"]]
            if sib:
                ctx.bump("paths/vfwrite/existing-value-beside-trimdir-with-its-prefix")
        if m != i:
            ctx.disagree(c, m, i, where="paths")


# ------------------------------------------------------------------ stream 3: real stacks

STACKNAMES = ["stack", "my stack", "st.1", "a-b c"]
OUTNAMES = ["outside", "else where"]
RELPARTS = ["Linux64", "Darwin", "pkgs", "x86 64", "v1.2", "share", "ups_dbx", "ups"]
LINKNAMES = ["lnk", "a much longer link name", "l k"]
PARENTNAMES = ["parent", "par ent"]


def gen_stack(rng, force=None):
    name = rng.choice(NAMES)
    version = rng.choice(VERSIONS + ["1.0+3", "2(b)"] if rng.random() < 0.25 else VERSIONS)
    nfl = rng.choice([1, 1, 2, 2, 3])
    fls = rng.sample(FLAVORS, nfl)
    recs = []
    for f in fls:
        dk = rng.choice(["in", "in", "in", "out", "none"])
        tk = rng.choice(["ups", "ups", "absin", "absout", "intern", "none", "absdb"] if dk != "none" else
                        ["absin", "absout", "intern", "none"])
        if tk == "absdb" and rng.random() < 0.6:
            tk = "ups"
        r = rng.random()
        if r < 0.5:
            rel = "%s/%s/%s" % (f, name, version)
        elif r < 0.9:
            rel = "/".join([rng.choice(RELPARTS[:6]), name, version])
        elif r < 0.95:
            rel = "/".join(["ups_dbx", name, version])      # a directory whose name begins like the database's
        else:
            rel = "/".join([rng.choice(RELPARTS[:6]), rng.choice(RELPARTS[:6]), name, version])
        recs.append({"flavor": f, "dir": dk, "table": tk, "rel": rel, "tag": rng.random() < 0.5,
                     "upsnone": tk == "absdb" and rng.random() < 0.5})
    c = {"kind": "stack", "stack": rng.choice(STACKNAMES), "out": rng.choice(OUTNAMES), "name": name,
         "version": version, "recs": recs, "moved": rng.choice(["moved", "new place", "stack2"]),
         "copied": rng.choice(["copy", "the copy"]), "legacy": None, "shape": "stack"}
    # how the stack is reached: by its own name, by a link to the stack directory, by a link to its parent
    c["via"] = rng.choice([None, None, None, "stacklink", "stacklink", "parentlink"])
    if c["via"]:
        c["lname"] = rng.choice(LINKNAMES)
        c["pname"] = rng.choice(PARENTNAMES)
        # the first [direct] flavors are declared through the resolved name, the others through the link
        c["direct"] = rng.choice([0, 0, 1]) if len(recs) > 1 else 0
        c["relink"] = rng.random() < 0.5
    if rng.random() < 0.4:
        # the outside directory is a sibling of the stack whose name BEGINS WITH the stack's name (or with the name
        # of the link the stack is reached through): not inside the stack, though its path has the stack's path as
        # a string prefix
        stem = c["lname"] if c["via"] == "stacklink" and rng.random() < 0.4 else c["stack"]
        c["out"] = stem + rng.choice(["2", "-extras", ".old", " b"])
        if c["moved"] == c["out"]:
            c["moved"] = "moved"
        if not any(r["dir"] == "out" or r["table"] == "absout" for r in recs):
            recs[0]["dir"] = "out"
            if recs[0]["table"] == "absdb":
                recs[0]["table"] = "ups"
    for r in recs:
        # the working directory of the declaring process
        r["cwd"] = rng.choice(["empty", "empty", "proddir", "proddir", "proddir", "upsdir", "stack", "tabdir", "out"])
        if c["via"]:
            # the paths handed over are spelt like the stack is (same) or the other way (link / resolved name)
            r["spell_dir"] = rng.choice(["same", "same", "same", "other"])
            r["spell_tab"] = rng.choice(["same", "same", "same", "other"])
            if r["table"] == "absdb" and r["spell_tab"] == "other":
                # a table file inside the database directory that is not spelt with the database's own name is
                # not recognised as interned by canonicalizePaths; Eups.declare never hands it over without a ups
                # directory (it passes the interned form), so neither does this generator
                r["upsnone"] = False
    if rng.random() < 0.06:
        # a version file that already holds a block written by other means (older eups, hand edit,
        # VersionFile API) for a flavor that is not redeclared
        lf = [x for x in FLAVORS if x not in fls][0]
        c["legacy"] = legacy_text(name, version, lf, rng.choice(["nodir", "full", "notable"]))
    return c


def legacy_text(name, version, flavor, how):
    lines = ["FILE = version", "PRODUCT = %s" % name, "VERSION = %s" % version,
             "#***************************************", "", "Group:", "   FLAVOR = %s" % flavor,
             '   QUALIFIERS = ""', "   DECLARER = someone", "   DECLARED = long ago"]
    if how != "nodir":
        lines.append("   PROD_DIR = /legacy/%s/%s" % (name, version))
    lines.append("   UPS_DIR = none" if how == "nodir" else "   UPS_DIR = ups")
    if how == "full":
        lines.append("   TABLE_FILE = %s.table" % name)
    lines.append("End:")
    return {"flavor": flavor, "how": how, "lines": lines}


def expected_paths(c, rec, root, out):
    """the property, stated directly: where the directory, the table file and the database-held extra
    directory of a declared flavor are, for a stack at [root]"""
    name, version, fl = c["name"], c["version"], rec["flavor"]
    db = root + "/ups_db"
    if rec["dir"] == "in":
        d = root + "/" + rec["rel"]
    elif rec["dir"] == "out":
        d = out + "/" + rec["rel"]
    else:
        d = "none"
    t = {"ups": d + "/ups/" + name + ".table",
         "absin": root + "/site tables/" + fl + "/" + name + ".table",
         "absout": out + "/tables/" + fl + "/" + name + ".table",
         "intern": db + "/" + fl + "/" + name + "/" + version + "/ups/" + name + ".table",
         "absdb": db + "/" + fl + "/" + name + "/" + version + "/ups/" + name + ".table",
         "none": "none"}[rec["table"]]
    return {"dir": d, "table": t, "extra": db + "/" + fl + "/" + name + "/" + version}


def listing(base):
    """every path that exists under base, and the ancestors of base"""
    out = []
    p = base
    while True:
        out.append(p)
        q = os.path.dirname(p)
        if q == p:
            break
        p = q
    for d, ds, fs in os.walk(base):
        for x in ds + fs:
            out.append(os.path.join(d, x))
    return sorted(set(out))


def impl_stack(cases, scratch):
    common.import_eups()
    from eups.Product import Product
    import eups.utils
    DBM = sys.modules["eups.db.Database"]
    devnull = open(os.devnull, "w")
    eups.utils.stdwarn = devnull
    sys.modules["eups.db.ChainFile"].stdwarn = devnull
    out = []
    for n, c in enumerate(cases):
        base = os.path.join(scratch, "c%d" % n)
        via = c.get("via")
        # real: the stack directory; named: what EUPS_PATH says
        if via == "parentlink":
            real = os.path.join(base, c["pname"], c["stack"])
            named = os.path.join(base, c["lname"], c["stack"])
        else:
            real = os.path.join(base, c["stack"])
            named = os.path.join(base, c["lname"]) if via == "stacklink" else real
        outd = os.path.join(base, c["out"])
        cwd = os.path.join(base, "cwd")
        for d in (os.path.join(real, "ups_db"), outd, cwd):
            os.makedirs(d)
        if via == "parentlink":
            os.symlink(os.path.join(base, c["pname"]), os.path.join(base, c["lname"]))
        elif via == "stacklink":
            os.symlink(real, named)
        os.chdir(cwd)
        name, version = c["name"], c["version"]
        res = {"base": base, "steps": [], "stages": [], "real": real, "named": named}

        def links_now():
            out_ = []
            for x in sorted(os.listdir(base)):
                q = os.path.join(base, x)
                if os.path.islink(q):
                    out_.append([q, os.path.realpath(q)])
            return out_

        def touch(p):
            os.makedirs(os.path.dirname(p), exist_ok=True)
            with open(p, "w") as f:
                f.write("# table of %s\n" % name)

        vfile = os.path.join(real, "ups_db", name, version + ".version")
        cfile = os.path.join(real, "ups_db", name, "current.chain")
        if c.get("legacy"):
            os.makedirs(os.path.dirname(vfile), exist_ok=True)
            with open(vfile, "w") as f:
                f.write("".join(l + "\n" for l in c["legacy"]["lines"]))
        for k, rec in enumerate(c["recs"]):
            # the name the stack goes by in this declaration, and its other name
            through, other = (real, named) if k < c.get("direct", 0) else (named, real)
            db = os.path.join(through, "ups_db")
            DBM._databases.clear()
            D = DBM.Database(db)
            ereal = expected_paths(c, rec, real, outd)
            if ereal["dir"] != "none":
                os.makedirs(ereal["dir"], exist_ok=True)
            if ereal["table"] != "none":
                touch(ereal["table"])
            e = {"dir": expected_paths(c, rec, through if rec.get("spell_dir", "same") == "same" else other, outd)["dir"],
                 "table": expected_paths(c, rec, through if rec.get("spell_tab", "same") == "same" else other,
                                         outd)["table"]}
            where = {"proddir": ereal["dir"], "upsdir": os.path.join(ereal["dir"], "ups"), "stack": real,
                     "tabdir": os.path.dirname(ereal["table"]), "out": outd}.get(rec.get("cwd", "empty"), cwd)
            os.chdir(where if os.path.isdir(where) else cwd)
            ups_dir = "ups"
            tf = e["table"]
            if rec["table"] == "intern":
                # what Eups.declare passes for a table file it has copied into the database
                ups_dir = os.path.join("$UPS_DB", rec["flavor"], name, version, "ups")
                tf = name + ".table"
            elif rec["table"] == "none":
                ups_dir = None
            elif rec["table"] == "absdb" and rec.get("upsnone"):
                ups_dir = None
            args = [name, version, rec["flavor"], e["dir"], tf, db, ups_dir]
            step = {"args": args, "listing": listing(base), "cwd": os.getcwd(), "links": links_now(),
                    "old": split_file(vfile) if os.path.exists(vfile) else None}
            try:
                D.declare(Product(name, version, rec["flavor"], e["dir"], tf, None, db, ups_dir=ups_dir))
                step["new"] = split_file(vfile) if os.path.exists(vfile) else []
            except Exception as ex:  # noqa
                step["err"] = errclass(type(ex).__name__)
                step["new"] = split_file(vfile) if os.path.exists(vfile) else []
            if rec["tag"] and "err" not in step:
                step["chain_old"] = split_file(cfile) if os.path.exists(cfile) else None
                try:
                    D.assignTag("current", name, version, rec["flavor"])
                    step["chain_new"] = split_file(cfile)
                except Exception as ex:  # noqa
                    step["chain_err"] = errclass(type(ex).__name__)
            res["steps"].append(step)
            os.chdir(cwd)

        def stage(label, rootdir):
            DBM._databases.clear()
            os.environ["EUPS_PATH"] = rootdir
            dbp = os.path.join(rootdir, "ups_db")
            Dx = DBM.Database(dbp)
            vf = os.path.join(dbp, name, version + ".version")
            st = {"label": label, "root": rootdir, "listing": listing(base), "links": links_now(),
                  "lines": split_file(vf) if os.path.exists(vf) else None, "found": {}, "tagged": {}}
            fls = [r["flavor"] for r in c["recs"]] + ([c["legacy"]["flavor"]] if c.get("legacy") else [])
            for fl in fls:
                try:
                    q = Dx.findProduct(name, version, fl)
                    if q is None:
                        st["found"][fl] = None
                    else:
                        st["found"][fl] = {"name": q.name, "version": q.version, "flavor": q.flavor, "dir": q.dir,
                                           "table": q.tablefile, "ups": q.ups_dir, "db": q.db,
                                           "extra": q.extraProductDir(),
                                           "table_is_file": bool(q.tablefile) and os.path.isfile(q.tablefile),
                                           "dir_is_dir": bool(q.dir) and os.path.isdir(q.dir)}
                except Exception as ex:  # noqa
                    st["found"][fl] = {"err": errclass(type(ex).__name__)}
                try:
                    st["tagged"][fl] = Dx.getTaggedVersion("current", name, fl)[1]
                except Exception as ex:  # noqa
                    st["tagged"][fl] = "err:" + errclass(type(ex).__name__)
            cf = os.path.join(dbp, name, "current.chain")
            st["chain"] = split_file(cf) if os.path.exists(cf) else None
            res["stages"].append(st)

        stage("declared", named)
        if via:
            stage("declared-resolved", real)
        moved = os.path.join(base, c["moved"])
        os.rename(real, moved)
        stage("renamed", moved)
        copied = os.path.join(base, c["copied"])
        shutil.copytree(moved, copied, symlinks=True)
        stage("copied", copied)
        if c.get("relink"):
            relinked = os.path.join(base, "lnk 2")
            os.symlink(copied, relinked)
            stage("relinked", relinked)
        out.append(res)
        os.chdir(scratch)
        shutil.rmtree(base, ignore_errors=True)
    return out


def blocks_of(lines):
    """flavor -> the lines of its block in a record text (Group: ... up to the next Group / End)"""
    out, cur, key = {}, None, None
    for l in lines or []:
        s = l.strip()
        if s in ("Group:", "#Group:"):
            cur, key = [], None
            continue
        if s in ("End:", "#End:"):
            cur = None
            continue
        if cur is not None and s:
            if s.startswith("FLAVOR ="):
                key = s.split("=", 1)[1].strip()
                out[key] = cur
            cur.append(s)
    return out


def nonelike(v):
    return v is None or v == "none"


def block_meaning(bl):
    """a block up to the spelling of an absent directory / table file (absent and the word none mean the
    same: no directory, no table file)"""
    d = {}
    for l in bl or []:
        k, _, v = l.partition("=")
        d[k.strip()] = v.strip()
    for k in ("PROD_DIR", "TABLE_FILE"):
        if d.get(k, "none") == "none":
            d.pop(k, None)
    if d.get("UPS_DIR") == "none":
        d.pop("UPS_DIR")
    return d


def enc_envf(cwd, links):
    """the environment field of the driver protocol: working directory & link=resolved name;..."""
    return enc(cwd or "/") + "&" + ";".join(enc(l) + "=" + enc(t) for l, t in (links or []))


def run_stack(ctx, cases, scratch):
    r = common.in_child(impl_stack, cases, scratch, timeout=1500)
    if r[0] != "ok":
        raise RuntimeError("stack implementation driver failed: %r" % (r,))
    ires = r[1]
    state = []          # per case: the model's own record text, chain text, still comparable
    for c, i in zip(cases, ires):
        meta = "regex" if any(ch in c["version"] + "".join(x["rel"] for x in c["recs"]) for ch in "+*?[]()|^\\{}") \
            else "plain"
        dist = "/".join("%s-%s-%s-%s%s" % (x["dir"], x["table"], x.get("cwd", "empty"), x.get("spell_dir", "same"),
                                           x.get("spell_tab", "same")) for x in c["recs"])
        ctx.count(1, key="stack/%dfl/%s%s/%s" % (len(c["recs"]), meta, "/legacy" if c.get("legacy") else "",
                                                 c.get("via") or "direct"),
                  nontrivial=("stack", c["stack"], c["name"], c["version"], dist, c.get("via"), c.get("direct"),
                              tuple(x["rel"] for x in c["recs"]), str(c.get("legacy"))))
        if any(x["dir"] == "out" or x["table"] == "absout" for x in c["recs"]):
            stems = [c["stack"]] + ([c["lname"]] if c.get("via") == "stacklink" else [])
            ctx.bump("stack-outside/%s/%s" % (
                "beside-the-stack-with-its-name-as-prefix" if any(c["out"].startswith(z) for z in stems)
                else "unrelated-name", "1fl" if len(c["recs"]) == 1 else "several-flavors"))
        for k, x in enumerate(c["recs"]):
            ctx.bump("stack-record/%s-%s" % (x["dir"], x["table"]))
            ctx.bump("stack-cwd/%s" % x.get("cwd", "empty"))
            if c.get("via"):
                ctx.bump("stack-declared/%s/%s/dir-%s/table-%s" % (
                    c["via"], "resolved-name" if k < c.get("direct", 0) else "link",
                    x.get("spell_dir", "same"), x.get("spell_tab", "same")))
        # correspondence is skipped when a path component holds a regex metacharacter: VersionFile.write
        # splices the directory into a pattern, which the model does not follow; the oracle still runs
        state.append({"vf": c["legacy"]["lines"] if c.get("legacy") else None, "cf": None, "ok": meta == "plain"})
    # ---- the model, step by step on its own previous output; one batch per step number
    for k in range(max(len(c["recs"]) for c in cases)):
        todo = [n for n, c in enumerate(cases) if state[n]["ok"] and k < len(c["recs"])]
        qs = []
        for n in todo:
            st = ires[n]["steps"][k]
            qs.append("\t".join(["declare", "1", enc_list(";", st["listing"]), enc_product(st["args"]),
                                 enc_lines(state[n]["vf"]), enc_envf(st.get("cwd"), st.get("links"))]))
        outs = ctx.model(qs)
        cq, cn = [], []
        for n, line in zip(todo, outs):
            c, st = cases[n], ires[n]["steps"][k]
            f = line.split("\t")
            ctx.traces_validated += 1
            if f[0] == "ok":
                new = dec_lines(f[1] if len(f) > 1 else "")
                if "err" in st or drop_meta(new) != drop_meta(st["new"]):
                    ctx.disagree({"case": c, "step": k}, drop_meta(new), st.get("err") or drop_meta(st["new"]),
                                 where="stack-declare")
                    state[n]["ok"] = False
                    continue
                state[n]["vf"] = new
            else:
                if st.get("err") != (f[1] if len(f) > 1 else None):
                    ctx.disagree({"case": c, "step": k}, f, st.get("err") or drop_meta(st["new"]),
                                 where="stack-declare")
                state[n]["ok"] = False
                continue
            if c["recs"][k]["tag"] and "chain_new" in st:
                cq.append("\t".join(["cfassign", enc(c["name"]), enc("current"), enc(c["version"]),
                                     enc(c["recs"][k]["flavor"]), enc_lines(state[n]["cf"])]))
                cn.append(n)
        for n, line in zip(cn, ctx.model(cq)):
            st = ires[n]["steps"][k]
            g = line.split("\t")
            if g[0] != "ok" or drop_meta(dec_lines(g[1] if len(g) > 1 else "")) != drop_meta(st["chain_new"]):
                ctx.disagree({"case": cases[n], "step": k}, g, drop_meta(st["chain_new"]), where="stack-chain")
            else:
                state[n]["cf"] = dec_lines(g[1] if len(g) > 1 else "")
    # ---- findProduct and getTaggedVersion at every stage
    qs, keys = [], []
    for n, (c, i) in enumerate(zip(cases, ires)):
        if not state[n]["ok"]:
            continue
        for stg in i["stages"]:
            for fl in stg["found"]:
                qs.append("\t".join(["find", enc_list(";", stg["listing"]), enc(c["name"]), enc(c["version"]), enc(fl),
                                     enc_val(stg["root"]), enc_val(stg["root"] + "/ups_db"),
                                     enc_lines(state[n]["vf"]), enc_envf(None, stg.get("links"))]))
                keys.append((n, stg["label"], fl, "find"))
            if state[n]["cf"] is not None or stg["chain"] is not None:
                qs.append("\t".join(["cfversions", enc(c["name"]), enc("current"), enc_lines(stg["chain"]),
                                     ",".join(enc(fl) for fl in stg["tagged"])]))
                keys.append((n, stg["label"], None, "tagged"))
    for (n, label, fl, what), line in zip(keys, ctx.model(qs)):
        c = cases[n]
        stg = [x for x in ires[n]["stages"] if x["label"] == label][0]
        f = line.split("\t")
        ctx.traces_validated += 1
        if what == "find":
            found = stg["found"][fl]
            if f[0] == "ok":
                p = dec_product(f[1])
                m = {"name": p[0], "version": p[1], "flavor": p[2], "dir": p[3], "table": p[4], "db": p[5], "ups": p[6]}
            elif f[0] == "none":
                m = None
            else:
                m = {"err": f[1]}
            ii = None if found is None else {k: v for k, v in found.items()
                                             if k in ("name", "version", "flavor", "dir", "table", "db", "ups", "err")}
            if m != ii:
                ctx.disagree({"case": c, "stage": label, "flavor": fl}, m, ii, where="stack-find")
        else:
            want = [stg["tagged"][x] for x in stg["tagged"]]
            got = [dec_val(x) for x in (f[1].split(",") if len(f) > 1 else [])]
            if f[0] != "ok" or got != want:
                ctx.disagree({"case": c, "stage": label}, f, want, where="stack-tagged")
    # ---- the property's own oracle, on what the implementation did
    for c, i in zip(cases, ires):
        oracle_stack(ctx, c, i, i["named"], os.path.join(i["base"], c["out"]))


def oracle_stack(ctx, c, i, root0, outd):
    name, version = c["name"], c["version"]
    small = {k: c[k] for k in ("kind", "stack", "out", "name", "version", "recs", "moved", "copied", "legacy", "shape",
                               "via", "lname", "pname", "direct", "relink") if k in c}
    prev_blocks, prev_chain = (blocks_of(c["legacy"]["lines"]) if c.get("legacy") else {}), {}
    declared = []
    for rec, st in zip(c["recs"], i["steps"]):
        if "err" in st:
            ctx.fail("declare-raises", small, expected="the flavor is declared", observed=st["err"],
                     what="Database.declare of flavor %s (%s dir, %s table) raised %s; the version file now has "
                          "%d lines" % (rec["flavor"], rec["dir"], rec["table"], st["err"], len(st["new"])))
            return
        declared.append(rec["flavor"])
        now = blocks_of(st["new"])
        for fl, bl in prev_blocks.items():
            if fl == rec["flavor"]:
                continue
            if now.get(fl) != bl and block_meaning(now.get(fl)) != block_meaning(bl):
                ctx.fail("rewrite-changes-other-flavor", small, expected=bl, observed=now.get(fl),
                         what="declaring flavor %s changed the block of flavor %s" % (rec["flavor"], fl))
        prev_blocks = now
        if "chain_err" in st:
            ctx.fail("assign-tag-raises", small, expected=None, observed=st["chain_err"], what="assignTag raised")
        if "chain_new" in st:
            nowc = blocks_of(st["chain_new"])
            for fl, bl in prev_chain.items():
                if fl != rec["flavor"] and nowc.get(fl) != bl:
                    ctx.fail("chain-rewrite-changes-other-flavor", small, expected=bl, observed=nowc.get(fl),
                             what="tagging flavor %s changed the chain entry of flavor %s" % (rec["flavor"], fl))
            prev_chain = nowc
    for stg in i["stages"]:
        root = stg["root"]
        fls = blocks_of(stg["lines"])
        want_fls = ([c["legacy"]["flavor"]] if c.get("legacy") else []) + declared
        if sorted(fls) != sorted(want_fls):
            ctx.fail("flavors-lost", small, expected=want_fls, observed=sorted(fls),
                     what="flavors recorded in the version file (%s)" % stg["label"])
        for rec in c["recs"]:
            e = expected_paths(c, rec, root, outd)
            got = stg["found"].get(rec["flavor"])
            where = "%s, flavor %s: %s dir, %s table, declared from %s%s" % (
                stg["label"], rec["flavor"], rec["dir"], rec["table"],
                {"empty": "an empty directory", "proddir": "inside the product directory",
                 "upsdir": "inside the product's ups directory", "stack": "the stack directory",
                 "tabdir": "the directory of the table file", "out": "outside the stack"}[rec.get("cwd", "empty")],
                (", stack reached by %s" % c["via"]) if c.get("via") else "")
            if not got or "err" in got:
                ctx.fail("find-fails", small, expected=e, observed=got, what="findProduct fails (%s)" % where)
                continue
            if (got["name"], got["version"], got["flavor"]) != (name, version, rec["flavor"]):
                ctx.fail("identity", small, expected=[name, version, rec["flavor"]], observed=got, what=where)
            kind = {"in": "relocate-inside", "out": "relocate-outside", "none": "none-stays-none"}
            if got["dir"] != e["dir"]:
                ctx.fail(kind[rec["dir"]] + "/dir", small, expected=e["dir"], observed=got["dir"],
                         what="product directory (%s)" % where)
            tk = {"ups": kind[rec["dir"]], "absin": "relocate-inside", "absout": "relocate-outside",
                  "intern": "relocate-inside", "absdb": "relocate-inside", "none": "none-stays-none"}[rec["table"]]
            if got["table"] != e["table"]:
                ctx.fail(tk + "/table", small, expected=e["table"], observed=got["table"],
                         what="table file (%s)" % where)
            elif e["table"] != "none" and not got["table_is_file"]:
                ctx.fail(tk + "/table-missing", small, expected=e["table"], observed=got["table"],
                         what="resolved table file does not exist (%s)" % where)
            if got["extra"] != e["extra"]:
                ctx.fail("relocate-inside/extra", small, expected=e["extra"], observed=got["extra"],
                         what="database-held extra directory (%s)" % where)
            want_tag = version if rec["tag"] else None
            if stg["tagged"].get(rec["flavor"]) != want_tag:
                ctx.fail("tagged-version", small, expected=want_tag, observed=stg["tagged"].get(rec["flavor"]),
                         what="version tagged current (%s)" % where)


# ------------------------------------------------------------------ stream 4: tags and flavors in one database

TARGETS = ["own", "own", "user", "other"]


def gen_target(rng, c):
    """where the chain file of the case is kept: in the product's own database (a global tag), in the user's tag
    directory (a user tag) or in the database of a second stack (a global tag, writeableDB); Database.undeclare
    knows nothing of a second stack, so such a history tags and untags only"""
    c["target"] = rng.choice(TARGETS)
    c["tag"] = rng.choice(["mine", "t1"] if c["target"] == "user" else ["current", "beta"])
    c["other"] = rng.choice(["other", "stack-rw", "w stack"])
    if c["target"] == "other":
        for op in c["ops"]:
            if op["op"] == "undeclare":
                op["op"] = "unassign"
                del op["version"]
    return c


def gen_tags(rng):
    """two versions x two or three flavors of one product; declare (with or without a tag), assignTag,
    unassignTag and undeclare of one flavor at a time, while other flavors already have blocks and chain entries"""
    name = rng.choice(NAMES)
    fls = rng.sample(FLAVORS, rng.choice([2, 2, 3]))
    vers = rng.sample(["1.0", "2.0", "svn 7", "v1_2"], 2)
    declared, ops = set(), []
    for _ in range(rng.choice([4, 5, 6, 8])):
        r = rng.random()
        fl = rng.choice(fls)
        if r < 0.5 or not declared:
            ver = rng.choice(vers)
            ops.append({"op": "declare", "flavor": fl, "version": ver, "tag": rng.random() < 0.6,
                        "dir": rng.choice(["in", "in", "none"])})
            declared.add((fl, ver))
        elif r < 0.62:
            fl, ver = rng.choice(sorted(declared))
            ops.append({"op": "assign", "flavor": fl, "version": ver})
        elif r < 0.72:
            ops.append(gen_assignmany(rng, fls, vers, declared))
        elif r < 0.87:
            ops.append({"op": "unassign", "flavor": fl})
        else:
            fl, ver = rng.choice(sorted(declared))
            ops.append({"op": "undeclare", "flavor": fl, "version": ver})
            declared.discard((fl, ver))
    return gen_target(rng, {"kind": "tags", "stack": rng.choice(STACKNAMES), "name": name, "flavors": fls,
                            "versions": vers, "ops": ops, "moved": rng.choice(["moved", "new place"]),
                            "shape": "tags"})


def gen_assignmany(rng, fls, vers, declared):
    """Database.assignTag for a LIST of flavors (any order, a repetition, a flavor that is not declared), for the
    empty list or for flavors=None (both: every declared flavor of the version)"""
    ver = rng.choice(sorted(declared))[1] if declared and rng.random() < 0.9 else rng.choice(vers)
    r = rng.random()
    if r < 0.3:
        req = None
    elif r < 0.35:
        req = []
    else:
        req = rng.sample(fls, rng.randrange(1, len(fls) + 1))
        if rng.random() < 0.15:
            req.insert(rng.randrange(len(req) + 1), rng.choice(req))
        if rng.random() < 0.1:
            req.insert(rng.randrange(len(req) + 1), "sparc")
    return {"op": "assignmany", "flavor": None, "version": ver, "flavors": req}


def gen_tags_many(rng):
    """directed: every flavor has the version declared; some flavors carry the tag already (for this version, or for
    the other one), some do not; the tag is then assigned for a list of flavors / for all of them in one call"""
    name = rng.choice(NAMES)
    fls = rng.sample(FLAVORS, rng.choice([2, 3, 3]))
    vers = rng.sample(["1.0", "2.0", "svn 7", "v1_2"], 2)
    ops, declared = [], set()
    state = {}
    for fl in fls:
        how = rng.choice(["same", "same", "other", "untagged", "untagged"])
        state[fl] = how
    if "same" not in state.values() or rng.random() < 0.1:
        state[rng.choice(fls)] = "same"
    order = list(fls)
    rng.shuffle(order)
    for fl in order:
        ops.append({"op": "declare", "flavor": fl, "version": vers[0], "tag": state[fl] == "same" and rng.random() < 0.5,
                    "dir": rng.choice(["in", "in", "none"])})
        declared.add((fl, vers[0]))
        if state[fl] == "same" and not ops[-1]["tag"]:
            ops.append({"op": "assign", "flavor": fl, "version": vers[0]})
        if state[fl] == "other":
            ops.append({"op": "declare", "flavor": fl, "version": vers[1], "tag": True, "dir": "in"})
            declared.add((fl, vers[1]))
    r = rng.random()
    if r < 0.35:
        req = None
    else:
        req = list(fls)
        rng.shuffle(req)
        if rng.random() < 0.3 and len(req) > 2:
            req.pop()
    ops.append({"op": "assignmany", "flavor": None, "version": vers[0], "flavors": req})
    for _ in range(rng.choice([0, 1, 2])):
        r = rng.random()
        if r < 0.5:
            ops.append(gen_assignmany(rng, fls, vers, declared))
        elif r < 0.75:
            ops.append({"op": "unassign", "flavor": rng.choice(fls)})
        else:
            fl, ver = rng.choice(sorted(declared))
            ops.append({"op": "assign", "flavor": fl, "version": ver})
    return gen_target(rng, {"kind": "tags", "stack": rng.choice(STACKNAMES), "name": name, "flavors": fls,
                            "versions": vers, "ops": ops, "moved": rng.choice(["moved", "new place"]),
                            "shape": "tags-many"})


def impl_tags(cases, scratch):
    common.import_eups()
    from eups.Product import Product
    import eups.utils
    DBM = sys.modules["eups.db.Database"]
    devnull = open(os.devnull, "w")
    eups.utils.stdwarn = devnull
    sys.modules["eups.db.ChainFile"].stdwarn = devnull
    out = []
    for n, c in enumerate(cases):
        base = os.path.join(scratch, "t%d" % n)
        root = os.path.join(base, c["stack"])
        db = os.path.join(root, "ups_db")
        cwd = os.path.join(base, "cwd")
        os.makedirs(db)
        os.makedirs(cwd)
        os.chdir(cwd)
        name = c["name"]
        target = c.get("target", "own")
        tagname = c.get("tag", "current")
        tag = "user:" + tagname if target == "user" else tagname
        # the user's tag directory for this stack, the database of a second stack
        usertags = os.path.join(base, "userdata", "_caches_", root[1:])
        otherdb = os.path.join(base, c.get("other", "other"), "ups_db")
        for d in (usertags, otherdb):
            os.makedirs(d)
        tdir = {"own": db, "user": usertags, "other": otherdb}[target]

        def database(dbp, ut):
            DBM._databases.clear()
            return DBM.Database(dbp, ut) if target == "user" else DBM.Database(dbp)

        D = database(db, usertags)

        def snap(Dx, dbp, ut, od):
            td = {"own": dbp, "user": ut, "other": od}[target]
            s = {"vf": {}, "chain": None, "tagged": {}, "chains": {}, "ptags": {}}
            for ver in c["versions"]:
                vf = os.path.join(dbp, name, ver + ".version")
                s["vf"][ver] = split_file(vf) if os.path.exists(vf) else None
            for key, dd in (("own", dbp), ("user", ut), ("other", od)):
                cf = os.path.join(dd, name, tagname + ".chain")
                s["chains"][key] = split_file(cf) if os.path.exists(cf) else None
            s["chain"] = s["chains"][target]
            for fl in c["flavors"]:
                try:
                    if target == "other":
                        # the tag is kept in the database of the other stack: a fresh reader of its chain file
                        cf = os.path.join(td, name, tagname + ".chain")
                        s["tagged"][fl] = (sys.modules["eups.db.ChainFile"].ChainFile(cf).getVersion(fl)
                                           if os.path.exists(cf) else None)
                    else:
                        s["tagged"][fl] = Dx.getTaggedVersion(tag, name, fl)[1]
                except Exception as ex:  # noqa
                    s["tagged"][fl] = None if type(ex).__name__ == "ProductNotFound" else "err:" + type(ex).__name__
            if target != "other" and "target" in c:
                # what a fresh reader of the database finds: the tags of every declared (flavor, version)
                keep = dict(DBM._databases)
                R = database(dbp, ut)
                for fl in c["flavors"]:
                    for ver in c["versions"]:
                        try:
                            q = R.findProduct(name, ver, fl)
                            if q is not None:
                                s["ptags"]["%s|%s" % (fl, ver)] = tag in list(q.tags)
                        except Exception as ex:  # noqa
                            s["ptags"]["%s|%s" % (fl, ver)] = "err:" + type(ex).__name__
                DBM._databases.clear()
                DBM._databases.update(keep)
            return s

        res = {"base": base, "steps": [], "dirs": {"own": os.path.join(db, name), "user": os.path.join(usertags, name),
                                                   "other": os.path.join(otherdb, name)}}
        wr = {"writeableDB": otherdb} if target == "other" else {}
        for op in c["ops"]:
            step = {"listing": listing(base)}
            try:
                if op["op"] == "declare":
                    ver = op["version"]
                    if op["dir"] == "in":
                        pdir = os.path.join(root, op["flavor"], name, ver)
                        tf = os.path.join(pdir, "ups", name + ".table")
                        os.makedirs(os.path.dirname(tf), exist_ok=True)
                        with open(tf, "w") as f:
                            f.write("# t\n")
                        ups_dir = "ups"
                    else:
                        pdir, tf, ups_dir = "none", "none", None
                    step["listing"] = listing(base)
                    step["args"] = [name, ver, op["flavor"], pdir, tf, db, ups_dir]
                    D.declare(Product(name, ver, op["flavor"], pdir, tf,
                                      [tag] if op["tag"] and target != "other" else None, db, ups_dir=ups_dir))
                    if op["tag"] and target == "other":
                        D.assignTag(tag, name, ver, op["flavor"], writeableDB=otherdb)
                elif op["op"] == "assign":
                    D.assignTag(tag, name, op["version"], op["flavor"], **wr)
                elif op["op"] == "assignmany":
                    if op["flavors"] is None:
                        D.assignTag(tag, name, op["version"], **wr)
                    else:
                        D.assignTag(tag, name, op["version"], list(op["flavors"]), **wr)
                elif op["op"] == "unassign":
                    if target == "other":
                        DBM.Database(otherdb).unassignTag(tag, name, op["flavor"])
                    else:
                        D.unassignTag(tag, name, op["flavor"])
                else:
                    D.undeclare(Product(name, op["version"], op["flavor"]))
            except Exception as ex:  # noqa
                step["err"] = errclass(type(ex).__name__)
            step["after"] = snap(D, db, usertags, otherdb)
            res["steps"].append(step)
        moved = os.path.join(base, c["moved"])
        os.rename(root, moved)
        # the user's tags of a stack are filed under the stack's path: they move with it
        mtags = os.path.join(base, "userdata", "_caches_", moved[1:])
        os.makedirs(os.path.dirname(mtags), exist_ok=True)
        os.rename(usertags, mtags)
        mdb = os.path.join(moved, "ups_db")
        res["moved"] = snap(database(mdb, mtags), mdb, mtags, otherdb)
        out.append(res)
        os.chdir(scratch)
        shutil.rmtree(base, ignore_errors=True)
    return out


def parsed_blocks(lines):
    """flavor -> the fields of its block, without who/when"""
    return {fl: block_meaning([l for l in bl if not any(l.startswith(m + " =") for m in META)])
            for fl, bl in blocks_of(lines).items()}


def run_tags(ctx, cases, scratch):
    r = common.in_child(impl_tags, cases, scratch, timeout=1500)
    if r[0] != "ok":
        raise RuntimeError("tags implementation driver failed: %r" % (r,))
    for c, i in zip(cases, r[1]):
        target, tagname = c.get("target", "own"), c.get("tag", "current")
        ctx.count(1, key="%s/%dfl/%dops" % (c.get("shape", "tags"), len(c["flavors"]), min(len(c["ops"]), 9)),
                  nontrivial=("tags", c["name"], tuple(c["flavors"]), json.dumps(c["ops"]), target, tagname))
        ctx.bump("tags-kept-in/" + target)
        small = {k: c[k] for k in ("kind", "stack", "name", "flavors", "versions", "ops", "moved", "shape", "target",
                                   "tag", "other") if k in c}
        # ---- the model, on its own texts: the version files, and the chain files of the tag by directory
        mvf = {v: None for v in c["versions"]}
        mchains = {}
        tdir = i["dirs"][target]
        seen_tagged = set()      # flavors that have been given the tag by an earlier call of this history

        def dbassignin(ver, req):
            # Database.assignTag through the model of the three places a chain file can be kept in
            cs = sorted(mchains.items())
            return "\t".join(["dbassignin", enc(c["name"]), enc(tagname), enc(ver),
                              "~" if req is None else ",".join(enc(x) for x in req), enc_lines(mvf[ver]),
                              enc(i["dirs"]["own"]), "1" if target == "user" else "0",
                              enc(i["dirs"]["user"]) if target == "user" else "~",
                              enc(i["dirs"]["other"]) if target == "other" else "~", str(len(cs))]
                             + [x for d, l in cs for x in (enc(d), enc_lines(l))])
        # ---- the property's oracle: an abstract database
        tagged, prev = {}, {"vf": {v: None for v in c["versions"]}, "chain": None}
        odecl = set()           # the oracle's own account of what is declared: (flavor, version)
        ok = True
        for k, (op, st) in enumerate(zip(c["ops"], i["steps"])):
            ctx.bump("tags-op/" + op["op"])
            fl = op["flavor"]
            aff, aff_vf, expect_err = [fl], [fl], False
            if op["op"] == "assignmany":
                # the flavors the call names (None, the empty list: all) that are declared for the version
                req = op["flavors"]
                aff = [g for g in c["flavors"] if (g, op["version"]) in odecl and (not req or g in req)]
                aff_vf, expect_err = [], not aff
                fl = "all" if not req else "[%s]" % ", ".join(req)
                have = [g for g in aff if tagged.get(g) == op["version"]]
                ctx.bump("tags-many/%s/%s" % (
                    "none" if req is None else "empty" if not req else "list",
                    "no-such-flavor" if not aff else "one-flavor" if len(aff) == 1 else
                    "none-tagged-yet" if not have else "all-tagged-already" if len(have) == len(aff) else
                    "some-tagged-already"))
            if "err" in st and not (expect_err and st["err"] == "NotFound"):
                ctx.fail("tags-op-raises", small, expected=None, observed=st["err"],
                         what="step %d (%s %s) raised %s" % (k, op["op"], fl, st["err"]))
                break
            after = st["after"]
            # model
            if ok:
                mcf = mchains.get(tdir)
                via_dirs = "target" in c        # histories that say where the chain file is kept
                qs = []

                def cfassign(ver, fl=fl):
                    if via_dirs:
                        return lambda: dbassignin(ver, [fl])
                    return lambda: "\t".join(["cfassign", enc(c["name"]), enc(tagname), enc(ver), enc(fl),
                                              enc_lines(mcf)])
                if op["op"] == "declare":
                    ver = op["version"]
                    qs.append(("vf", ver, lambda ver=ver: "\t".join(["declare", "1", enc_list(";", st["listing"]),
                                                                     enc_product(st["args"]), enc_lines(mvf[ver])])))
                    if op["tag"]:
                        qs.append(("dirs" if via_dirs else "cf", None, cfassign(ver)))
                elif op["op"] == "assign":
                    qs.append(("dirs" if via_dirs else "cf", None, cfassign(op["version"])))
                elif op["op"] == "assignmany":
                    ver = op["version"]
                    if via_dirs:
                        qs.append(("dirs", None, lambda ver=ver: dbassignin(ver, op["flavors"])))
                    else:
                        qs.append(("cf", None, lambda ver=ver: "\t".join(
                            ["dbassign", enc(c["name"]), enc(tagname), enc(ver),
                             "~" if op["flavors"] is None else ",".join(enc(x) for x in op["flavors"]),
                             enc_lines(mvf[ver]), enc_lines(mcf)])))
                elif op["op"] == "unassign":
                    if mcf is not None:
                        qs.append(("cf", None, lambda: "\t".join(["cfremove", enc_lines(mcf), enc(fl)])))
                else:
                    ver = op["version"]
                    if mvf[ver] is not None:
                        # undeclare first drops the tags that sit on this flavor and version
                        mt = None
                        if mcf is not None:
                            g = ctx.model(["\t".join(["cfversions", enc(c["name"]), enc(tagname), enc_lines(mcf),
                                                      enc(fl)])])[0].split("\t")
                            mt = dec_val(g[1]) if len(g) > 1 else None
                        if mt == ver and fl in blocks_of(mvf[ver]):
                            qs.append(("cf", None, lambda: "\t".join(["cfremove", enc_lines(mcf), enc(fl)])))
                        qs.append(("vf", ver, lambda ver=ver: "\t".join(["vfremove", enc_lines(mvf[ver]), enc(fl)])))
                for what, ver, mk in qs:
                    line = ctx.model([mk()])[0]
                    f = line.split("\t")
                    ctx.traces_validated += 1
                    if f[0] == "err" and "err" in st and f[1:2] == [st["err"]]:
                        continue            # both refuse; nothing is written
                    if what == "dirs" and f[0] == "ok":
                        mchains = {common.dec(f[k]): dec_lines(f[k + 1]) for k in range(1, len(f) - 1, 2)}
                    else:
                        new = dec_lines(f[1] if len(f) > 1 else "") if f[0] == "ok" else None
                        if new == []:
                            new = None          # the file is removed
                        if what == "vf":
                            mvf[ver] = new
                        elif new is None:
                            mchains.pop(tdir, None)
                        else:
                            mchains[tdir] = new
                    if f[0] != "ok" or "err" in st:
                        ctx.disagree({"case": small, "step": k}, f, st.get("err", "no error"), where="tags-model")
                        ok = False
                        break
                if ok:
                    mine = {"vf": {v: (drop_meta(x) if x is not None else None) for v, x in mvf.items()},
                            "chains": {key: (drop_meta(mchains[d]) if d in mchains else None)
                                       for key, d in sorted(i["dirs"].items())}}
                    theirs = {"vf": {v: (drop_meta(x) if x is not None else None) for v, x in after["vf"].items()},
                              "chains": {key: (drop_meta(x) if x is not None else None)
                                         for key, x in sorted(after["chains"].items())}}
                    if mine != theirs:
                        ctx.disagree({"case": small, "step": k}, mine, theirs, where="tags-texts")
                        ok = False
            # oracle: the abstract database
            if op["op"] == "declare":
                odecl.add((fl, op["version"]))
            elif op["op"] == "undeclare":
                odecl.discard((fl, op["version"]))
            if op["op"] == "declare" and op["tag"]:
                tagged[fl] = op["version"]
            elif op["op"] == "assign":
                tagged[fl] = op["version"]
            elif op["op"] == "assignmany":
                for g in aff:
                    tagged[g] = op["version"]
            elif op["op"] == "unassign":
                tagged.pop(fl, None)
            elif op["op"] == "undeclare" and tagged.get(fl) == op["version"]:
                tagged.pop(fl)
            if op["op"] in ("assign", "assignmany") or (op["op"] == "declare" and op["tag"]):
                others = [g for g in tagged if g not in aff]
                ctx.bump("tags-assign/kept-in-%s/%s" % (target, "other-flavors-tagged-already" if others else
                                                        "no-other-flavor-tagged"))
            for g in c["flavors"]:
                if after["tagged"].get(g) != tagged.get(g):
                    ctx.fail("tagged-version" if g in aff else "chain-rewrite-changes-other-flavor", small,
                             expected=tagged.get(g), observed=after["tagged"].get(g),
                             what="after step %d (%s %s%s) flavor %s has %s = %r, the operations so far give %r"
                                  % (k, op["op"], fl, " " + (op.get("version") or ""), g, tagname, after["tagged"].get(g),
                                     tagged.get(g)))
            # the same through findProduct(...).tags of a fresh reader of the database
            for key, has in sorted(after.get("ptags", {}).items()):
                g, ver = key.split("|")
                if (g, ver) in odecl and has != (tagged.get(g) == ver):
                    ctx.fail("tagged-version" if g in aff else "chain-rewrite-changes-other-flavor", small,
                             expected=tagged.get(g) == ver, observed=has,
                             what="after step %d (%s %s) findProduct(%s, %s).tags %s the tag, the operations so far "
                                  "give %r" % (k, op["op"], fl, ver, g, "holds" if has is True else "does not hold"
                                               if has is False else has, tagged.get(g)))
            # oracle: blocks of the other flavors are unchanged
            for ver in c["versions"]:
                was, now_ = parsed_blocks(prev["vf"][ver]), parsed_blocks(after["vf"][ver])
                for g in c["flavors"]:
                    if g not in aff_vf and was.get(g) != now_.get(g):
                        ctx.fail("rewrite-changes-other-flavor", small, expected=was.get(g), observed=now_.get(g),
                                 what="step %d (%s %s) changed the block of flavor %s in %s.version"
                                      % (k, op["op"], fl, g, ver))
            was, now_ = parsed_blocks(prev["chain"]), parsed_blocks(after["chain"])
            for g in c["flavors"]:
                if g not in aff and was.get(g) != now_.get(g):
                    ctx.fail("chain-rewrite-changes-other-flavor", small, expected=was.get(g), observed=now_.get(g),
                             what="step %d (%s %s) changed the chain entry of flavor %s" % (k, op["op"], fl, g))
            prev = after
        else:
            # the renamed stack reads the same records
            for g in c["flavors"]:
                if i["moved"]["tagged"].get(g) != tagged.get(g):
                    ctx.fail("tagged-version", small, expected=tagged.get(g), observed=i["moved"]["tagged"].get(g),
                             what="after renaming the stack flavor %s has current = %r" % (g, i["moved"]["tagged"].get(g)))
            if parsed_blocks(i["moved"]["chain"]) != parsed_blocks(prev["chain"]):
                ctx.fail("chain-changed-by-move", small, expected=None, observed=None, what="chain file differs")


# ------------------------------------------------------------------ driver

def corpus_cases():
    d = os.path.join(common.ROOT, "corpus", "C16")
    out = []
    if os.path.isdir(d):
        for f in sorted(os.listdir(d)):
            if f.endswith(".json"):
                out.append(json.load(open(os.path.join(d, f)))["input"])
    return out


def run_cases(ctx, cases):
    scratch = os.path.realpath(common.scratch_dir())
    try:
        cod = [c for c in cases if c["kind"] in ("vftext", "cftext")]
        pth = [c for c in cases if c["kind"] in ("canon", "resolve", "vfwrite")]
        stk = [c for c in cases if c["kind"] == "stack"]
        if cod:
            run_codec(ctx, cod, scratch)
        if pth:
            run_paths(ctx, pth, scratch)
        for k in range(0, len(stk), 200):
            run_stack(ctx, stk[k:k + 200], scratch)
        tg = [c for c in cases if c["kind"] == "tags"]
        for k in range(0, len(tg), 200):
            run_tags(ctx, tg[k:k + 200], scratch)
        import c16x
        ca = [c for c in cases if c["kind"] == "chainapi"]
        for k in range(0, len(ca), 500):
            c16x.run_chainapi(ctx, ca[k:k + 500], scratch)
        mc = [c for c in cases if c["kind"] == "macro"]
        for k in range(0, len(mc), 200):
            c16x.run_macro(ctx, mc[k:k + 200], scratch)
    finally:
        shutil.rmtree(scratch, ignore_errors=True)


def setup(ctx):
    ctx.rule = ("codec: version / chain file texts from the writers' grammar with random spacing, case, quoting, "
                "comments, missing fields, duplicate flavors, qualifiers, junk lines and keys before a block, read by "
                "the real readers (names given or not) and written back; paths: symbolic products (15 directory x 15 "
                "ups-dir x 20 table forms incl. all five macros) over a fake file system, through canonicalizePaths, "
                "resolvePaths and addFlavor+write(trimDir); stack: 1-3 flavors per record, directory inside / outside "
                "/ none x table in ups / absolute inside / absolute outside / interned / absolute in the database / "
                "none, stack and outside names with spaces, optional pre-existing block, tags, declared through "
                "Database.declare, stack renamed, then copied; half of the stacks are reached through a symbolic link "
                "(the stack directory is a link, or its parent is), flavors declared through the link or first through "
                "the resolved name and then through the link (second flavor into an existing version file), directory "
                "and table file spelt through the link or the resolved name independently, records read through the "
                "link, through the resolved name, after the rename, after the copy and through a new link to the copy; "
                "each declaration is made from a working directory that is empty / the product directory / its ups "
                "directory / the stack / the directory of the table file / outside; tags: two versions x 2-3 flavors of one product, 4-8 "
                "operations (Database.declare with or without a tag, assignTag, unassignTag, undeclare) on one flavor "
                "at a time while the others already have version blocks and chain entries, and Database.assignTag for a LIST of flavors (any order, a repetition, an undeclared flavor), the empty list or flavors=None while some of the flavors carry the tag already (for that version or another) and others do not (directed family tags-many), stack renamed; "
                "in both tag families the chain file is kept in the product's own database (global tag), in the user's "
                "tag directory (user: tag, Database(db, userTagRoot)) or in the database of a second stack (writeableDB), "
                "flavors tagged one after the other; the chain files of all three places, getTaggedVersion and "
                "findProduct().tags of a fresh reader are compared after every step; in 40% of the stack cases the "
                "outside directory is a sibling of the stack whose name begins with the stack's (or its link's) name "
                "(stack2, stack-extras), and the fake-file-system paths stream holds such directories and table files; "
                "chainapi: one chain file over 2-6 sessions of ChainFile(file) ; setVersion / removeVersion with a list of "
                "flavors, a string or None ; write ; read back by a fresh ChainFile (directed: the list holds flavors that "
                "already have the version first or later in the list); macro: hand-written and VersionFile-API records of "
                "1-2 products x 2-3 flavors whose blocks use the FLAVOR / PROD_ROOT / UPS_DB / UPS_DIR / PROD_DIR macros, "
                "80% with ONE block text for every flavor, directory relative / below PROD_ROOT / deeper / flavor last / "
                "outside / none x table in ups / interned / elsewhere in the stack / via UPS_DIR / via PROD_DIR / none, "
                "3-8 Database.findProduct look-ups of several flavors and products in ONE process in a generated order "
                "with repetitions, stack renamed, asked again in another order by the same process; "
                "non-trivial = at least one block (codec), every paths "
                "case, every stack case; distinct = distinct input")
    ctx.trusted_base = common.COMMON_TRUSTED + [
        "modelled, not verified: python re on ASCII text for the five reader patterns and the five macro patterns, "
        "str.strip / lstrip / lower, os.path.join / dirname / basename / isabs on POSIX, dict insertion order",
        "file existence enters the model as the listing of the scratch tree taken by the harness just before each "
        "step (os.path.exists, isfile and isdir are one oracle); the symbolic links of the scratch tree enter it as "
        "the table (link, os.path.realpath(link)) taken at the same moment, the working directory as os.getcwd()"]
    ctx.assumptions = [
        "symbolic links only on the way to the stack root (the stack directory or a directory above it), none below "
        "it and none on the way to outside products; at most 40 links are followed; paths are normalised",
        "record values are ASCII without hash, newline, carriage return or backslash; they neither begin nor end with "
        "a blank or a double quote (the malformed stream only checks that model and code agree on such values)",
        "flavor names hold no colon (qualifiers are empty)",
        "path components hold no regular-expression metacharacter other than the dot (VersionFile.write splices the "
        "product directory into a pattern); records with such components are checked by the oracle only",
        "versions do not start with LOCAL:"]


def run(ctx):
    setup(ctx)
    ctx.check_theorems()
    if ctx.tier == "thorough":
        ctx.coqchk(["Eupsv.Props.C16"])
    cases = corpus_cases()
    rng = ctx.rng
    for _ in range(ctx.size(2500, 60000)):
        cases.append(gen_codec(rng))
    for _ in range(ctx.size(4000, 100000)):
        cases.append(gen_paths(rng))
    for _ in range(ctx.size(300, 10000)):
        cases.append(gen_stack(rng))
    for _ in range(ctx.size(150, 4000)):
        cases.append(gen_tags(rng))
    import c16x
    for _ in range(ctx.size(100, 3000)):
        cases.append(gen_tags_many(rng))
    for _ in range(ctx.size(400, 10000)):
        cases.append(c16x.gen_chainapi(rng))
    for _ in range(ctx.size(160, 6000)):
        cases.append(c16x.gen_macro(rng))
    for c in [x for x in cases if x["kind"] == "stack"][:2] + [x for x in cases if x["kind"] == "vftext"][:1]:
        ctx.sample(c)
    run_cases(ctx, cases)


def replay(ctx, path):
    setup(ctx)
    obj = json.load(open(path))
    c = obj["input"]
    if isinstance(c, dict) and "case" in c:
        c = c["case"]
    run_cases(ctx, [c])
    bad = [f for f in ctx.failures if not ctx._known(f)] or ctx.disagreements
    print("replay %s: %s" % (path, "still fails" if bad else "passes"))
    for f in ctx.failures[:5]:
        print("  oracle: %s: %s (expected %r, observed %r)" % (f["kind"], f["what"], f["expected"], f["observed"]))
    for d in ctx.disagreements[:3]:
        print("  disagreement at %s: model %r, implementation %r" % (d["where"], d["model"], d["impl"]))
    return 1 if bad else 0
