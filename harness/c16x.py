"""C16, streams over SEVERAL flavors and SEVERAL look-ups in one process (model: coq/Model/RecordsExt.v).

  chainapi   one chain file, several sessions of ChainFile(file, name, tag) ; setVersion(version, flavors) /
             removeVersion(flavors) with a list of flavors (any order, repetitions), a single string or None ;
             write ; the file is then read by a fresh ChainFile.  Against cf_set_versions_opt /
             cf_remove_versions_opt / cf_lines, session by session on the model's own text, and the property's
             oracle: every flavor of the list reads back the version, the others what they had.
  macro      version files whose blocks use the macros (FLAVOR above all) so that several flavors have the SAME
             block text, written by hand or through VersionFile.addFlavor + write ; one process asks
             Database.findProduct for several products and flavors in a generated order with repetitions, the
             stack is renamed, the same process asks again in another order.  Against db_find_seq (the map of
             the single look-up) and the property's oracle: every flavor resolves with its own name at the place
             where the stack is.
"""
import os
import shutil
import sys

import common
from common import enc

import c16 as base

XFLAVORS = ["Linux64", "Darwin", "generic", "DarwinX86", "Linux", "Linux64-gcc 9"]


# ------------------------------------------------------------------ chainapi

def gen_flavor_arg(rng, pool, allow_none):
    """what is handed over as the flavors argument: a list (order and repetitions free), a string, None"""
    r = rng.random()
    if allow_none and r < 0.15:
        return None
    if r < 0.30:
        return rng.choice(pool)
    k = rng.choice([1, 2, 2, 3, 3, len(pool)])
    l = rng.sample(pool, min(k, len(pool)))
    if rng.random() < 0.15:
        l.insert(rng.randrange(len(l) + 1), rng.choice(l))
    return l


def gen_chainapi(rng, directed=None):
    pool = rng.sample(XFLAVORS, rng.choice([2, 3, 3, 4]))
    vers = rng.sample(["1.0", "2.0", "svn 7", "v1_2", "1.0-rc 1"], 2)
    sessions = []
    if directed is None:
        directed = rng.random() < 0.5
    if directed:
        # some flavors already carry the tag (for the version to come, or for the other one); the tag is then set
        # for a list that holds them together with flavors that do not
        first = rng.sample(pool, rng.choice([1, 1, 2]) if len(pool) > 2 else 1)
        sessions.append([["set", vers[0], [f] if rng.random() < 0.5 else f] for f in first])
        if rng.random() < 0.4:
            other = [f for f in pool if f not in first]
            sessions.append([["set", vers[1], rng.sample(other, rng.randrange(1, len(other) + 1))]])
        order = list(pool)
        rng.shuffle(order)
        sessions.append([["set", vers[0], order[:rng.randrange(2, len(order) + 1)]]])
    for _ in range(rng.choice([0, 1, 2, 3] if directed else [2, 3, 4])):
        ops = []
        for _ in range(rng.choice([1, 1, 2, 3])):
            if rng.random() < 0.75:
                if rng.random() < 0.03:
                    ops.append(["set", rng.choice(vers), None])
                else:
                    ops.append(["set", rng.choice(vers), gen_flavor_arg(rng, pool, False)])
            else:
                ops.append(["rm", gen_flavor_arg(rng, pool, True)])
        sessions.append(ops)
    return {"kind": "chainapi", "name": rng.choice(base.NAMES), "tag": rng.choice(["current", "stable", "beta"]),
            "pool": pool, "sessions": sessions, "given": rng.random() < 0.8, "shape": "chainapi",
            "directed": bool(directed)}


def impl_chainapi(cases, scratch):
    common.import_eups()
    from eups.db.ChainFile import ChainFile
    import eups.utils
    devnull = open(os.devnull, "w")
    eups.utils.stdwarn = devnull
    sys.modules["eups.db.ChainFile"].stdwarn = devnull
    out = []
    for n, c in enumerate(cases):
        d = os.path.join(scratch, "a%d" % n)
        os.makedirs(d)
        fn = os.path.join(d, c["tag"] + ".chain")
        res = []
        for ops in c["sessions"]:
            st = {}
            try:
                cf = ChainFile(fn, c["name"], c["tag"]) if c["given"] else ChainFile(fn)
                if not c["given"] and not os.path.exists(fn):
                    cf.name, cf.tag = c["name"], c["tag"]
                for op in ops:
                    if op[0] == "set":
                        cf.setVersion(op[1], op[2])
                    else:
                        cf.removeVersion(op[1])
                cf.write()
            except BaseException as ex:  # noqa  (RecursionError included)
                st["err"] = base.errclass(type(ex).__name__)
            st["lines"] = base.split_file(fn) if os.path.exists(fn) else None
            try:
                back = ChainFile(fn)
                st["read"] = {f: back.getVersion(f) for f in c["pool"]}
                st["flavors"] = sorted(back.getFlavors())
            except Exception as ex:  # noqa
                st["read"] = "err:" + type(ex).__name__
            res.append(st)
        out.append(res)
        shutil.rmtree(d, ignore_errors=True)
    return out


def as_list(x):
    return x if isinstance(x, list) else [x]


def enc_fls(x):
    return "~" if x is None else ";".join(enc(f) for f in as_list(x))


def run_chainapi(ctx, cases, scratch):
    r = common.in_child(impl_chainapi, cases, scratch, timeout=900)
    if r[0] != "ok":
        raise RuntimeError("chainapi implementation driver failed: %r" % (r,))
    for c, i in zip(cases, r[1]):
        small = {k: c[k] for k in ("kind", "name", "tag", "pool", "sessions", "given", "shape", "directed")}
        nlist = sum(1 for s in c["sessions"] for op in s if op[0] == "set" and isinstance(op[-1], list)
                    and len(set(op[-1])) > 1)
        ctx.count(1, key="chainapi/%s/%dfl/%dsessions" % ("directed" if c["directed"] else "random", len(c["pool"]),
                                                          len(c["sessions"])),
                  nontrivial=("chainapi", c["name"], c["tag"], tuple(c["pool"]), str(c["sessions"])) if nlist else None)
        mtext, ok = None, True
        tagged = {}
        for k, (ops, st) in enumerate(zip(c["sessions"], i)):
            before = dict(tagged)
            aborted = False
            for op in ops:
                if op[0] == "set":
                    if op[2] is None:
                        ctx.bump("chainapi-op/set-none")
                        aborted = True          # the call does not return; nothing is written
                        break
                    fl = as_list(op[2])
                    ctx.bump("chainapi-op/set-%s" % ("string" if not isinstance(op[2], list) else "list%d" % min(len(fl), 4)))
                    have = [f for f in fl if tagged.get(f) == op[1]]
                    if isinstance(op[2], list) and len(set(fl)) > 1:
                        ctx.bump("chainapi-set-list/%s" % ("none-tagged-yet" if not have else
                                                           "all-tagged-already" if len(set(have)) == len(set(fl)) else
                                                           "tagged-one-first" if fl[0] in have else "tagged-one-later"))
                    for f in fl:
                        tagged[f] = op[1]
                else:
                    ctx.bump("chainapi-op/rm-%s" % ("none" if op[1] is None else "string" if not isinstance(op[1], list)
                                                   else "list"))
                    for f in (list(tagged) if op[1] is None else as_list(op[1])):
                        tagged.pop(f, None)
            if aborted:
                tagged = before
            # ---- model, on its own text
            if ok:
                q = "\t".join(["cfops", enc(c["name"]) if c["given"] or mtext is None else "~",
                               enc(c["tag"]) if c["given"] or mtext is None else "~", base.enc_lines(mtext),
                               "|".join(",".join([op[0]] + ([enc(op[1]), enc_fls(op[2])] if op[0] == "set"
                                                            else [enc_fls(op[1])])) for op in ops)])
                f = ctx.model([q])[0].split("\t")
                ctx.traces_validated += 1
                if f[0] == "ok":
                    new = base.dec_lines(f[1] if len(f) > 1 else "") or None
                    if "err" in st or base.drop_meta(new or []) != base.drop_meta(st["lines"] or []):
                        ctx.disagree({"case": small, "session": k}, base.drop_meta(new or []),
                                     st.get("err") or base.drop_meta(st["lines"] or []), where="chainapi")
                        ok = False
                    mtext = new
                else:
                    if st.get("err") != (f[1] if len(f) > 1 else None):
                        ctx.disagree({"case": small, "session": k}, f, st.get("err") or st["lines"], where="chainapi")
                        ok = False
            # ---- the property's oracle
            if "err" in st and not aborted:
                ctx.fail("chain-ops-raise", small, expected=None, observed=st["err"],
                         what="session %d %r raised %s" % (k, ops, st["err"]))
                break
            if not isinstance(st["read"], dict):
                ctx.fail("chain-unreadable", small, expected=tagged, observed=st["read"],
                         what="the chain file written in session %d cannot be read back" % k)
                break
            bad = len(ctx.failures)
            for g in c["pool"]:
                if st["read"].get(g) != tagged.get(g):
                    touched = any(op[-1] is None or g in as_list(op[-1]) for op in ops)
                    ctx.fail("tagged-version" if touched else "chain-rewrite-changes-other-flavor", small,
                             expected=tagged.get(g), observed=st["read"].get(g),
                             what="after session %d %r the chain file read back gives flavor %s the version %r, "
                                  "the operations so far give %r" % (k, ops, g, st["read"].get(g), tagged.get(g)))
            if sorted(tagged) != st.get("flavors"):
                ctx.fail("flavors-lost", small, expected=sorted(tagged), observed=st.get("flavors"),
                         what="flavors of the chain file after session %d %r" % (k, ops))
            if len(ctx.failures) > bad:
                break               # later sessions start from a file that is already wrong


# ------------------------------------------------------------------ macro

DIRFORMS = ["rel", "root", "deep", "tail", "out", "none"]
TABFORMS = ["ups", "intern", "absin", "upsdir", "proddir", "none"]


def gen_macro(rng):
    nprod = rng.choice([1, 1, 2])
    names = rng.sample(base.NAMES, nprod)
    fls = rng.sample(XFLAVORS[:5], rng.choice([2, 3, 3]))
    prods = []
    for nm in names:
        df = rng.choice(["rel", "rel", "root", "root", "deep", "tail", "out", "none"])
        tf = rng.choice(["ups", "ups", "intern", "intern", "absin", "upsdir", "proddir", "none"] if df != "none" else
                        ["intern", "absin", "none"])
        if df == "out" and tf == "proddir":
            # resolvePaths defines the PROD_DIR macro only on the way through a relative (or macro-holding) product
            # directory; no command writes that macro into a record, so an outside product is not given one here
            tf = "upsdir"
        prods.append({"name": nm, "version": rng.choice(["1.0", "2.1.b", "v1_2", "svn 7"]),
                      "flavors": rng.sample(fls, rng.randrange(2, len(fls) + 1)), "dir": df, "table": tf,
                      # same: one block text for every flavor (the macro stands for the flavor);
                      # literal: the flavor is written out, every block has its own text
                      "same": rng.random() < 0.8,
                      "how": rng.choice(["text", "text", "api"])})

    def queries():
        qs = []
        # at least two flavors of one product, next to each other in a free order
        p = rng.randrange(nprod)
        two = rng.sample(prods[p]["flavors"], 2)
        qs += [[p, two[0]], [p, two[1]]]
        for _ in range(rng.choice([1, 2, 3, 5])):
            p = rng.randrange(nprod)
            qs.append([p, rng.choice(prods[p]["flavors"])])
        if rng.random() < 0.5:
            rng.shuffle(qs)
        return qs
    return {"kind": "macro", "stack": rng.choice(base.STACKNAMES), "out": rng.choice(base.OUTNAMES),
            "moved": rng.choice(["moved", "new place", "else/where"]), "prods": prods,
            "queries": [queries(), queries()], "shape": "macro"}


def macro_values(p, fl, outd):
    """the three values of the block of flavor fl as they stand in the record"""
    F = "$FLAVOR" if p["same"] else fl
    n, v = p["name"], p["version"]
    d = {"rel": "%s/%s/%s" % (F, n, v), "root": "$PROD_ROOT/%s/%s/%s" % (F, n, v),
         "deep": "pkgs/%s/%s/%s" % (F, n, v), "tail": "pkgs/%s/%s/%s" % (n, v, F),
         "out": "%s/%s/%s/%s" % (outd, F, n, v), "none": "none"}[p["dir"]]
    u, t = {"ups": ("ups", n + ".table"),
            "intern": ("$UPS_DB/%s/%s/%s/ups" % (F, n, v), n + ".table"),
            "absin": ("none", "$PROD_ROOT/site tables/%s/%s.table" % (F, n)),
            "upsdir": ("ups", "$UPS_DIR/%s.table" % n),
            "proddir": ("none", "$PROD_DIR/ups/%s.table" % n),
            "none": ("none", "none")}[p["table"]]
    return d, u, t


def macro_expected(p, fl, root, outd):
    """the property, stated directly: where flavor fl of the product is, for a stack at root"""
    n, v = p["name"], p["version"]
    db = root + "/ups_db"
    d = {"rel": "%s/%s/%s/%s" % (root, fl, n, v), "root": "%s/%s/%s/%s" % (root, fl, n, v),
         "deep": "%s/pkgs/%s/%s/%s" % (root, fl, n, v), "tail": "%s/pkgs/%s/%s/%s" % (root, n, v, fl),
         "out": "%s/%s/%s/%s" % (outd, fl, n, v), "none": "none"}[p["dir"]]
    t = {"ups": "%s/ups/%s.table" % (d, n), "upsdir": "%s/ups/%s.table" % (d, n), "proddir": "%s/ups/%s.table" % (d, n),
         "intern": "%s/%s/%s/%s/ups/%s.table" % (db, fl, n, v, n),
         "absin": "%s/site tables/%s/%s.table" % (root, fl, n), "none": "none"}[p["table"]]
    return {"flavor": fl, "dir": d, "table": t, "extra": "%s/%s/%s/%s" % (db, fl, n, v)}


def impl_macro(cases, scratch):
    common.import_eups()
    from eups.db.VersionFile import VersionFile
    import eups.utils
    DBM = sys.modules["eups.db.Database"]
    devnull = open(os.devnull, "w")
    eups.utils.stdwarn = devnull
    out = []
    for n, c in enumerate(cases):
        b = os.path.join(scratch, "m%d" % n)
        root = os.path.join(b, c["stack"])
        outd = os.path.join(b, c["out"])
        cwd = os.path.join(b, "cwd")
        for d in (os.path.join(root, "ups_db"), outd, cwd):
            os.makedirs(d)
        os.chdir(cwd)
        res = {"base": b, "stages": [], "texts": []}
        try:
            for p in c["prods"]:
                nm, ver = p["name"], p["version"]
                vfile = os.path.join(root, "ups_db", nm, ver + ".version")
                os.makedirs(os.path.dirname(vfile), exist_ok=True)
                for fl in p["flavors"]:
                    e = macro_expected(p, fl, root, outd)
                    if e["dir"] != "none":
                        os.makedirs(e["dir"], exist_ok=True)
                    if e["table"] != "none":
                        os.makedirs(os.path.dirname(e["table"]), exist_ok=True)
                        with open(e["table"], "w") as f:
                            f.write("# table of %s for %s\n" % (nm, fl))
                if p["how"] == "text":
                    with open(vfile, "w") as f:
                        f.write("FILE = version\nPRODUCT = %s\nVERSION = %s\n#*****\n" % (nm, ver))
                        for fl in p["flavors"]:
                            d, u, t = macro_values(p, fl, outd)
                            f.write("\nGroup:\n   FLAVOR = %s\n   QUALIFIERS = \"\"\n   DECLARER = someone\n"
                                    "   DECLARED = long ago\n   PROD_DIR = %s\n   UPS_DIR = %s\n   TABLE_FILE = %s\n"
                                    % (fl, d, u, t))
                        f.write("End:\n")
                else:
                    vf = VersionFile(vfile, nm, ver, readFile=False)
                    for fl in p["flavors"]:
                        d, u, t = macro_values(p, fl, outd)
                        vf.addFlavor(fl, d, t, u)
                    vf.write()

            def stage(label, rootdir, qs):
                DBM._databases.clear()
                os.environ["EUPS_PATH"] = rootdir
                D = DBM.Database(os.path.join(rootdir, "ups_db"))
                st = {"label": label, "root": rootdir, "listing": base.listing(b), "answers": [], "texts": []}
                for p in c["prods"]:
                    vf = os.path.join(rootdir, "ups_db", p["name"], p["version"] + ".version")
                    st["texts"].append(base.split_file(vf) if os.path.exists(vf) else None)
                for pi, fl in qs:
                    p = c["prods"][pi]
                    try:
                        q = D.findProduct(p["name"], p["version"], fl)
                        if q is None:
                            st["answers"].append(None)
                        else:
                            st["answers"].append({"name": q.name, "version": q.version, "flavor": q.flavor, "dir": q.dir,
                                                  "table": q.tablefile, "ups": q.ups_dir, "db": q.db,
                                                  "extra": q.extraProductDir(),
                                                  "table_is_file": bool(q.tablefile) and os.path.isfile(q.tablefile)})
                    except Exception as ex:  # noqa
                        st["answers"].append({"err": base.errclass(type(ex).__name__)})
                res["stages"].append(st)

            stage("written", root, c["queries"][0])
            moved = os.path.join(b, c["moved"])
            os.makedirs(os.path.dirname(moved), exist_ok=True)
            os.rename(root, moved)
            stage("renamed", moved, c["queries"][1])
        except Exception as ex:  # noqa
            res["err"] = type(ex).__name__ + ": " + str(ex)[:200]
        out.append(res)
        os.chdir(scratch)
        shutil.rmtree(b, ignore_errors=True)
    return out


def run_macro(ctx, cases, scratch):
    r = common.in_child(impl_macro, cases, scratch, timeout=900)
    if r[0] != "ok":
        raise RuntimeError("macro implementation driver failed: %r" % (r,))
    qs, keys = [], []
    for n, (c, i) in enumerate(zip(cases, r[1])):
        small = {k: c[k] for k in ("kind", "stack", "out", "moved", "prods", "queries", "shape")}
        if "err" in i:
            raise RuntimeError("macro driver: %s on %r" % (i["err"], small))
        same = any(p["same"] for p in c["prods"])
        ctx.count(1, key="macro/%dprod/%s" % (len(c["prods"]), "same-text" if same else "own-text"),
                  nontrivial=("macro", c["stack"], str(c["prods"]), str(c["queries"])))
        for p in c["prods"]:
            ctx.bump("macro-record/%s-%s/%s/%s" % (p["dir"], p["table"], "same-text" if p["same"] else "own-text", p["how"]))
        for stg, ql in zip(i["stages"], c["queries"]):
            seen = {}
            for pi, fl in ql:
                seen.setdefault(pi, [])
                if fl not in seen[pi]:
                    seen[pi].append(fl)
            ctx.bump("macro-lookups/%d-in-one-process/%d-flavors-of-one-record" % (
                min(len(ql), 8), max(len(v) for v in seen.values())))
            if all(t is not None for t in stg["texts"]):
                fields = ["findseq", common.enc_list(";", stg["listing"]), enc(stg["root"]), base.enc_envf(None, []),
                          str(len(c["prods"]))]
                for p, t in zip(c["prods"], stg["texts"]):
                    fields += [enc(p["name"]), enc(p["version"]), base.enc_lines(t)]
                fields.append(";".join(",".join([enc(c["prods"][pi]["name"]), enc(c["prods"][pi]["version"]), enc(fl)])
                                       for pi, fl in ql))
                qs.append("\t".join(fields))
                keys.append((n, stg["label"]))
    for (n, label), line in zip(keys, ctx.model(qs)):
        c, i = cases[n], r[1][n]
        stg = [x for x in i["stages"] if x["label"] == label][0]
        ql = c["queries"][0 if label == "written" else 1]
        parts = line.split("|") if line else []
        ctx.traces_validated += len(ql)
        for k, ((pi, fl), ans) in enumerate(zip(ql, stg["answers"])):
            m = parts[k] if k < len(parts) else line
            if m.startswith("ok:"):
                p = base.dec_product(m[3:])
                mm = {"name": p[0], "version": p[1], "flavor": p[2], "dir": p[3], "table": p[4], "db": p[5], "ups": p[6]}
            elif m == "none":
                mm = None
            else:
                mm = {"err": m[4:] if m.startswith("err:") else m}
            ii = None if ans is None else {a: b for a, b in ans.items()
                                           if a in ("name", "version", "flavor", "dir", "table", "db", "ups", "err")}
            if mm != ii:
                ctx.disagree({"case": {a: c[a] for a in ("kind", "stack", "out", "moved", "prods", "queries", "shape")},
                              "stage": label, "query": k}, mm, ii, where="macro-find")
    # ---- the property's own oracle
    for c, i in zip(cases, r[1]):
        small = {k: c[k] for k in ("kind", "stack", "out", "moved", "prods", "queries", "shape")}
        outd = os.path.join(i["base"], c["out"])
        for stg, ql in zip(i["stages"], c["queries"]):
            for k, ((pi, fl), got) in enumerate(zip(ql, stg["answers"])):
                p = c["prods"][pi]
                e = macro_expected(p, fl, stg["root"], outd)
                asked = ", ".join("%s %s" % (c["prods"][a]["name"], b) for a, b in ql[:k]) or "nothing"
                where = "%s, look-up %d of the process: %s %s %s (%s dir, %s table, %s); asked before: %s" % (
                    stg["label"], k, p["name"], p["version"], fl, p["dir"], p["table"],
                    "one block text for every flavor" if p["same"] else "own block text", asked)
                if not got or "err" in got:
                    ctx.fail("find-fails", small, expected=e, observed=got, what="findProduct fails (%s)" % where)
                    continue
                if (got["name"], got["version"], got["flavor"]) != (p["name"], p["version"], fl):
                    ctx.fail("identity", small, expected=[p["name"], p["version"], fl], observed=got, what=where)
                kind = {"out": "relocate-outside", "none": "none-stays-none"}.get(p["dir"], "relocate-inside")
                if got["dir"] != e["dir"]:
                    ctx.fail(kind + "/dir", small, expected=e["dir"], observed=got["dir"],
                             what="product directory (%s)" % where)
                tk = "none-stays-none" if p["table"] == "none" else \
                    "relocate-inside" if p["table"] in ("intern", "absin") else kind
                if got["table"] != e["table"]:
                    ctx.fail(tk + "/table", small, expected=e["table"], observed=got["table"],
                             what="table file (%s)" % where)
                elif e["table"] != "none" and not got["table_is_file"]:
                    ctx.fail(tk + "/table-missing", small, expected=e["table"], observed=got["table"],
                             what="resolved table file does not exist (%s)" % where)
                if got["extra"] != e["extra"]:
                    ctx.fail("relocate-inside/extra", small, expected=e["extra"], observed=got["extra"],
                             what="database-held extra directory (%s)" % where)
