"""C17 - an expanded table file reproduces the build-time versions exactly.

Model: coq/Model/ExpandText.v (level A: the TEXT of a table to classified lines and the expanded lines back to text) over
       coq/Model/Expand.v (table.expandTableFile on classified lines) + coq/Model/Setup.v (exact-mode replay)
Theorems: coq/Props/C17.v

One case = one world of harness/setupsim.py (one stack, products p1..pn with random tables) plus
  * a top product whose table is decorated with comments, blank lines, several setup blocks, brace blocks;
  * BUILD   : `setup top v` with the real code in a fresh environment (decisions and reverse calls spied on); the
              worlds include optional dependencies whose own setup fails part-way - after their SETUP_ variable was
              recorded - and is rolled back (a table line using an undefined ${VARIABLE}, a required product that
              does not exist), directly below the top product and deeper.  "What was set up" is, everywhere below,
              what the SETUP_ variables of the environment say after this setup.  The build is also replayed through
              Model/Setup.v (real decisions fed) and the two final environments compared;
  * EXPAND  : the real eups.expandTableFile in the build environment, under two protocols:
                python API        the Eups instance that did the setup expands the table (it still remembers the
                                  products it started and rolled back);
                eups expandtable  a fresh instance (Eups + selectVRO, input stream, output stream, productList, force,
                                  toplevelName), as the command line does;
              each compared (a) CHARACTER FOR CHARACTER with the text the model writes from the TEXT of the table
              (level A in the model: Model/ExpandText.v expand_text_gen - scanner, subSetup argument loop,
              indentation, padding of the pins), and (b) after whitespace normalisation with the text rendered from
              the lines classified in python (level B, kept), both from the build environment, the world as the real
              parser sees it and the raw dependency lists the real getDependencies returns (to that instance);
              a table the model declares outside its grammar is counted (text/outside:<reason>), never skipped
              silently;
  * TEXTS   : further table texts expanded in the same build environment by a fresh instance and by the model
              (expansion only): the top table with its setup lines respelled (command names in other cases, blanks
              and tabs inside the parentheses, quotes, flags -j -k -f flavor -t tag, unknown flags, a flag without its
              argument, brackets split or glued, bare relational expressions, lines naming eups, semicolons,
              unsetupRequired, --external, comments that end in a brace, a file without final line feed, carriage
              returns, a character outside ASCII ...), and - seven worlds in ten - the expanded table itself: the
              RE-EXPANSION of a table that carries the blocks of an earlier expansion (Model/ExpandRe.v), judged by the
              same clauses, the table's own lines being those a reader sees through the old blocks; in four of those
              ten the re-expanded text is what gets installed and replayed (eups expandtable -i run twice);
  * directed: versions NAMED like tags (stable, current, latest, the user name) set up while the tag sits on another
              version of the product; top tables that HAVE BEEN EXPANDED BEFORE by an earlier build (stale pins, versions
              no longer declared, blocks on type != exact, other spellings of the generated lines, envSet lines and a
              flavor conditional behind the setups) - their dependencies are set up one by one, then the table expanded;
  * ENTRANCES and SWITCHES: every case carries the entrance of the fresh-instance expansion - app.expandTableFile called
              as the command calls it (switches by keyword), or the command itself, eups.cmd.EupsCmd(["expandtable",
              "-i", [-N | --noVersionExpressions], [--noExact], [-F], [-p a=v:b=w], <dir>/<top>.table]) which builds
              its own Eups from the environment, infers the product from the file name and renames the text over the
              file - and the two switches expandVersions / addExactBlock, each on or off (both on in three cases of
              four; a directed family has one or both off over lines with constraints of every form).  The instance
              that did the setup expands through app.expandTableFile with the same switches.  The model is
              Model/ExpandOpt.v (expand_text_opt; at the defaults it is expand_text: a theorem); the text is compared
              character for character as before.  With the exact block switched off there is nothing to replay;
              with the expressions switched off the exact block is replayed as always;
  * VERSIONS over the whole legal alphabet (directed family): dashes followed by letters that are also setup flags
              (2.3-jdk11, 1.0-jessie, 1.0-t2, 3.1-k8, 7-f), two dashes, plus signs, on products named by the lines of
              the top table - each with a closure no other line reaches - and below them;
  * EVOLVE  : newer versions declared, `current` moved or removed;
  * REPLAY  : the expanded text written over the installed table (what `expandtable -i` does), then
              `setup --exact top v` in a fresh environment; compared with Model/Setup.v run on the evolved
              world with the decision stream *forced* to the explicit versions of the exact block; the
              decisions the real resolver took are compared with the forced ones.
Oracles (the property text, evaluated on what the real code produced; the first three on the text of each protocol):
  pins-foreign     a line of the exact block names a version that was not set up at expansion time - not recorded in
                   the SETUP_ variables the setup left - nor supplied through the productList
  other-lines      the non-setup lines of the expanded text are the input's, unchanged and in order - in the exact and
                   in the non-exact reading; when the input has itself been expanded before, its own lines are those a
                   reader sees through the blocks the earlier expansion wrote (input_views)
  inexact          the non-exact branch carries every setup line with its original constraint (with eups expandtable -N the
                   user asks for a table without relational expressions: the line, its command, product, flags and a
                   version that is the original or the set-up one are still demanded, the expression is not)
  exact-reproduces-missing / -extra   conflict-free build => the replay records every build-time version / nothing else
(an expansion that raises is not judged: the property speaks about tables that were expanded; such cases are counted in
the input distribution as .../raise and still compared with the model)
"""
import io
import json
import os
import re
import shutil
import sys

import common
import setupsim
from common import enc

PID = "C17"
FLAVOR = setupsim.FLAVOR
NPROC = 16
IMPLICIT = "implicitProducts"


class OutOfGrammar(Exception):
    pass


# ------------------------------------------------------------------ level A in python: classify the lines of a table

BLANK_RE = re.compile(r"^\s*(#.*)?$")
# a setup command as the table reader (Table._read) accepts it - and as expandTableFile recognises it since
# proposed_fixes/C17-setup-line-spelling: the name in any case, blanks in front of the parenthesis, arguments separated
# by commas or white space
SETUP_RE = re.compile(r'(?i)(setupRequired|setupOptional)\s*\("?([^"]*)"?\)')


def classify(line):
    """one text line -> ["B"] | ["C", text] | ["O", text] | ["S", optional, name, flags, version, rest, logical, orig]
    following the scanner of expandTableFile and the argument parser of its subSetup"""
    if BLANK_RE.search(line):
        t = line.strip()
        return ["C", t] if t else ["B"]
    s = re.sub(r"\s*#.*$", "", line)
    m = SETUP_RE.search(s)
    if not m:
        if re.search(r"if\s*\(type\s*==\s*exact\)\s*{", s):
            raise OutOfGrammar("pre-existing exact block")
        return ["O", s.strip()]
    if s.strip() != m.group(0):
        raise OutOfGrammar("text around a setup command: %r" % line)
    args = [a for a in re.split(r"[,\s]+", m.group(2)) if a]
    flags, words = [], []
    i = 0
    while i < len(args):
        a = args[i]
        if re.search(r"^-[fgHmMqrUz]", a):
            if i + 1 == len(args):
                raise OutOfGrammar("flag without argument")
            flags.append("%s %s" % (a, args[i + 1]))
            i += 1
        elif re.search(r"^-[cdejknoPsvtV0-3]", a):
            flags.append(a)
        elif a.startswith("-"):
            raise OutOfGrammar("flag %s" % a)
        else:
            mat = re.search(r"^\[\s*(.*)\s*\]?$", a)
            if mat:
                words.append("[")
                a = mat.group(1)
            mat = re.search(r"^(.*)\s*\]$", a)
            if mat:
                words += [mat.group(1), "]"]
            else:
                words.append(a)
        i += 1
    if not words or args[0] != words[0] or words[0] in ("eups", "["):
        raise OutOfGrammar("the product name must come first: %r" % line)
    name = words.pop(0)
    version = words.pop(0) if words and words[0] != "[" else None
    logical = None
    if "[" in words and "]" in words:
        left, right = words.index("["), words.index("]")
        logical = " ".join(words[left + 1:right])
        del words[left:right + 1]
    if "[" in words or "]" in words:
        raise OutOfGrammar("stray bracket")
    return ["S", m.group(1).lower() == "setupoptional", name, flags, version, words, logical, m.group(0)]


def enc_line(c):
    if c[0] == "B":
        return "B"
    if c[0] in ("C", "O"):
        return "%s,%s" % (c[0], enc(c[1]))
    _, opt, name, flags, version, rest, logical, orig = c
    return ",".join(["S", "1" if opt else "0", enc(name), common.enc_list(";", flags),
                     "!" if version is None else enc(version), common.enc_list(";", rest),
                     "!" if logical is None else enc(logical), enc(orig)])


def norm_text(text):
    """whitespace normalisation of a table text: lines stripped, blank runs collapsed, empty lines dropped"""
    out = []
    for ln in text.split("\n"):
        ln = re.sub(r"\s+", " ", ln.strip())
        if ln:
            out.append(ln)
    return out


# ------------------------------------------------------------------ generator

OTHER_LINES = ["envSet(FOO_%d, bar)", "envPrepend(PYTHONPATH, ${PRODUCT_DIR}/python%d)", "addAlias(al%d, echo hi)",
               "envAppend(MANPATH, ${PRODUCT_DIR}/man%d)   # trailing comment"]
COMMENTS = ["# a comment", "   # indented comment", "#", "# setupRequired(ghost 1.0)"]


def is_setup_line(s):
    return bool(SETUP_RE.search(re.sub(r"\s*#.*$", "", s))) and not BLANK_RE.search(s)


def decorate(rng, lines, flavors=(FLAVOR, FLAVOR, "Darwin")):
    """spread the setup lines of a table over several blocks, add comments / blanks / brace blocks"""
    out = []
    k = 0
    for ln in lines:
        r = rng.random()
        if is_setup_line(ln):
            if r < 0.2:
                out.append(rng.choice(COMMENTS))
            elif r < 0.3:
                out.append("")
            elif r < 0.5:
                k += 1
                out.append(rng.choice(OTHER_LINES) % k)
            if rng.random() < 0.15:
                out.append("if (flavor == %s) {" % rng.choice(list(flavors)))
                out.append("   " + ln + ("   # why" if rng.random() < 0.3 else ""))
                if rng.random() < 0.3:
                    out.append("")
                out.append("}")
            else:
                if rng.random() < 0.12:
                    ln = respell_valid(rng, ln)[1]
                out.append(("  " if rng.random() < 0.2 else "") + ln + ("  # note" if rng.random() < 0.15 else ""))
        else:
            out.append(ln)
            if r < 0.15:
                out.append("")
    if rng.random() < 0.3:
        out.append(rng.choice(["", "# the end"]))
    return out


# ---- spellings of setup lines

SETUP_LINE_RE = re.compile(r"^(\s*)(setupRequired|setupOptional)\(([^()\",]*)\)(.*)$")


def respell_valid(rng, ln):
    """another spelling of a setup line that the table reader (Table._read) takes for the same command (tag and
    flavor flags aside); (kind, line)"""
    m = SETUP_LINE_RE.match(ln)
    if not m:
        return None, ln
    ind, cmd, args, tail = m.groups()
    words = args.split()
    if not words:
        return None, ln
    k = rng.choice(["trail-blank", "two-blanks", "quoted", "flag-k", "flag-f", "flag-t", "lead-blank", "case", "bracket-blanks",
                    "trail-blank", "two-blanks", "flag-k", "flag-f", "flag-t", "case", "blank-paren", "commas", "case-blank-commas"])
    if k == "trail-blank":
        return k, "%s%s(%s )%s" % (ind, cmd, args, tail)
    if k == "two-blanks" and len(words) > 1:
        return k, "%s%s(%s)%s" % (ind, cmd, "  ".join(words), tail)
    if k == "quoted":
        return k, '%s%s("%s")%s' % (ind, cmd, args, tail)
    if k == "flag-k":
        return k, "%s%s(%s -k)%s" % (ind, cmd, args, tail)
    if k == "flag-f":
        return k, "%s%s(%s -f %s%s)%s" % (ind, cmd, words[0], FLAVOR, "".join(" " + w for w in words[1:]), tail)
    if k == "flag-t" and len(words) == 1:
        return k, "%s%s(%s -t current)%s" % (ind, cmd, args, tail)
    if k == "lead-blank":
        return k, "%s%s( %s)%s" % (ind, cmd, args, tail)
    if k == "case":
        return k, "%s%s(%s)%s" % (ind, rng.choice([cmd.lower(), cmd.upper(), cmd[0].upper() + cmd[1:]]), args, tail)
    if k == "blank-paren":
        return k, "%s%s %s(%s)%s" % (ind, cmd, rng.choice(["", " ", "\t"]), args, tail)
    if k == "commas" and len(words) > 1:
        return k, "%s%s(%s)%s" % (ind, cmd, rng.choice([", ", ",", " , "]).join(words), tail)
    if k == "case-blank-commas":
        return k, "%s%s (%s)%s" % (ind, rng.choice([cmd.lower(), cmd.upper()]), ", ".join(words), tail)
    if k == "bracket-blanks" and "[" in args and "]" in args:
        return k, "%s%s(%s)%s" % (ind, cmd, args.replace("[", "[ ").replace("]", " ]"), tail)
    return None, ln


WILD = ["semicolon", "unsetup", "tab", "paren", "external", "unknown-flag", "flag-no-arg", "flag-arg-j", "stray-bracket",
        "glued-bracket", "no-name", "only-flag", "no-close", "two-commands", "relational", "relational-glued", "eups",
        "eups-expr", "eups-blank", "nosuch", "name-last", "dash-word", "quoted-version", "empty-bracket", "text-before"]


def respell_wild(rng, ln):
    """a spelling expandTableFile may or may not follow: (kind, line)"""
    m = SETUP_LINE_RE.match(ln)
    if not m:
        return None, ln
    ind, cmd, args, tail = m.groups()
    words = args.split()
    if not words:
        return None, ln
    n = words[0]
    k = rng.choice(WILD)
    new = {
        "semicolon": "%s(%s);" % (cmd, args),
        "unsetup": "un%s(%s)" % (cmd, args),
        "tab": "%s(%s)" % (cmd, "\t".join(words)),
        "paren": "%s(%s (x))" % (cmd, args),
        "external": "%s(%s --external)" % (cmd, args),
        "unknown-flag": "%s(%s -x --frob -B)" % (cmd, args),
        "flag-no-arg": "%s(%s -f)" % (cmd, args),
        "flag-arg-j": "%s(%s -f -j)" % (cmd, args),
        "stray-bracket": "%s(%s ] 1.0)" % (cmd, n),
        "glued-bracket": "%s(%s[>= 1.0])" % (cmd, n),
        "no-name": "%s()" % cmd,
        "only-flag": "%s(-j)" % cmd,
        "no-close": "%s(%s" % (cmd, args),
        "two-commands": "%s(%s) setupOptional(p1)" % (cmd, args),
        "relational": "%s(%s >= 1.0 junk)" % (cmd, n),
        "relational-glued": "%s(%s >1.0)" % (cmd, n),
        "eups": "%s(eups)" % cmd,
        "eups-expr": "%s(eups >= 1.0)   # need a recent eups" % cmd,
        "eups-blank": "%s( eups 1.0)" % cmd,
        "nosuch": "setupOptional(nosuch%s)" % rng.choice(["", " 1.0", " -j", " [>= 2]"]),
        "name-last": "%s(-j %s)" % (cmd, n),
        "dash-word": "%s(%s [-j 1.0])" % (cmd, n),
        "quoted-version": '%s(%s "1.0")' % (cmd, n),
        "empty-bracket": "%s(%s [])" % (cmd, n),
        "text-before": "x = %s(%s)" % (cmd, args),
    }[k]
    return k, ind + new + (tail if k not in ("eups-expr", "no-close") else "")


FILE_FORMS = ["no-final-newline", "crlf", "non-ascii", "comment-brace-first", "rbrace-first", "exact-comment",
              "manual-exact-block", "not-exact-block", "only-comments", "empty", "else-chain", "vtab"]


def vary_text(rng, lines):
    """one further text made from the lines of the top table: [kinds], text"""
    lines = [ln for ln in lines]
    kinds = []
    setups = [i for i, ln in enumerate(lines) if SETUP_LINE_RE.match(ln)]
    rng.shuffle(setups)
    for i in setups[:rng.choice([1, 1, 2, 3])]:
        k, new = (respell_wild if rng.random() < 0.65 else respell_valid)(rng, lines[i])
        if k:
            kinds.append(k)
            lines[i] = new
    if rng.random() < 0.3:
        k = rng.choice(["eups", "eups-expr"])
        kinds.append(k + "-line")
        lines.insert(rng.randrange(len(lines) + 1), {"eups": "setupRequired(eups)",
                                                     "eups-expr": "setupOptional(eups [>= 1.0])"}[k])
    text = "\n".join(lines) + "\n"
    if rng.random() < 0.35:
        f = rng.choice(FILE_FORMS)
        kinds.append(f)
        if f == "no-final-newline":
            text = text[:-1]
        elif f == "crlf":
            text = text.replace("\n", "\r\n")
        elif f == "non-ascii":
            text = "# caf\xe9\n" + text
        elif f == "comment-brace-first":
            text = "# settings {\n" + text
        elif f == "rbrace-first":
            text = "}\n" + text
        elif f == "exact-comment":
            text = text + "# if (type == exact) {\n"
        elif f == "manual-exact-block":
            text = "if (type == exact) {\n   setupRequired(p1 -j 1.0)\n} else {\n   setupRequired(p1)\n}\n" + text
        elif f == "not-exact-block":
            text = text + "if (type != exact) {\n   setupOptional(p1)\n}\n"
        elif f == "only-comments":
            text = "# nothing here\n\n   # at all\n"
        elif f == "empty":
            text = ""
        elif f == "else-chain":
            text = text + "if (flavor == %s) {\n   envSet(C17_A, b)\n} else {\n   setupOptional(p1 [>= 1.0])\n\n}\n" % FLAVOR
        elif f == "vtab":
            text = text.replace("(FOO_", "(\x0bFOO_").replace("\n#", "\n \x0c#")
    return {"kinds": sorted(set(kinds)) or ["plain"], "text": text}


def failing_line(rng, name):
    """a table line on which the setup of product name fails - after its SETUP_ variable was recorded, and after the
    lines in front of it were executed: an environment variable that is not defined, or a required dependency that
    cannot be found"""
    up = name.upper()
    return rng.choice(["envSet(%s_CONF, ${%s_SITE_DIR}/conf)" % (up, up),
                       "envSet(%s_CONF, ${%s_SITE_DIR}/conf)" % (up, up),
                       "envPrepend(PATH, ${%s_SITE_DIR}/bin)" % up,
                       "envAppend(LD_LIBRARY_PATH, ${C17_NOT_DEFINED})",
                       "setupRequired(zz)", "setupRequired(zz 1.0)", "setupRequired(zz -j)",
                       "setupRequired(p1 9.9)" if name != "p1" else "setupRequired(zz)",
                       "setupRequired(p1 9.9 [>= 9.0])" if name != "p1" else "setupRequired(zz)"])


def sabotage(rng, world, top):
    """make the setup of one product below top fail part-way (in some or all of its versions), and most of the lines
    that ask for it optional: the dependency is started, recorded, and rolled back"""
    names = sorted(world["products"])
    below = [n for n in names if n < top]
    if not below:
        return None
    victim = rng.choice(below)
    vs = sorted(world["products"][victim])
    hit = [v for v in vs if rng.random() < 0.75] or [rng.choice(vs)]
    for v in hit:
        lines = world["products"][victim][v]
        bad = failing_line(rng, victim)
        lines.insert(rng.randrange(len(lines) + 1) if rng.random() < 0.6 else len(lines), bad)
    for n in names:
        if n <= victim:
            continue
        for v, lines in world["products"][n].items():
            for i, ln in enumerate(lines):
                if re.match(r"setupRequired\(%s[ )]" % victim, ln) and rng.random() < 0.85:
                    lines[i] = "setupOptional" + ln[len("setupRequired"):]
    return victim


def gen_case(rng):
    world = setupsim.gen_world(rng, nprod=rng.choice([3, 4, 5, 5]))
    names = sorted(world["products"])
    # the top product: prefer one that has setup lines
    cands = [(n, v) for n in names for v in sorted(world["products"][n])
             if any(is_setup_line(x) for x in world["products"][n][v])]
    if cands and rng.random() < 0.95:
        top, topv = rng.choice(cands[-6:] if rng.random() < 0.7 else cands)
    else:
        top = rng.choice(names)
        topv = rng.choice(sorted(world["products"][top]))
    if rng.random() < 0.2:
        sabotage(rng, world, top)
    lines = list(world["products"][top][topv])
    # a few extra forms on the top table: relative versions, an unknown product, a second mention
    others = [n for n in names if n < top]            # lower products only: the graph stays acyclic
    if others and rng.random() < 0.35:
        d = rng.choice(others)
        form = rng.choice(["%s >= 1.0", "%s 2.0 [>= 1.0 || == 0.5]", "%s -j 1.0", "%s", "%s [>= 2.0]", "%s 1.0 junk"])
        kind = rng.choice(["setupRequired", "setupOptional", "setupOptional"])
        lines.insert(rng.randrange(len(lines) + 1), "%s(%s)" % (kind, form % d))
    if rng.random() < 0.15:
        lines.insert(rng.randrange(len(lines) + 1), "setupOptional(nosuch%s)" % rng.choice(["", " 1.0"]))
    world["products"][top][topv] = decorate(rng, lines)
    plist = {}
    if others and rng.random() < 0.12:
        d = rng.choice(others)
        plist[d] = rng.choice(sorted(world["products"][d]) + ["9.9"])
    force = rng.random() < 0.1
    # evolution of the database between expansion and replay
    ops = []
    for n in names:
        r = rng.random()
        if r < 0.45:
            src = rng.choice(sorted(world["products"][n]))
            ops.append({"op": "declare", "name": n, "version": "4.0", "lines": list(world["products"][n][src])
                        if (n, src) != (top, topv) else [], "current": rng.random() < 0.75})
        elif r < 0.65:
            ops.append({"op": "current", "name": n, "version": rng.choice(sorted(world["products"][n]))})
        elif r < 0.75:
            ops.append({"op": "uncurrent", "name": n})
    rng.shuffle(ops)
    table = world["products"][top][topv]
    texts = [vary_text(rng, table) for _ in range(rng.choice([1, 1, 2]))]
    return {"world": world, "top": top, "topv": topv, "plist": plist, "force": force, "evolve": ops, "texts": texts,
            "reexpand": rng.random() < 0.7, "install_reexpanded": rng.random() < 0.4}


def gen_generic(rng, prods):
    """the products of a directed family that are declared under the fall-back flavor generic (all their versions):
    none in two worlds out of three, else each with probability 1/2 - chains of such products included"""
    return sorted(n for n in prods if rng.random() < 0.5) if rng.random() < 0.35 else []


def gen_shared_case(rng):
    """directed family: an optional dependency that is declared but cannot be set up, listed BEFORE a required sibling
    with which it shares a dependency that has dependencies of its own.
        p5 (top) -> p4;   p4 -> setupOptional(p3), setupRequired(p2);   p3 -> p2 and something missing;   p2 -> p1
    Table.dependencies descends into p2 only where it meets it first - below p3, which is not set up - so the closure
    of p4 must still contain p1, reached nowhere else."""
    P = "envPrepend(PATH, ${PRODUCT_DIR}/bin)"
    v1, v2, v3, v4, v5 = (rng.choice(setupsim.VERSIONS) for _ in range(5))
    kind_top = rng.choice(["setupRequired", "setupRequired", "setupOptional"])
    missing = rng.choice(["setupRequired(zz)", "setupRequired(zz 1.0)", "setupRequired(p1 9.9 [>= 9.0])"])
    p3_lines = [P, "setupRequired(p2)", missing]
    if rng.random() < 0.5:
        p3_lines = [P, missing, "setupRequired(p2)"]
    p2_lines = [P, "setupRequired(p1%s)" % rng.choice(["", " " + v1])]
    if rng.random() < 0.3:
        p2_lines.append("envSet(P2_HOME, ${PRODUCT_DIR}/home)")
    p4_lines = [P, "setupOptional(p3%s)" % rng.choice(["", " " + v3]), "setupRequired(p2%s)" % rng.choice(["", " " + v2])]
    if rng.random() < 0.3:
        p4_lines.insert(2, "envAppend(LD_LIBRARY_PATH, ${PRODUCT_DIR}/lib)")
    prods = {"p1": {v1: [P]}, "p2": {v2: p2_lines}, "p3": {v3: p3_lines}, "p4": {v4: p4_lines},
             "p5": {v5: decorate(rng, [P, "%s(p4%s)" % (kind_top, rng.choice(["", " " + v4]))])}}
    if rng.random() < 0.4:                  # a second, unrelated version of the shared product's dependency
        other = rng.choice([v for v in setupsim.VERSIONS if v != v1])
        prods["p1"][other] = [P]
    world = {"root": "stack", "products": prods,
             "current": {"p1": v1, "p2": v2, "p3": v3, "p4": v4, "p5": v5}, "generic": gen_generic(rng, prods)}
    ops = []
    for n in sorted(prods):
        r = rng.random()
        if r < 0.5:
            ops.append({"op": "declare", "name": n, "version": "4.0", "lines": [P], "current": rng.random() < 0.8})
        elif r < 0.6:
            ops.append({"op": "uncurrent", "name": n})
    rng.shuffle(ops)
    return {"world": world, "top": "p5", "topv": v5, "plist": {}, "force": False, "evolve": ops, "reexpand": True}


def gen_failed_optional_case(rng):
    """directed family: an optional dependency whose own setup fails part-way, at depth 1, 2 or 3 below the top product.
        p1  shared leaf          p2  needed only by p3          p3  the product whose table cannot be executed to the end
        p7 (top) -> p4, p5;  p5 -> p1;  p4 -> p1 and (p3 | p6 -> p3);  or p7 -> p3 directly
    One link of the chain from the top product down to p3 is optional, the links below it are (mostly) required: the
    failure of p3 (undefined ${VARIABLE}, or a required product that does not exist) travels up to that link, and
    everything that was set up below it - recorded in SETUP_ variables on the way - is rolled back."""
    P = "envPrepend(PATH, ${PRODUCT_DIR}/bin)"
    v = {n: rng.choice(setupsim.VERSIONS) for n in ("p1", "p2", "p3", "p4", "p5", "p6", "p7")}

    def link(kind, name):
        return "%s(%s%s)" % (kind, name, rng.choice(["", "", " " + v[name]]))
    depth = rng.choice([1, 2, 2, 3])
    chain = {1: ["p7", "p3"], 2: ["p7", "p4", "p3"], 3: ["p7", "p4", "p6", "p3"]}[depth]
    k = rng.randrange(len(chain) - 1)                   # the optional link: chain[k] -> chain[k + 1]
    kinds = []
    for i in range(len(chain) - 1):
        if i == k:
            kinds.append("setupOptional")
        elif i < k:
            kinds.append(rng.choice(["setupRequired", "setupRequired", "setupOptional"]))
        else:
            kinds.append(rng.choice(["setupRequired"] * 4 + ["setupOptional"]))
    tables = {n: [P] for n in v}
    if rng.random() < 0.4:
        tables["p1"].append("envSet(P1_HOME, ${PRODUCT_DIR}/home)")
    if rng.random() < 0.5:
        tables["p2"].append("setupRequired(p1)")
    tables["p5"].append(link("setupRequired", "p1"))
    tables["p4"].append(link("setupRequired", "p1"))
    tables["p7"].append(link("setupRequired", "p5"))
    if depth == 1:
        tables["p7"].append(link("setupRequired", "p4"))
    if rng.random() < 0.3:
        tables["p6"].append(link("setupRequired", "p1"))
    # p3: its own dependencies, some lines of its own, and the line that fails
    x = [P]
    if rng.random() < 0.7:
        x.append(link("setupRequired", "p1"))
    if rng.random() < 0.6:
        x.append(link(rng.choice(["setupRequired", "setupOptional"]), "p2"))
    if rng.random() < 0.4:
        x.append("addAlias(run_p3, echo p3)")
    if rng.random() < 0.4:
        x.append("envSet(P3_HOME, ${PRODUCT_DIR}/home)")
    rng.shuffle(x)
    x.insert(rng.randrange(len(x) + 1) if rng.random() < 0.5 else len(x), failing_line(rng, "p3"))
    tables["p3"] = x
    for i in range(len(chain) - 1):
        t = tables[chain[i]]
        t.insert(rng.randrange(1, len(t) + 1), link(kinds[i], chain[i + 1]))
    if depth > 1 and rng.random() < 0.25:               # the top table names the failing product as well
        tables["p7"].insert(rng.randrange(1, len(tables["p7"]) + 1), link("setupOptional", "p3"))
    used = {"p1", "p2", "p3", "p4", "p5", "p7"} | ({"p6"} if depth == 3 else set())
    prods = {n: {v[n]: tables[n]} for n in sorted(used)}
    prods["p7"][v["p7"]] = decorate(rng, tables["p7"], flavors=(FLAVOR,))
    if rng.random() < 0.4:
        other = rng.choice([u for u in setupsim.VERSIONS if u != v["p1"]])
        prods["p1"][other] = [P]
    if rng.random() < 0.3:                              # another version of p3 that could be set up, not current
        other = rng.choice([u for u in setupsim.VERSIONS if u != v["p3"]])
        prods["p3"][other] = [P]
    world = {"root": "stack", "products": prods, "current": {n: v[n] for n in prods}, "generic": gen_generic(rng, prods)}
    ops = []
    for n in sorted(prods):
        r = rng.random()
        if r < 0.5:
            ops.append({"op": "declare", "name": n, "version": "4.0", "lines": [P], "current": rng.random() < 0.8})
        elif r < 0.6:
            ops.append({"op": "uncurrent", "name": n})
    rng.shuffle(ops)
    return {"world": world, "top": "p7", "topv": v["p7"], "plist": {}, "force": False, "evolve": ops, "reexpand": True}


def gen_spelling_case(rng):
    """directed family: the setup lines of the top table in the spellings the table reader accepts - the command name
    in another case, blanks in front of the parenthesis, commas between the arguments - over a small graph, followed by
    newer current versions of everything:   p4 (top) -> p3, p2;   p3 -> p1;   p2 -> p1"""
    P = "envPrepend(PATH, ${PRODUCT_DIR}/bin)"
    v = {n: rng.choice(setupsim.VERSIONS) for n in ("p1", "p2", "p3", "p4")}

    def spell(cmd, args):
        cmd = rng.choice([cmd, cmd.lower(), cmd.upper(), cmd[0].upper() + cmd[1:]])
        words = args.split()
        sep = rng.choice([" ", " ", ", ", ","]) if len(words) > 1 else " "
        return "%s%s(%s)" % (cmd, rng.choice(["", "", " ", "  "]), sep.join(words))
    top = [P,
           spell("setupRequired", "p3" + rng.choice(["", " " + v["p3"], " " + v["p3"] + " [>= 1.0]", " >= 1.0"])),
           rng.choice(OTHER_LINES) % 1,
           spell(rng.choice(["setupRequired", "setupOptional"]), "p2" + rng.choice(["", " " + v["p2"], " -j " + v["p2"]]))]
    if rng.random() < 0.4:
        top.append(spell("setupOptional", "nosuch" + rng.choice(["", " 1.0"])))
    prods = {"p1": {v["p1"]: [P]}, "p2": {v["p2"]: [P, "setupRequired(p1)"]}, "p3": {v["p3"]: [P, "setupRequired(p1 %s)" % v["p1"]]},
             "p4": {v["p4"]: decorate(rng, top, flavors=(FLAVOR,)) if rng.random() < 0.5 else top}}
    world = {"root": "stack", "products": prods, "current": {n: v[n] for n in prods}, "generic": gen_generic(rng, prods)}
    ops = [{"op": "declare", "name": n, "version": "4.0", "lines": [P], "current": True} for n in ("p1", "p2", "p3")
           if rng.random() < 0.8]
    rng.shuffle(ops)
    return {"world": world, "top": "p4", "topv": v["p4"], "plist": {}, "force": False, "evolve": ops,
            "texts": [vary_text(rng, prods["p4"][v["p4"]])], "reexpand": False}


# ---- versions over the whole legal alphabet

# A version is any text without blanks (and, on a table line, without brackets or a leading dash): letters, digits,
# dots, underscores, plus signs - and dashes, followed by anything: 2.3-jdk11, 1.0-jessie (dash j), 1.0-t2 and 3.1-k8
# (other flag letters), 2.0--1 (two dashes), 1.2+4, v1_2-rc1, 7-f.  Ordinary versions are mixed in.
DASH_VERSIONS = ["2.3-jdk11", "1.0-jessie", "12-jenkins3", "1.5-j", "0.9-java8", "1.0-t2", "3.1-k8", "2.0--1", "1.1--j2",
                 "v1_2-rc1", "7-f", "1.2+4", "1.2+4-jre", "2.0-external", "1.0-B", "6.0-r2-j1"]


def gen_version_alphabet_case(rng):
    """directed family: products set up at versions drawn from the whole legal alphabet (dashes followed by letters that
    are also setup flags: -j -t -k -f -r, two dashes, plus signs), named on the lines of the top table and below them.
        p6 (top) -> p5, p4 [, p1];   p5 -> p3;   p4 -> p2;   p3 -> p1;   p2 -> p1 (sometimes)
    so that every line of the top table names a product with a closure of its own that no other line reaches."""
    P = "envPrepend(PATH, ${PRODUCT_DIR}/bin)"
    names = ("p1", "p2", "p3", "p4", "p5", "p6")
    v = {n: (rng.choice(DASH_VERSIONS) if rng.random() < 0.6 else rng.choice(setupsim.VERSIONS)) for n in names}
    v["p6"] = rng.choice(setupsim.VERSIONS)

    def req(n):
        return rng.choice(["%s", "%s", "%s %s", "%s >= 0.1", "%s %s [>= 0.1]"]).replace("%s", n, 1).replace("%s", v[n])
    tables = {"p1": [P], "p2": [P], "p3": [P, "setupRequired(%s)" % req("p1")], "p4": [P, "setupRequired(%s)" % req("p2")],
              "p5": [P, "setupRequired(%s)" % req("p3")]}
    if rng.random() < 0.4:
        tables["p2"].append("setupRequired(%s)" % req("p1"))
    if rng.random() < 0.3:
        tables["p4"].append("envSet(P4_HOME, ${PRODUCT_DIR}/home)")
    top = [P, "setupRequired(%s)" % req("p5"), rng.choice(OTHER_LINES) % 1,
           "%s(%s)" % (rng.choice(["setupRequired", "setupOptional"]), req("p4"))]
    if rng.random() < 0.25:
        top.append("setupRequired(%s)" % req("p1"))
    if rng.random() < 0.25:
        top.insert(1, "setupOptional(nosuch)")
    prods = {n: {v[n]: tables[n]} for n in tables}
    for n in ("p1", "p2", "p3"):
        if rng.random() < 0.4:                  # another version, ordinary or not, that is not current
            other = rng.choice([u for u in DASH_VERSIONS + setupsim.VERSIONS if u != v[n]])
            prods[n][other] = list(tables[n])
    prods["p6"] = {v["p6"]: decorate(rng, top, flavors=(FLAVOR,)) if rng.random() < 0.5 else top}
    world = {"root": "stack", "products": prods, "current": {n: v[n] for n in prods}, "generic": gen_generic(rng, prods)}
    ops = []
    for n in ("p1", "p2", "p3", "p4", "p5"):
        r = rng.random()
        if r < 0.6:
            ops.append({"op": "declare", "name": n, "version": rng.choice(["4.0", "4.0", "9.9-jumbo"]),
                        "lines": [P], "current": rng.random() < 0.85})
        elif r < 0.7:
            ops.append({"op": "uncurrent", "name": n})
    rng.shuffle(ops)
    return {"world": world, "top": "p6", "topv": v["p6"], "plist": {}, "force": False, "evolve": ops,
            "texts": [vary_text(rng, prods["p6"][v["p6"]])] if rng.random() < 0.5 else [],
            "reexpand": rng.random() < 0.5, "install_reexpanded": rng.random() < 0.3}


def gen_switch_case(rng):
    """directed family for the switches of the entrances (app.expandTableFile keywords, eups expandtable -N / --noExact):
    a top table whose lines carry constraints of every form - bare, a version, a relational expression, a version with a
    bracketed expression - over a chain with newer current versions declared afterwards
        p4 (top) -> p3, p2;   p3 -> p1;   p2 -> p1"""
    P = "envPrepend(PATH, ${PRODUCT_DIR}/bin)"
    v = {n: rng.choice(setupsim.VERSIONS) for n in ("p1", "p2", "p3", "p4")}

    def req(n):
        return rng.choice(["%s", "%s %s", "%s >= 0.1", "%s %s [>= 0.1]", "%s [>= 0.1]", "%s >= 0.1", "%s %s [>= 0.1 || == 0.05]"]
                          ).replace("%s", n, 1).replace("%s", v[n])
    top = [P, "setupRequired(%s)" % req("p3"), rng.choice(OTHER_LINES) % 1,
           "%s(%s)" % (rng.choice(["setupRequired", "setupOptional"]), req("p2"))]
    if rng.random() < 0.3:
        top.append("setupOptional(nosuch [>= 1.0])")
    if rng.random() < 0.3:
        top.insert(1, "")
    prods = {"p1": {v["p1"]: [P]}, "p2": {v["p2"]: [P, "setupRequired(%s)" % req("p1")]},
             "p3": {v["p3"]: [P, "setupRequired(p1 %s)" % v["p1"]]},
             "p4": {v["p4"]: decorate(rng, top, flavors=(FLAVOR,)) if rng.random() < 0.5 else top}}
    world = {"root": "stack", "products": prods, "current": {n: v[n] for n in prods}, "generic": gen_generic(rng, prods)}
    ops = [{"op": "declare", "name": n, "version": "4.0", "lines": [P], "current": True} for n in ("p1", "p2", "p3")
           if rng.random() < 0.8]
    rng.shuffle(ops)
    ev, ab = rng.choice([(False, True), (False, True), (True, False), (True, False), (False, False)])
    return {"world": world, "top": "p4", "topv": v["p4"], "plist": {}, "force": False, "evolve": ops,
            "texts": [vary_text(rng, prods["p4"][v["p4"]])] if rng.random() < 0.4 else [],
            "reexpand": rng.random() < 0.6, "install_reexpanded": rng.random() < 0.3,
            "opts": {"ev": ev, "ab": ab, "via": rng.choice(["app", "cmd"]), "long": rng.random() < 0.3}}


def gen_opts(rng):
    """the entrance and its switches for a case of any family: app.expandTableFile or the eups expandtable command, each
    switch on (three cases in four: both) or off"""
    r = rng.random()
    ev, ab = (True, True) if r < 0.75 else (False, True) if r < 0.87 else (True, False) if r < 0.96 else (False, False)
    return {"ev": ev, "ab": ab, "via": "cmd" if rng.random() < 0.35 else "app", "long": rng.random() < 0.3,
            "explicit": rng.random() < 0.5}


# ---- versions named like tags

# names the tag registry recognises: global tags (current, stable, latest) and the user's own tag (the user name)
TAG_NAMES = ["stable", "stable", "current", "latest", "root"]


def gen_tagname_case(rng):
    """directed family: a product is set up at a version whose NAME is also the name of a recognised tag (a build called
    stable, current, latest, or named after the user), while - for stable and current - that tag is assigned to ANOTHER
    version of the same product.  What is set up is what the SETUP_ variable records: the version of that name.
        p4 (top) -> p3, p2;   p3 -> p1;   p2 -> p1        victims: one or two of p1, p2, p3"""
    P = "envPrepend(PATH, ${PRODUCT_DIR}/bin)"
    v = {n: rng.choice(setupsim.VERSIONS) for n in ("p1", "p2", "p3", "p4")}
    victims = rng.sample(["p1", "p2", "p3"], rng.choice([1, 1, 2]))
    prods = {n: {v[n]: [P]} for n in v}
    current = {n: v[n] for n in v}
    tags = {}
    req = {n: rng.choice(["", "", " " + v[n]]) for n in v}           # how the tables ask for each product
    for n in victims:
        tn = rng.choice(TAG_NAMES)
        prods[n][tn] = [P]
        if tn == "current":
            req[n] = " current"                                      # the tag current stays on the other version
        elif tn == "stable":
            tags.setdefault("stable", {})[n] = v[n]                  # the tag stable sits on the other version
            if rng.random() < 0.6:
                current[n] = tn
                req[n] = ""
            else:
                req[n] = " stable"
        else:
            if rng.random() < 0.5:
                current[n] = tn
                req[n] = ""
            else:
                req[n] = " " + tn
        if rng.random() < 0.3:                                       # a third, ordinary version
            prods[n][rng.choice([u for u in setupsim.VERSIONS if u != v[n]])] = [P]
    for n in ("p2", "p3"):
        for ver in prods[n]:
            prods[n][ver] = [P, "setupRequired(p1%s)" % req["p1"]]
    top = [P, "setupRequired(p3%s)" % req["p3"], rng.choice(OTHER_LINES) % 1,
           "%s(p2%s)" % (rng.choice(["setupRequired", "setupOptional"]), req["p2"])]
    if rng.random() < 0.35:
        # a line with -j (p2 alone, without its dependency p1) in front of an ordinary line in the same run of setup lines
        # (p3, which brings p1): whether a line carries -j is a matter of that line alone
        top = [P, "setupRequired(p2 -j%s)" % req["p2"], "setupRequired(p3%s)" % req["p3"]]
    if rng.random() < 0.3:
        top.append("setupRequired(p1%s)" % req["p1"])
    prods["p4"] = {v["p4"]: decorate(rng, top, flavors=(FLAVOR,)) if rng.random() < 0.5 else top}
    world = {"root": "stack", "products": prods, "current": current, "generic": gen_generic(rng, prods), "tags_by_tag": tags}
    ops = []
    for n in ("p1", "p2", "p3"):
        r = rng.random()
        if r < 0.5:
            ops.append({"op": "declare", "name": n, "version": "4.0", "lines": list(prods[n][v[n]]), "current": rng.random() < 0.8})
        elif r < 0.7:
            ops.append({"op": "current", "name": n, "version": v[n]})
        if n in tags.get("stable", {}) and rng.random() < 0.3:
            ops.append({"op": "tag", "tag": "stable", "name": n, "version": rng.choice(sorted(prods[n]))})
    rng.shuffle(ops)
    return {"world": world, "top": "p4", "topv": v["p4"], "plist": {}, "force": False, "evolve": ops,
            "texts": [], "reexpand": rng.random() < 0.5, "install_reexpanded": rng.random() < 0.3}


def gen_just_below_case(rng):
    """directed family: a product is set up ALONE (-j) by a line of a DEPENDENCY's table - directly below the top table
    or one level further down - and the table that is expanded names the same product on a line of its own, before or
    after the line that brings that dependency (or not at all, or itself with -j).  Table.dependencies does not descend
    below a -j line, so what lies below the product is reached through the top table's own line only.
        p1 leaf;  p2 -> p1 (sometimes);  p3 -> p2 (and sometimes p1);  p4 -> p3 -j;  p5 -> p4;  p6 (top) -> p4 | p5, p3
    The build is made of several requests, as a developer makes them: the dependency that brings p3 alone and then what
    p3 needs, or p3 first (with what it needs) and then that dependency."""
    P = "envPrepend(PATH, ${PRODUCT_DIR}/bin)"
    v = {n: rng.choice(setupsim.VERSIONS) for n in ("p1", "p2", "p3", "p4", "p5", "p6")}

    def link(kind, name):
        return "%s(%s%s)" % (kind, name, rng.choice(["", "", " " + v[name]]))
    just = rng.choice(["setupRequired(p3 -j)", "setupRequired(p3 -j)", "setupOptional(p3 -j)", "setupRequired(p3 -j %s)" % v["p3"],
                       "setupRequired(-j p3)"])
    tables = {n: [P] for n in v}
    if rng.random() < 0.5:
        tables["p2"].append(link("setupRequired", "p1"))
    needs = ["p2"]
    tables["p3"].append(link(rng.choice(["setupRequired", "setupRequired", "setupOptional"]), "p2"))
    if rng.random() < 0.3:
        tables["p3"].insert(rng.randrange(1, 3), link("setupRequired", "p1"))
        needs.append("p1")
    tables["p4"].append(just)
    if rng.random() < 0.3:
        tables["p4"].insert(rng.randrange(1, 3), link("setupRequired", "p1"))
    tables["p5"].append(link("setupRequired", "p4"))
    via = rng.choice(["p4", "p4", "p5"])
    how = rng.choice(["later", "later", "later", "earlier", "earlier", "absent", "just"])
    kind3 = rng.choice(["setupRequired", "setupRequired", "setupOptional"])
    l_via, l_p3 = link("setupRequired", via), link(kind3, "p3")
    if how == "just":
        l_p3 = "%s(p3 -j%s)" % (kind3, rng.choice(["", " " + v["p3"]]))
    top = [P] + {"later": [l_via, l_p3], "earlier": [l_p3, l_via], "absent": [l_via], "just": [l_via, l_p3]}[how]
    if rng.random() < 0.4:
        top.insert(rng.randrange(1, len(top) + 1), rng.choice(OTHER_LINES) % 3)
    if how in ("absent", "just"):
        build = [[via, None]]
    elif rng.random() < 0.6:
        build = [[via, None]] + [[n, None] for n in needs]
    else:
        build = [["p3", rng.choice([None, v["p3"]])], [via, None]]
    used = ["p1", "p2", "p3", "p4", "p6"] + (["p5"] if via == "p5" else [])
    prods = {n: {v[n]: tables[n]} for n in used}
    prods["p6"][v["p6"]] = decorate(rng, top, flavors=(FLAVOR,)) if rng.random() < 0.5 else top
    for n in ("p1", "p2"):
        if rng.random() < 0.3:                  # another version, not current
            prods[n][rng.choice([u for u in setupsim.VERSIONS if u != v[n]])] = list(tables[n])
    world = {"root": "stack", "products": prods, "current": {n: v[n] for n in prods}, "generic": gen_generic(rng, prods)}
    ops = []
    for n in ("p1", "p2", "p3", "p4"):
        r = rng.random()
        if r < 0.6:
            ops.append({"op": "declare", "name": n, "version": "4.0", "lines": list(tables[n]) if rng.random() < 0.5 else [P],
                        "current": rng.random() < 0.8})
        elif r < 0.7:
            ops.append({"op": "uncurrent", "name": n})
    rng.shuffle(ops)
    return {"world": world, "top": "p6", "topv": v["p6"], "plist": {}, "force": False, "evolve": ops, "texts": [],
            "reexpand": rng.random() < 0.5, "install_reexpanded": rng.random() < 0.3, "build_deps": build}


JUST_ARG_RE = re.compile(r"\(\s*(?:-j\s+)?([^\s,()-][^\s,()]*)")


def just_below_keys(case, records):
    """histogram keys: products that a set-up dependency's table sets up alone (-j), by how the top table names them"""
    top, topv = case["top"], case["topv"]
    prods = case["world"]["products"]
    top_lines = [strip_comment(ln) for ln in prods[top][topv]]
    keys = set()
    for n, ver in sorted(records.items()):
        if n == top or ver not in prods.get(n, {}):
            continue
        for ln in prods[n][ver]:
            m = JUST_ARG_RE.search(ln) if is_setup_line(ln) and re.search(r"\s-j\b", ln) else None
            if not m or m.group(1) not in records:
                continue
            x = m.group(1)
            mine = [i for i, t in enumerate(top_lines) if is_setup_line(t) and re.search(r"\(\s*(-j\s+)?%s[\s,)]" % re.escape(x), t)]
            bring = [i for i, t in enumerate(top_lines) if is_setup_line(t) and i not in mine]
            if not mine:
                keys.add("not-named-by-the-top-table")
            elif all(re.search(r"\s-j\b", top_lines[i]) for i in mine):
                keys.add("named-by-the-top-table-with-j")
            else:
                keys.add("named-by-the-top-table-" + ("after" if bring and min(bring) < min(mine) else "before") + "-other-setup-lines")
    return sorted(keys)


# ---- tables that have been expanded before

def reexpansion_shape(text):
    """histogram keys for a table that carries blocks of an earlier expansion: where its exact block stands, and
    whether commands other than setups follow it"""
    lines = [strip_comment(ln) for ln in text.split("\n") if not BLANK_RE.search(ln)]
    lines = [x for x in lines if x]
    at = [i for i, ln in enumerate(lines) if IF_EXACT_RE.match(ln)]
    if not at:
        return ["no-exact-block"]
    i = at[0]
    keys = ["exact-block-" + ("first-line" if i == 0 else "after-setups" if lines[i - 1] == "}" or SETUP_RE.search(lines[i - 1])
                              else "after-other-lines")]
    j = i
    while j < len(lines) and lines[j] != "}":
        j += 1
    rest = [ln for ln in lines[j + 1:] if not SETUP_RE.search(ln)]
    if rest:
        keys.append("commands-after-the-exact-block")
    if any(re.match(r"^if\s*\(flavor", ln) for ln in rest):
        keys.append("flavor-conditional-after-the-exact-block")
    if any(IF_NOT_EXACT_RE.match(ln) for ln in lines):
        keys.append("not-exact-blocks")
    return keys


def gen_installed_case(rng):
    """directed family: the table of the top product HAS BEEN EXPANDED BEFORE, in another environment (the installed
    table of a product that is built and packaged again): it carries an exact block with the versions pinned then -
    other versions than those set up now, versions that are not declared any more - possibly blocks on type != exact
    in front, and other commands (envSet lines, a flavor conditional) behind the setup lines.
        p4 (top) -> p3, p2;   p3 -> p1;   p2 -> p1"""
    P = "envPrepend(PATH, ${PRODUCT_DIR}/bin)"
    v = {n: rng.choice(setupsim.VERSIONS) for n in ("p1", "p2", "p3", "p4")}
    prods = {"p1": {v["p1"]: [P]}, "p2": {v["p2"]: [P, "setupRequired(p1)"]}, "p3": {v["p3"]: [P, "setupRequired(p1 %s)" % v["p1"]]}}
    for n in ("p1", "p2"):
        if rng.random() < 0.5:                  # an older version, which the earlier expansion pinned
            old = rng.choice([u for u in setupsim.VERSIONS if u != v[n]])
            prods[n][old] = list(prods[n][v[n]])

    def old_version(n):
        return rng.choice(sorted(prods[n]) + ["0.9"])

    def line(kind, n):
        form = rng.choice(["%s", "%s %s [>= %s]", "%s %s", "%s [>= 1.0]"])
        return "%s(%s)" % (kind, form % ((n,) + (v[n],) * (form.count("%s") - 1)))
    sp = rng.choice([0, 0, 0, 1, 2])            # spelling of the generated lines
    if_exact = ["if (type == exact) {", "if(type==exact){", "if (type == exact) {   # written by expandtable"][sp]
    if_not = ["if (type != exact) {", "if(type!=exact){", "if (type  !=  exact)  {"][sp]
    els = ["} else {", "}else{", "} else {   # the original setups"][sp]
    out = list(rng.choice([[], [], ["# top table"], [P], ["# top table", "", P], [rng.choice(OTHER_LINES) % 7]]))
    k2 = rng.choice(["setupRequired", "setupOptional"])
    if rng.random() < 0.4:                      # two setup blocks: the first was guarded by type != exact
        out += [if_not, "   " + line("setupRequired", "p3"), "}", rng.choice(OTHER_LINES) % 1]
        last = [line(k2, "p2")]
    else:
        last = [line("setupRequired", "p3"), line(k2, "p2")]
        if rng.random() < 0.3:
            last.insert(1, "# and")
    pins = ["setupRequired(%-15s -j %s)" % (n, old_version(n)) for n in rng.sample(["p3", "p2", "p1"], rng.choice([1, 2, 3, 3]))]
    ind = rng.choice(["   ", "   ", ""])
    out += [if_exact] + [ind + x for x in pins] + [els] + [ind + x for x in last] + ["}"]
    tail = rng.choice([0, 1, 2, 2, 3])
    if tail >= 1:
        out.append("envSet(TOP_MARKER, yes)")
    if tail >= 2:
        out += ["if (flavor == %s) {" % FLAVOR, "   envSet(TOP_FLAVOR, mine)", "} else {", "   envSet(TOP_FLAVOR, other)", "}"]
    if tail >= 3:
        out.append(rng.choice(OTHER_LINES) % 2)
    prods["p4"] = {v["p4"]: out}
    world = {"root": "stack", "products": prods, "current": {n: v[n] for n in prods}, "generic": gen_generic(rng, prods)}
    ops = [{"op": "declare", "name": n, "version": "4.0", "lines": list(prods[n][v[n]]), "current": True} for n in ("p1", "p2", "p3")
           if rng.random() < 0.7]
    rng.shuffle(ops)
    return {"world": world, "top": "p4", "topv": v["p4"], "plist": {}, "force": False, "evolve": ops,
            "texts": [], "reexpand": True, "install_reexpanded": rng.random() < 0.5,
            "build_deps": [["p3", rng.choice([None, v["p3"]])]] + ([["p2", None]] if k2 == "setupRequired" or rng.random() < 0.7 else [])}


# ------------------------------------------------------------------ implementation (runs in a forked child)

def _fresh_eups(eups, **kw):
    sys.modules["eups.db.Database"]._databases.clear()
    return eups.Eups(quiet=1, setupType=[], **kw)


def _parse_world(eups, e, products, world):
    """what the real table parser makes of every declared product (model world); a version declared after the world
    was built (EVOLVE) lives under the running flavor"""
    parsed = {}
    for name, vs in products.items():
        for v in vs:
            p = e.findProduct(name, v, flavor=(setupsim.flavor_of(world, name) if v in world["products"][name] else FLAVOR))
            tbl = p.getTable()
            # Eups.setup reads the table for the flavor the product was found under (setupFlavor), not the running one
            acts = tbl.actions(p.flavor or FLAVOR, setupType=e.setupType) if tbl else []
            parsed["%s %s" % (name, v)] = {"dir": p.dir, "flavor": p.flavor, "actions": setupsim.model_actions(acts)}
    return parsed


def run_case(case):
    common.import_eups()
    import eups
    world, top, topv = case["world"], case["top"], case["topv"]
    work = common.scratch_dir("c17.")
    out = {}
    try:
        stack, userdata = setupsim.materialise(work, world)
        for tag, where in sorted((world.get("tags_by_tag") or {}).items()):
            for n, v in sorted(where.items()):
                sys.modules["eups.db.Database"]._databases.clear()
                eups.Eups(quiet=1, flavor=setupsim.flavor_of(world, n)).assignTag(tag, n, v)
        base = {"EUPS_PATH": stack, "EUPS_USERDATA": userdata, "EUPS_FLAVOR": FLAVOR, "EUPS_SHELL": "sh",
                "HOME": "/root"}
        out["stack"] = stack
        out["base"] = dict(base)
        log = []
        setupsim.install_decision_spy(log)
        calls = []
        E = eups.Eups
        spied_setup = E.setup

        rolled_back = []            # forward calls that found their product, recorded it, and then failed

        def setup(self, productName, versionName=None, fwd=True, *a, **k):
            calls.append([productName, bool(fwd)])
            idx = len(log)          # where the decision spy notes the version this call decides on
            depth = a[0] if a else k.get("recursionDepth", 0)
            try:
                r = spied_setup(self, productName, versionName, fwd, *a, **k)
            except Exception:
                if fwd and idx < len(log) and log[idx] is not None:
                    rolled_back.append([productName, log[idx], depth])
                raise
            if fwd and not r[0] and idx < len(log) and log[idx] is not None:
                rolled_back.append([productName, log[idx], depth])
            return r
        E.setup = setup

        # ---- BUILD
        os.environ.clear()
        os.environ.update(base)
        e = _fresh_eups(eups)
        # (the shipped VRO starts with type:exact: every setup here reads tables with type == exact).  A top table that
        # carries an exact block of its own - the pins of an earlier build, stale by now - is not built from: its
        # dependencies are set up one by one, as a developer does before building, and the table is then expanded
        deps = case.get("build_deps")
        try:
            if deps:
                ok = True
                for n, ver in deps:
                    e = _fresh_eups(eups)
                    e.selectVRO(None, None, ver, None)
                    ok = e.setup(n, ver)[0] and ok
            else:
                e.selectVRO(None, None, topv, None)
                ok, version, reason = e.setup(top, topv)
        except Exception as ex:  # noqa
            ok = False
        # what is really set up now: the SETUP_ variables of the environment the setup left behind (a failed optional
        # dependency was rolled back; whatever the instance remembers about it is not "set up")
        benv = dict(os.environ) if ok else dict(base)
        out["build"] = {"ok": bool(ok), "env": benv, "records": setupsim.setup_records(benv),
                        "reverse_calls": [c[0] for c in calls if not c[1]], "decisions": list(log),
                        "aliases": dict(e.aliases), "rolled_back": [x for x in rolled_back if x[2] > 0]}
        if not ok:
            return out
        text_in = "\n".join(world["products"][top][topv]) + "\n"

        def raw_deps(e):
            # for every product a line of a table text can resolve to a version: those that are set up, and those the
            # productList names (a superset of what the expansion looks up; the model looks up by (name, version))
            raw = {}
            for n in sorted(set(setupsim.setup_records(benv)) | set(case["plist"])):
                v = case["plist"].get(n) or e.findSetupVersion(n)[0]
                if v and ("%s %s" % (n, v)) not in raw:
                    try:
                        deps = eups.getDependencies(n, v, e, setup=False)
                        raw["%s %s" % (n, v)] = [[d[0], bool(d[2]), int(d[3])] for d in deps]
                    except Exception as ex:  # noqa
                        raw["%s %s" % (n, v)] = "raise:" + type(ex).__name__
            return raw

        opts = case.get("opts") or {}
        ev, ab, via = bool(opts.get("ev", True)), bool(opts.get("ab", True)), opts.get("via", "app")

        def expand_cmdline(text):
            # eups expandtable [-N] [--noExact] [-F] [-p a=1:b=2] -i <dir>/<top>.table : the command makes its own Eups
            # from the environment, reads the file, and renames the expanded text over it
            import eups.cmd
            d = os.path.join(work, "cmdline")
            os.makedirs(d, exist_ok=True)
            path = os.path.join(d, top + ".table")
            with open(path, "w") as f:
                f.write(text)
            args = ["expandtable", "--nolocks", "-q", "-i"]
            if not ev:
                args.append("--noVersionExpressions" if opts.get("long") else "-N")
            if not ab:
                args.append("--noExact")
            if case["force"]:
                args.append("-F")
            if case["plist"]:
                args += ["-p", ":".join("%s=%s" % kv for kv in sorted(case["plist"].items()))]
            args.append(path)
            sys.modules["eups.db.Database"]._databases.clear()
            try:
                status = eups.cmd.EupsCmd(args=args, toolname="eups").run()
            except SystemExit as ex:
                return {"raise": "SystemExit", "msg": str(ex.code)}
            except Exception as ex:  # noqa
                return {"raise": type(ex).__name__, "msg": str(ex)[:300]}
            if status:
                return {"raise": "status", "msg": str(status)}
            with open(path) as f:
                return {"text": f.read()}

        def expand(e, text=None, entrance="app"):
            if text is None:
                text = text_in
            if entrance == "cmd":
                return expand_cmdline(text)
            ofd = io.StringIO()
            try:
                # app.expandTableFile, the switches by keyword as the command line passes them
                kw = {"toplevelName": top}
                if not ev or opts.get("explicit"):
                    kw["expandVersions"] = ev
                if not ab or opts.get("explicit"):
                    kw["addExactBlock"] = ab
                eups.expandTableFile(ofd, io.StringIO(text), dict(case["plist"]), None, e, bool(case["force"]), **kw)
                return {"text": ofd.getvalue()}
            except Exception as ex:  # noqa
                return {"raise": type(ex).__name__, "msg": str(ex)[:300]}

        # ---- EXPAND, python API protocol: the instance that did the setup expands the table, in the environment
        #      that setup left (first the expansion, on the instance exactly as the setup left it; then the dependency
        #      lists that instance reports, for the model)
        out["expand_same"] = expand(e)
        out["env_after_expand_same"] = setupsim.setup_records(dict(os.environ))
        os.environ.clear()
        os.environ.update(benv)
        out["rawdeps_same"] = raw_deps(e)

        # ---- EXPAND, command-line protocol (eups expandtable): a fresh instance in the build environment
        os.environ.clear()
        os.environ.update(benv)
        e = _fresh_eups(eups)
        e.selectVRO(None, None, None, None)
        products0 = {n: sorted(vs) for n, vs in world["products"].items()}
        out["parsed0"] = _parse_world(eups, e, products0, world)
        out["rawdeps"] = raw_deps(e)
        os.environ.clear()
        os.environ.update(benv)
        e = _fresh_eups(eups)
        e.selectVRO(None, None, None, None)
        out["expand"] = expand(e, entrance=via)
        # ---- TEXTS: further table texts, expansion only (fresh instance, build environment)
        texts = [dict(t) for t in case.get("texts", [])]
        if case.get("reexpand") and "text" in out["expand"]:
            texts.append({"kinds": ["re-expansion"] + reexpansion_shape(out["expand"]["text"]), "text": out["expand"]["text"]})
        for t in texts:
            os.environ.clear()
            os.environ.update(benv)
            e = _fresh_eups(eups)
            e.selectVRO(None, None, None, None)
            t["result"] = expand(e, t["text"], entrance=via)
        out["texts"] = texts
        if "raise" in out["expand"] or not ab:
            # (without the exact block - eups expandtable --noExact - there is nothing to replay in exact mode)
            return out
        # the table that is installed and later set up in exact mode: the expanded text - or, where the case says so,
        # the text of its re-expansion (eups expandtable -i run twice; an installed product that is packaged)
        out["installed"] = out["expand"]["text"]
        if case.get("install_reexpanded"):
            for t in texts:
                if t["kinds"][0] == "re-expansion" and "text" in t["result"]:
                    out["installed"] = t["result"]["text"]

        # ---- EVOLVE
        os.environ.clear()
        os.environ.update(base)
        products1 = {n: list(vs) for n, vs in products0.items()}
        for op in case["evolve"]:
            e = _fresh_eups(eups)
            n = op["name"]
            try:
                if op["op"] == "declare":
                    d = os.path.join(stack, FLAVOR, n, op["version"])
                    os.makedirs(os.path.join(d, "ups"))
                    with open(os.path.join(d, "ups", n + ".table"), "w") as f:
                        f.write("\n".join(op["lines"]) + "\n")
                    e.declare(n, op["version"], d, tag=("current" if op["current"] else None))
                    products1[n].append(op["version"])
                elif op["op"] == "current":
                    e.assignTag("current", n, op["version"])
                elif op["op"] == "uncurrent":
                    e.unassignTag("current", n)
                elif op["op"] == "tag":
                    e.assignTag(op["tag"], n, op["version"])
            except Exception as ex:  # noqa  (e.g. untagging a product that has no current version)
                pass
        with open(os.path.join(stack, setupsim.flavor_of(world, top), top, topv, "ups", top + ".table"), "w") as f:
            f.write(out["installed"])

        # ---- REPLAY in exact mode
        os.environ.clear()
        os.environ.update(base)
        e = _fresh_eups(eups, exact_version=True)
        e.selectVRO(None, None, topv, None)
        out["exact_flag"] = bool(e.exact_version)
        out["parsed1"] = _parse_world(eups, e, products1, world)
        os.environ.clear()
        os.environ.update(base)
        del log[:]
        del calls[:]
        e = _fresh_eups(eups, exact_version=True)
        e.selectVRO(None, None, topv, None)
        try:
            ok, version, reason = e.setup(top, topv)
            outcome = "ok" if ok else "fail"
        except Exception as ex:  # noqa
            ok, outcome = False, "raise:" + type(ex).__name__
        after = dict(os.environ)
        out["replay"] = {"ok": bool(ok), "outcome": outcome, "after": after if ok else dict(base),
                         "aliases": dict(e.aliases), "decisions": list(log),
                         "records": setupsim.setup_records(after) if ok else {}}
        return out
    finally:
        shutil.rmtree(work, ignore_errors=True)


def run_chunk(cases):
    res = []
    for c in cases:
        r = common.in_child(run_case, c, timeout=300)
        res.append(r)
    return res


# ------------------------------------------------------------------ reading an expanded text back (for the oracles)

PIN_RE = re.compile(r"^(setupRequired|setupOptional)\((\S+) -j (\S+)\)$")
# the lines an expansion adds around setup lines, as a reader of the table recognises them (blanks are free)
IF_EXACT_RE = re.compile(r"^if\s*\(type\s*==\s*exact\)\s*{$")
IF_NOT_EXACT_RE = re.compile(r"^if\s*\(type\s*!=\s*exact\)\s*{$")
ELSE_RE = re.compile(r"^}\s*else\s*{$")


def split_views(lines):
    """normalised lines of an expanded table -> (pins, inexact view, exact view, ok)
    The generated blocks hold only setup lines and comments, so the first lone closing brace ends them."""
    pins, inexact, exact = [], [], []
    mode = None
    for ln in lines:
        if mode is None:
            if IF_EXACT_RE.match(ln):
                mode = "pins"
            elif IF_NOT_EXACT_RE.match(ln):
                mode = "inexact"
            else:
                inexact.append(ln)
                exact.append(ln)
        elif mode == "pins":
            if ELSE_RE.match(ln):
                mode = "inexact"
            elif ln == "}":             # a block on type == exact without else branch
                mode = None
            else:
                pins.append(ln)
                exact.append(ln)
        else:
            if ln == "}":
                mode = None
            else:
                inexact.append(ln)
    return pins, inexact, exact, mode is None


def input_views(in_lines):
    """the two readings of the table that is expanded - it may itself be an expanded table, whose blocks on the
    expansion type are not lines of its own: (inexact view, exact view, ok), comments and blank lines dropped"""
    norm = [strip_comment(ln) for ln in in_lines if not BLANK_RE.search(ln)]
    _pins, inexact, exact, ok = split_views([x for x in norm if x])
    return inexact, exact, ok


def strip_comment(ln):
    return re.sub(r"\s+", " ", re.sub(r"\s*#.*$", "", ln).strip())


def constraint(c):
    """(explicit version, expression) of a classified setup line; a relative version is an expression"""
    _, _opt, _name, _flags, version, rest, logical, _orig = c
    if version is not None and re.search(r"<=?|>=?|==", version):
        return None, " ".join([version] + rest)
    return version, logical


def oracle_text(case, built, text, in_lines=None, clauses=(1, 2, 3)):
    """the clauses that speak about the expanded text alone: (1) pins, (2) other lines, (3) non-exact branch
    With eups expandtable -N (expandVersions off) the user asks for a table without relational expressions: clause (3)
    then still demands every setup line, its command, product, flags, and a version that is the original or the set-up one,
    but not the expression.  With --noExact (addExactBlock off) the clauses are unchanged: the whole text is what a reader
    sees in either mode."""
    top, topv = case["top"], case["topv"]
    want_expressions = bool((case.get("opts") or {}).get("ev", True))
    if in_lines is None:
        in_lines = case["world"]["products"][top][topv]
    lines = norm_text(text)
    pins, inexact, exact, ok = split_views(lines)
    if not clauses:
        return
    if not ok:
        yield ("other-lines", None, lines, "the generated blocks of the expanded table do not close")
    # (1) the exact block pins only versions that were set up
    pinned = {}
    for p in pins:
        if p.startswith("#"):
            continue
        m = PIN_RE.match(p)
        if not m:
            yield ("pins-foreign", None, p, "a line of the exact block is not of the form cmd(name -j version)")
            continue
        n, v = m.group(2), m.group(3)
        pinned[n] = v
        if built.get(n) != v and case["plist"].get(n) != v:
            yield ("pins-foreign", built.get(n), v,
                   "the exact block pins %s %s, which was not set up at expansion time (set up: %s)" % (n, v, built.get(n)))
    if 2 not in clauses:
        return
    # (2) lines other than setup commands pass unchanged, in order (comment text and blank lines aside)
    #     When the table that is expanded has been expanded before, the blocks on the expansion type it carries are not
    #     lines of its own: a reader in either mode sees through them, before and after.
    in_inexact, in_exact, in_ok = input_views(in_lines)
    if not in_ok:
        return                          # the input's own blocks do not close: no reading to compare with
    for view, in_view, name in ((inexact, in_inexact, "inexact"), (exact, in_exact, "exact")):
        want = [ln for ln in in_view if not SETUP_RE.search(ln)]
        got = [ln for ln in view if not ln.startswith("#") and not SETUP_RE.search(ln)]
        if got != want:
            yield ("other-lines", want, got, "the non-setup lines seen in %s mode differ from the input's" % name)
    if 3 not in clauses:
        return
    # (3) the non-exact branch keeps every setup line with its constraint
    want_s = [classify(ln) for ln in in_inexact if SETUP_RE.search(ln)]
    got_s = [ln for ln in inexact if SETUP_RE.search(ln) and not ln.startswith("#")]
    if len(want_s) != len(got_s):
        yield ("inexact", len(want_s), got_s, "the non-exact branch has %d setup lines, the input %d" % (len(got_s), len(want_s)))
    else:
        for w, g in zip(want_s, got_s):
            try:
                c = classify(g)
            except OutOfGrammar:
                yield ("inexact", w[7], g, "unreadable rewritten line")
                continue
            _, opt, name, flags, version, rest, logical, _orig = w
            if (c[1], c[2], c[3]) != (opt, name, flags):
                yield ("inexact", w[7], g, "command, product or flags changed")
                continue
            version, expr = constraint(w)
            gversion, gexpr = constraint(c)
            if expr and gexpr != expr and want_expressions:
                yield ("inexact", w[7], g, "the original expression [%s] is not carried" % expr)
            if version and name not in case["plist"] and gversion != version:
                yield ("inexact", w[7], g, "the original version %s is not carried" % version)
            if gversion is not None and gversion not in (version, case["plist"].get(name), built.get(name)):
                yield ("inexact", w[7], g, "the rewritten line names version %s, neither the original one nor the "
                       "set-up one" % gversion)


PROTOCOLS = (("expand", "rawdeps", "eups expandtable (fresh instance)"),
             ("expand_same", "rawdeps_same", "python API (the instance that did the setup)"))


def oracle(case, res):
    """the property's clauses on the real outputs; yields (kind, expected, observed, what)"""
    b = res["build"]
    # what was set up at expansion time: the SETUP_ variables of the environment after the setup
    built = b["records"]
    conflict_free = not b["reverse_calls"]
    if res.get("expand") is None:
        return
    top, topv = case["top"], case["topv"]
    if res.get("env_after_expand_same", built) != built:
        yield ("expansion-changes-setup", built, res["env_after_expand_same"],
               "expanding the table changed what is set up")
    judged = []
    for key, _rawkey, proto in PROTOCOLS:
        x = res.get(key)
        if x is None or "raise" in x:
            # the property speaks about tables that were expanded: a refusal to expand (a required line whose product
            # is not set up, a required dependency of a set-up product that is not set up) is counted, not judged
            continue
        if x["text"] in judged:             # both protocols wrote the same text: judged once
            continue
        judged.append(x["text"])
        for kind, expected, observed, what in oracle_text(case, built, x["text"]):
            yield (kind, expected, observed, "%s [%s]" % (what, proto))
    x = res["expand"]
    if "raise" in x:
        return
    # (4) exact mode reproduces the build
    r = res.get("replay")
    if r is not None and conflict_free and not case["plist"]:
        if not r["ok"]:
            yield ("exact-reproduces-missing", built, r["outcome"], "setup --exact from the expanded table fails")
        else:
            missing = {n: v for n, v in built.items() if r["records"].get(n) != v}
            extra = {n: v for n, v in r["records"].items() if n not in built and not (case.get("build_deps") and n == top)}
            if missing:
                yield ("exact-reproduces-missing", built, r["records"],
                       "setup --exact from the expanded table does not reproduce %s (it records %s, the build recorded %s)"
                       % (missing, r["records"], built))
            if extra:
                yield ("exact-reproduces-extra", built, r["records"],
                       "setup --exact from the expanded table also sets up %s (it records %s, the build recorded %s)"
                       % (extra, r["records"], built))


# ------------------------------------------------------------------ model side

def expand_line(case, res, rawkey="rawdeps"):
    top, topv = case["top"], case["topv"]
    prods = []
    for key, info in sorted(res["parsed0"].items()):
        name, v = key.split(" ")
        prods.append("%s:%s:%s:%s" % (enc(name), enc(v), enc(info["dir"]), "+".join(info["actions"])))
    lines = [enc_line(classify(ln)) for ln in case["world"]["products"][top][topv]]
    raw = []
    for key, deps in sorted(res[rawkey].items()):
        name, v = key.split(" ")
        if isinstance(deps, str):
            raise OutOfGrammar("getDependencies raised")
        raw.append("%s:%s:%s" % (enc(name), enc(v), "+".join("%s,%s,%d" % (enc(d[0]), "1" if d[1] else "0", d[2]) for d in deps)))
    return "\t".join(["expand", "|".join(prods), common.enc_env(res["build"]["env"]), enc(top),
                      common.enc_env(case["plist"]), "1" if case["force"] else "0", "|".join(lines), "|".join(raw)])


def xtext_line(case, res, text, rawkey="rawdeps"):
    """level A in the model: the TEXT of the table goes to the extracted expand_text_gen"""
    top = case["top"]
    prods = []
    for key, info in sorted(res["parsed0"].items()):
        name, v = key.split(" ")
        prods.append("%s:%s:%s:%s" % (enc(name), enc(v), enc(info["dir"]), "+".join(info["actions"])))
    raw = []
    for key, deps in sorted(res[rawkey].items()):
        name, v = key.split(" ")
        if isinstance(deps, str):
            continue            # getDependencies raised for this product: the model has no list for it (as app.getDependencies)
        raw.append("%s:%s:%s" % (enc(name), enc(v), "+".join("%s,%s,%d" % (enc(d[0]), "1" if d[1] else "0", d[2]) for d in deps)))
    o = case.get("opts") or {}
    f = ["xtext", "|".join(prods), common.enc_env(res["build"]["env"]), enc(top),
         common.enc_env(case["plist"]), "1" if case["force"] else "0", enc(text), "|".join(raw)]
    if not (o.get("ev", True) and o.get("ab", True)):
        # Model/ExpandOpt.v: the expansion with the two switches (at their defaults it is expand_text: a theorem)
        f[0] = "xtextopt"
        f.append("%s,%s" % ("1" if o.get("ev", True) else "0", "1" if o.get("ab", True) else "0"))
    return "\t".join(f)


def xtext_result(line):
    f = line.split("\t")
    if f[0] == "ok":
        return {"text": common.dec(f[1]) if len(f) > 1 else ""}
    if f[0] == "outside":
        return {"outside": f[1]}
    if f[0] == "err":
        return {"raise": f[1]}
    return {"driver": line}


def expand_result(line):
    f = line.split("\t")
    if f[0] == "ok":
        txt = ["" if x == "%" else common.dec(x) for x in (f[1].split("|") if len(f) > 1 and f[1] else [])]
        return {"text": norm_text("\n".join(txt))}
    if f[0] == "err":
        return {"raise": f[1]}
    return {"driver": line}


def forced_decisions(res, top, topv):
    """the decision stream the explicit versions of the exact block determine: the top product, then one per
    setup action of its table as the real parser reads it in exact mode (unknown names: not found)"""
    pins, _, _, _ = split_views(norm_text(res.get("installed") or res["expand"]["text"]))
    pinned = {}
    for p in pins:
        m = PIN_RE.match(p)
        if m:
            pinned.setdefault(m.group(2), []).append(m.group(3))
    ds = [topv]
    leak = []
    for a in res["parsed1"]["%s %s" % (top, topv)]["actions"]:
        if a.startswith("S,"):
            f = a.split(",")
            n = common.dec(f[2])
            vs = pinned.get(n)
            v = vs.pop(0) if vs else None
            if v is None and n != IMPLICIT or f[3] != "1" and n != IMPLICIT:
                leak.append(n)          # exact mode runs a setup line that is not a pin
            if v is not None and ("%s %s" % (n, v)) not in res["parsed1"]:
                return None, leak       # a productList version that is not declared: nothing to force
            ds.append(v)
    return (None if leak else ds), leak


def text_verdict(m):
    return ("outside:" + m["outside"]) if "outside" in m else ("raise" if "raise" in m else "written")


def evaluate(ctx, cases, results):
    exp_lines, exp_idx = [], []
    xt_lines, xt_idx = [], []
    bld_lines, bld_idx = [], []
    rep_lines, rep_idx = [], []
    for i, (c, r) in enumerate(zip(cases, results)):
        if r[0] != "ok":
            raise RuntimeError("implementation driver failed: %r" % (r,))
        res = r[1]
        b = res["build"]
        shape = "build-failed"
        if b["ok"]:
            x = res["expand"]
            conflict = bool(b["reverse_calls"])
            shape = ("conflict" if conflict else "clean") + ("/raise" if "raise" in x else "/ok") + \
                    ("/plist" if c["plist"] else "") + ("/force" if c["force"] else "")
            rb = b.get("rolled_back") or []
            if rb:
                # an optional dependency was started (SETUP_ variable recorded) and rolled back: directly below the top
                # product (depth 1) or deeper
                ctx.bump("optional-rolled-back@depth-%s" % ("1" if min(d for _n, _v, d in rb) == 1 else "2+"))
                if any(b["records"].get(n) != v for n, v, _d in rb):
                    ctx.bump("optional-rolled-back-and-not-set-up-at-expansion")
                shape += "/rollback"
            same = res.get("expand_same")
            if same is not None and ("raise" in same) == ("raise" in x) and \
                    ("raise" in x or norm_text(same["text"]) == norm_text(x["text"])):
                ctx.bump("protocols-agree")
            elif same is not None:
                ctx.bump("protocols-differ")
            if res.get("rawdeps_same") != res.get("rawdeps"):
                ctx.bump("dependency-lists-differ-between-instances")
            top_text = "\n".join(c["world"]["products"][c["top"]][c["topv"]]) + "\n"
            o = c.get("opts") or {}
            default_opts = o.get("ev", True) and o.get("ab", True)
            ctx.bump("entrance:%s/expandVersions=%s,addExactBlock=%s/%s" % (
                {"app": "app.expandTableFile", "cmd": "eups-expandtable-command"}[o.get("via", "app")],
                "on" if o.get("ev", True) else "off", "on" if o.get("ab", True) else "off", "raise" if "raise" in x else "written"))
            if "text" in x and not default_opts:
                lines_x = norm_text(x["text"])
                ctx.bump("switch-off/exact-block-%s/expressions-%s" % (
                    "written" if any(IF_EXACT_RE.match(ln) for ln in lines_x) else "absent",
                    "written" if any(SETUP_RE.search(ln) and "[" in ln for ln in lines_x) else "absent"))
            for n, ver in sorted(b["records"].items()):
                if re.search(r"-[a-zA-Z-]", ver):
                    ctx.bump("set-up-version-with-a-dash-word" + ("/holds-dash-j" if "-j" in ver else "") +
                             ("/named-on-a-line-of-the-top-table" if any(
                                 is_setup_line(ln) and re.search(r"\(\s*%s[\s,)]" % re.escape(n), ln)
                                 for ln in c["world"]["products"][c["top"]][c["topv"]]) else "/below"))
            wtags = c["world"].get("tags_by_tag") or {}
            for n, ver in sorted(b["records"].items()):
                if ver in TAG_NAMES:
                    tagged = c["world"]["current"].get(n) if ver == "current" else wtags.get(ver, {}).get(n)
                    ctx.bump("set-up-version-named-like-a-tag" + ("/tag-on-another-version" if tagged not in (None, ver) else ""))
            for k in just_below_keys(c, b["records"]):
                ctx.bump("set-up-alone-by-a-dependency-table/" + k + ("/build-of-several-requests" if c.get("build_deps") else ""))
            if any(IF_EXACT_RE.match(strip_comment(ln)) for ln in top_text.split("\n")):
                for k in reexpansion_shape(top_text):
                    ctx.bump("top-table-expanded-before/" + k)
            if "text" in x and c.get("install_reexpanded") and res.get("installed") is not None and \
                    any(t["kinds"][0] == "re-expansion" and "text" in t["result"] for t in res.get("texts") or []):
                ctx.bump("replay-from-the-re-expanded-table/" + ("same-text" if res["installed"] == x["text"] else "another-text"))
            for key, rawkey, _proto in PROTOCOLS:
                if res.get(key) is None:
                    continue
                try:
                    if default_opts:        # (level B knows the defaults only; the switches are in the text model)
                        exp_lines.append(expand_line(c, res, rawkey))
                        exp_idx.append((i, key))
                except OutOfGrammar:
                    ctx.bump("out-of-grammar")
                # level A in the model: the text of the table
                xt_lines.append(xtext_line(c, res, top_text, rawkey))
                xt_idx.append((i, key, ["top-table"], top_text, res[key], None))
            for t in res.get("texts") or []:
                xt_lines.append(xtext_line(c, res, t["text"], "rawdeps"))
                xt_idx.append((i, "text", t["kinds"], t["text"], t["result"], t))
            # the build itself through Model/Setup.v (decisions of the real resolver fed): the environment the expansion
            # reads is the final environment of the Setup model, failed optional dependencies rolled back
            rec = {"request": {"name": c["top"], "fwd": True}, "before": res["base"], "decisions": b["decisions"],
                   "after": b["env"], "aliases": b["aliases"], "ok": True, "outcome": "ok"}
            if not c.get("build_deps"):         # (one request per trace: a build made of several requests is not replayed)
                bld_lines.append(setupsim.model_line(c["world"], {"parsed": res["parsed0"], "stack": res["stack"]}, rec))
                bld_idx.append((i, rec))
            if "replay" in res:
                ds, leak = forced_decisions(res, c["top"], c["topv"])
                if leak:
                    ctx.fail("exact-view-leak", shrink_view(c, res), expected="only the pins of the exact block",
                             observed=res["parsed1"]["%s %s" % (c["top"], c["topv"])]["actions"],
                             what="read in exact mode, the expanded table runs setup lines that are not pins: %s" % leak)
                if ds is None:
                    ctx.bump("replay-with-real-decisions")
                    ds = res["replay"]["decisions"]
                rec = {"request": {"name": c["top"], "fwd": True}, "before": res["base"], "decisions": ds,
                       "after": res["replay"]["after"], "aliases": res["replay"]["aliases"], "ok": res["replay"]["ok"],
                       "outcome": res["replay"]["outcome"]}
                rep_lines.append(setupsim.model_line(c["world"], {"parsed": res["parsed1"], "stack": res["stack"]}, rec))
                rep_idx.append((i, rec, ds))
        nsetup = len(b["records"])
        ctx.count(1, key=shape, nontrivial=(json.dumps([c["world"]["products"], c["top"], c["topv"], c["plist"]], sort_keys=True)
                                            if b["ok"] and nsetup >= 2 else None))
        for kind, expected, observed, what in oracle(c, res):
            ctx.fail(kind, shrink_view(c, res), expected=expected, observed=observed, what=what)
    xout = ctx.model(xt_lines) if xt_lines else []
    for (i, key, kinds, text, x, extra), ln in zip(xt_idx, xout):
        c, res = cases[i], results[i][1]
        m = xtext_result(ln)
        if key != "expand_same":
            # shapes: one count per respelling / file form of the text, with the verdict of the model
            if extra is not None:
                ctx.bump("further-texts/" + text_verdict(m))
                for k in kinds:
                    ctx.bump("text:%s/%s" % (k, text_verdict(m)))
            else:
                ctx.bump("top-table-text/" + text_verdict(m))
        if "driver" in m:
            raise RuntimeError("model driver: %r" % (m,))
        if "outside" not in m:
            impl = {"raise": "raise"} if "raise" in x else {"text": x["text"]}
            mm = {"raise": "raise"} if "raise" in m else m
            if mm != impl:
                view = shrink_view(c, res, key if extra is None else "expand")
                view["text_in"] = text
                ctx.disagree(view, mm, x, where="expanded text, character for character (level A in the model)" +
                             (" [%s]" % ",".join(kinds)) + (" (python API protocol)" if key == "expand_same" else ""))
        if extra is not None:
            ctx.count(1, key=None)
            if "text" in x:
                # the clauses of the property that speak about the text, on what the real code wrote: the pins always; the
                # other two where the model follows the text (for a construct outside its grammar - a pre-existing exact
                # block, --external, text around a command - the python reader of this oracle has no reading either)
                clauses = (1, 2, 3) if "outside" not in m else (1,)
                try:
                    fs = list(oracle_text(c, res["build"]["records"], x["text"], text.split("\n"), clauses))
                except OutOfGrammar:
                    ctx.bump("text-oracle:line-outside-the-python-reader")
                    fs = list(oracle_text(c, res["build"]["records"], x["text"], text.split("\n"), (1, 2)))
                for kind, expected, observed, what in fs:
                    view = shrink_view(c, res)
                    view["text_in"] = text
                    view["expanded"] = x["text"]
                    ctx.fail(kind, view, expected=expected, observed=observed, what="%s [further text: %s]" % (what, ",".join(kinds)))
    mout = ctx.model(exp_lines + bld_lines + rep_lines)
    for (i, key), ln in zip(exp_idx, mout[:len(exp_lines)]):
        c, res = cases[i], results[i][1]
        m = expand_result(ln)
        x = res[key]
        impl = {"raise": "raise"} if "raise" in x else {"text": norm_text(x["text"])}
        if "raise" in m:
            m = {"raise": "raise"}
        if m != impl:
            ctx.disagree(shrink_view(c, res, key), m, impl if "text" in impl else x,
                         where="expanded text" + (" (python API protocol)" if key == "expand_same" else ""))
    for (i, rec), ln in zip(bld_idx, mout[len(exp_lines):len(exp_lines) + len(bld_lines)]):
        c, res = cases[i], results[i][1]
        ctx.traces_validated += 1
        setupsim.compare(ctx, c["world"], {"parsed": res["parsed0"], "stack": res["stack"]}, rec, setupsim.model_result(ln))
    for (i, rec, ds), ln in zip(rep_idx, mout[len(exp_lines) + len(bld_lines):]):
        c, res = cases[i], results[i][1]
        ctx.traces_validated += 1
        real = res["replay"]["decisions"]
        # a replay that stops part-way (a productList version whose table cannot be executed) consumed a prefix
        if (real != ds) if res["replay"]["ok"] else (ds[:len(real)] != real):
            ctx.disagree(shrink_view(c, res), {"forced decisions": ds}, {"real decisions": res["replay"]["decisions"]},
                         where="exact-mode decisions")
        setupsim.compare(ctx, c["world"], {"parsed": res["parsed1"], "stack": res["stack"]}, rec, setupsim.model_result(ln))


def shrink_view(c, res, key="expand"):
    """the case as written to replays / the corpus (re-runnable), with the top table in front"""
    return {"top": c["top"], "topv": c["topv"], "table": c["world"]["products"][c["top"]][c["topv"]],
            "built": res["build"]["records"], "expanded": (res.get(key) or {}).get("text"),
            "expanded_by_the_instance_that_did_the_setup": (res.get("expand_same") or {}).get("text"),
            "plist": c["plist"], "force": c["force"], "evolve": c["evolve"], "world": c["world"],
            "texts": c.get("texts", []), "reexpand": c.get("reexpand", False),
            "install_reexpanded": c.get("install_reexpanded", False), "build_deps": c.get("build_deps"),
            "opts": c.get("opts") or {},
            "installed": res.get("installed") if res.get("installed") != (res.get(key) or {}).get("text") else None}


def case_of(inp):
    if "tags" in inp["world"]:          # (witnesses written before harness/setupsim.py took the key tags for itself)
        inp["world"]["tags_by_tag"] = inp["world"].pop("tags")
    return {"world": inp["world"], "top": inp["top"], "topv": inp["topv"], "plist": inp.get("plist", {}),
            "force": inp.get("force", False), "evolve": inp.get("evolve", []), "texts": inp.get("texts", []),
            "reexpand": inp.get("reexpand", False), "install_reexpanded": inp.get("install_reexpanded", False),
            "build_deps": inp.get("build_deps"), "opts": inp.get("opts") or {}}


def explore(ctx, cases):
    chunks = [cases[i::NPROC] for i in range(NPROC)]
    chunks = [ch for ch in chunks if ch]
    rs = common.par_map(run_chunk, [(ch,) for ch in chunks], nproc=NPROC, timeout=1500)
    results = [None] * len(cases)
    for k, r in enumerate(rs):
        if r[0] != "ok":
            raise RuntimeError("implementation driver failed: %r" % (r,))
        for j, one in enumerate(r[1]):
            results[k + j * len(chunks)] = tuple(one)
    evaluate(ctx, cases, results)
    return results


# ------------------------------------------------------------------ known findings

def has_just_line(table):
    for ln in table:
        if is_setup_line(ln):
            try:
                c = classify(ln)
            except OutOfGrammar:
                continue
            if "-j" in c[3]:
                yield c[2]


def m_just_line(f):
    """D17: a setup line with -j whose product has a dependency that is not set up"""
    c = f["input"]
    if f["kind"] not in ("exact-reproduces-missing", "expansion-aborts"):
        return False
    built = c["built"]
    for n in has_just_line(c["table"]):
        v = built.get(n)
        if v is None:
            continue
        for ln in c["world"]["products"].get(n, {}).get(v, []):
            if is_setup_line(ln):
                try:
                    d = classify(ln)
                except OutOfGrammar:
                    continue
                if not d[1] and d[2] not in built:
                    return True
    return False


def m_setup_line_spelling(f):
    """fallback signature should proposed_fixes/C17-setup-line-spelling not be taken: a setup line of the table is spelt in a
    way the table reader accepts but the pinned expandTableFile does not recognise (the command name in another case, blanks
    in front of the parenthesis, commas between the arguments)"""
    if f["kind"] not in ("exact-reproduces-missing", "exact-reproduces-extra", "exact-view-leak", "inexact", "pins-foreign"):
        return False
    strict = re.compile(r'(setupRequired|setupOptional)\("?([^",]*)"?\)')
    for ln in (f["input"].get("text_in") or "\n".join(f["input"]["table"])).split("\n"):
        ln = re.sub(r"\s*#.*$", "", ln)
        if SETUP_RE.search(ln) and not strict.search(ln):
            return True
    return False


def m_empty_exact_block(f):
    """C11's open finding D6 seen from C17: nothing was set up below the top product, so the exact block of the
    expanded table is empty, and Table._read attributes the else branch of `if (type == exact) {} else {...}` to
    exact mode"""
    if f["kind"] not in ("exact-reproduces-extra", "exact-reproduces-missing", "exact-view-leak"):
        return False
    text = f["input"].get("installed") or f["input"].get("expanded")
    if not text:
        return False
    lines = norm_text(text)
    pins, _, _, ok = split_views(lines)
    return ok and "if (type == exact) {" in lines and not [p for p in pins if not p.startswith("#")]


def m_optional_subtree(f):
    """fallback signature should the repair of getDependentProducts not be taken: a set-up product has an optional
    dependency that is not set up, one of whose versions requires a product that is not set up either"""
    c = f["input"]
    if f["kind"] not in ("exact-reproduces-missing", "expansion-aborts"):
        return False
    built = c["built"]
    prods = c["world"]["products"]

    def deps(n, v):
        for ln in prods.get(n, {}).get(v, []):
            if is_setup_line(ln):
                try:
                    d = classify(ln)
                except OutOfGrammar:
                    continue
                yield d[2], d[1]
    for n, v in built.items():
        for dn, dopt in deps(n, v):
            if dopt and dn not in built:
                for dv in prods.get(dn, {}):
                    if any((not o2) and n2 not in built for n2, o2 in deps(dn, dv)):
                        return True
    return False


def m_closure_error(f):
    """fallback signature should proposed_fixes/C17-closure-error-keeps-product not be taken: a line of the top table
    without -j names a product that is set up, and below it - following the tables of the set-up versions through
    products that are set up - sits a product one of whose required dependencies is not set up (it was set up
    without its dependencies, -j)"""
    c = f["input"]
    if f["kind"] != "exact-reproduces-missing":
        return False
    built = c["built"]
    prods = c["world"]["products"]

    def deps(n):
        for ln in prods.get(n, {}).get(built.get(n), []):
            if is_setup_line(ln):
                try:
                    d = classify(ln)
                except OutOfGrammar:
                    continue
                yield d[2], d[1]
    just = set(has_just_line(c["table"]))
    for ln in c["table"]:
        if not is_setup_line(ln):
            continue
        try:
            q = classify(ln)[2]
        except OutOfGrammar:
            continue
        if q in just or q not in built or q == c["top"]:
            continue
        seen, todo = {q}, [q]
        while todo:
            n = todo.pop()
            for dn, dopt in deps(n):
                if dn not in built:
                    if not dopt and n != q:
                        return True
                elif dn not in seen:
                    seen.add(dn)
                    todo.append(dn)
    return False


# ------------------------------------------------------------------ driver

def corpus_cases():
    d = os.path.join(common.ROOT, "corpus", PID)
    out = []
    if os.path.isdir(d):
        for f in sorted(os.listdir(d)):
            if f.endswith(".json"):
                out.append(case_of(json.load(open(os.path.join(d, f)))["input"]))
    return out


def setup_ctx(ctx):
    ctx.matchers["c17.empty_exact_block"] = m_empty_exact_block
    ctx.matchers["c17.just_line"] = m_just_line                 # fallbacks: only used if the repairs are not taken
    ctx.matchers["c17.optional_subtree"] = m_optional_subtree
    ctx.matchers["c17.closure_error"] = m_closure_error
    ctx.matchers["c17.setup_line_spelling"] = m_setup_line_spelling     # fallback: only used if the repair is not taken
    ctx.rule = ("random one-stack worlds of 3-5 products x 1-3 versions (harness/setupsim.py: bare / versioned / "
                "expression / -j, required and optional dependencies, diamonds with conflicting versions, products "
                "without a current version); the top table is spread over several setup blocks with comments, blank "
                "lines, brace blocks, relative versions, unknown products; in one random world in five one product below the top "
                "one is made to fail part-way (a table line with an undefined ${VARIABLE} or a required product that does not "
                "exist, at a random position) and most lines asking for it made optional; one case in 16 from a directed "
                "family (an optional "
                "dependency that cannot be set up, listed before a required sibling sharing a dependency that has its own); "
                "one case in 8 from a second directed family (an optional link at depth 1, 2 or 3 below the top product "
                "under which the setup of a product fails part-way, after it and its own dependencies were recorded, and is "
                "rolled back); in about one world in three some products are declared under the fall-back flavor generic; "
                "every table is expanded twice, by the Eups instance that did the setup and by a fresh one, and the TEXT "
                "written is compared character for character with the text the model writes from the TEXT of the table; "
                "one setup line in eight of the top table is respelt in a way the table reader accepts (blanks inside and before the "
                "parentheses, quotes, -k, -f flavor, -t tag, command name in another case, commas); one case in 16 from a third "
                "directed family (the setup lines of the top table in other cases / with blanks before the parenthesis / "
                "with commas, newer current versions declared afterwards); 1-3 further texts per world are expanded only "
                "(the top table with lines respelt in ways expandTableFile may or may not follow - histogram text:<kind>/verdict, "
                "verdict = written | raise | outside:<reason of the model> - and, seven worlds in ten, the expanded table itself: "
                "text:re-expansion/<verdict> with text:exact-block-first-line | -after-setups | -after-other-lines, "
                "text:commands-after-the-exact-block, text:flavor-conditional-after-the-exact-block, text:not-exact-blocks; in four "
                "of those ten the re-expanded text is installed and replayed: replay-from-the-re-expanded-table); one case in 16 "
                "from a fourth directed family (one or two products set up at a version named stable / current / latest / root "
                "while the tag of that name sits on another version: set-up-version-named-like-a-tag[/tag-on-another-version]); "
                "one case in 8 from a fifth (the top table was expanded by an earlier build: exact block with stale pins at the "
                "first line or behind comments / commands / a block on type != exact, generated lines in other spellings, envSet "
                "lines and a flavor conditional behind the setups; dependencies set up one by one: top-table-expanded-before/<shape>); "
                "two cases in 16 from a sixth family (versions over the whole legal alphabet - dashes followed by flag letters, two "
                "dashes, plus signs: set-up-version-with-a-dash-word[/holds-dash-j]/named-on-a-line-of-the-top-table | /below); two in "
                "16 from a seventh (one or both switches off over lines with constraints of every form); two in 16 from an eighth "
                "(a line of a DEPENDENCY's table, directly below the top table or one level down, sets a product up alone with -j, "
                "and the top table names that product on a line of its own after / before the line bringing that dependency, "
                "with -j, or not at all; that product has dependencies of its own, one or two levels; the build is made of "
                "several requests in either order: set-up-alone-by-a-dependency-table/<how the top table names it>); every case carries an "
                "entrance (app.expandTableFile 65% / the eups expandtable command 35%) and the switches expandVersions, addExactBlock "
                "(both on 75%, -N 12%, --noExact 9%, both off 4%): entrance:<entrance>/expandVersions=..,addExactBlock=../<verdict>, "
                "switch-off/exact-block-<written|absent>/expressions-<written|absent>; "
                "productList overrides (12%) and --force "
                "(10%); the database then gains newer versions and current moves; a case is non-trivial when the build "
                "succeeded and set up at least two products; distinct = distinct (tables, top product, productList)")
    ctx.trusted_base = common.COMMON_TRUSTED + [
        "level A is in the model (Model/ExpandText.v; the driver op xtext feeds the text of the table and the written text is "
        "compared character for character); the python reader of setup lines (harness/c17.py classify) remains for the "
        "level-B comparison and for the oracles; the raw dependency lists fed to "
        "the model are those the real getDependencies(setup=False) returns for every product that is set up or named by the "
        "productList (asked of the same instance that expands the table, after it did so); the world fed to "
        "Model/Setup.v is what the real table parser returns for every declared product; the environment fed to "
        "Model/Expand.v is the one the real setup left (also compared with the final environment of Model/Setup.v run on "
        "the decisions the real resolver took)",
        "modelled, not verified: python re/str.split/strip as Model/Rx.v and Model/ExpandText.v state them; "
        "Eups.version_match inside subSetup is C10's model (Model/VersionCompare.v); the version resolver "
        "(findProductFromVRO) enters only through those dependency lists and, in the replay, through the comparison of "
        "the real decisions with the explicit versions"]
    ctx.assumptions = ["one stack; every product declared under the running flavor or (all its versions) under the fall-back flavor "
                       "generic; declared products only (no setup -r / LOCAL: versions)",
                       "constructs outside the text model get an explicit verdict and are counted (text[...]/outside:<reason>, "
                       "top-table-text/outside:<reason>): --external, a line that mentions if (type == exact) { without being that "
                       "line alone (a comment holding it, text behind the brace; the blocks an earlier expansion wrote are INSIDE "
                       "the model: Model/ExpandRe.v), text around a setup "
                       "command (semicolon, unsetupRequired, two commands), parentheses inside the arguments, no product name, "
                       "the product name not first, a flag argument that is -j, characters outside ASCII / carriage returns, an "
                       "expression C10's model of version_match does not model; lines naming eups are modelled but cannot stand in "
                       "a table that is set up here (Eups.setup of such a line needs eups' own version, empty in this checkout): "
                       "they occur in the further texts only",
                       "recurse at its default (True: no entrance passes it); eups expandtable is driven in place (-i) on a file "
                       "named <product>.table, not to standard output, an output directory, or with -P / -w / -W",
                       "with eups expandtable -N the clause on the original constraints is not demanded of the expressions (the "
                       "option asks for a table without them); with --noExact nothing is replayed in exact mode"]


def run(ctx):
    setup_ctx(ctx)
    ctx.check_theorems()
    cases = corpus_cases()
    n = ctx.size(600, 5000)
    for k in range(n):
        cases.append(gen_version_alphabet_case(ctx.rng) if k % 16 in (6, 15) else
                     gen_switch_case(ctx.rng) if k % 16 in (2, 10) else
                     gen_shared_case(ctx.rng) if k % 16 == 7 else
                     gen_tagname_case(ctx.rng) if k % 16 == 9 else
                     gen_installed_case(ctx.rng) if k % 16 in (1, 13) else
                     gen_failed_optional_case(ctx.rng) if k % 8 == 3 else
                     gen_spelling_case(ctx.rng) if k % 16 == 5 else
                     gen_just_below_case(ctx.rng) if k % 16 in (4, 12) else gen_case(ctx.rng))
        if "opts" not in cases[-1]:
            cases[-1]["opts"] = gen_opts(ctx.rng)
    for c in cases[:2]:
        ctx.sample({"top": c["top"], "topv": c["topv"], "table": c["world"]["products"][c["top"]][c["topv"]]})
    step = 2000
    for i in range(0, len(cases), step):
        explore(ctx, cases[i:i + step])


def replay(ctx, path):
    setup_ctx(ctx)
    obj = json.load(open(path))
    explore(ctx, [case_of(obj["input"])])
    bad = [f for f in ctx.failures if not ctx._known(f)] or ctx.disagreements
    print("replay %s: %s" % (path, "still fails" if bad else "passes"))
    return 1 if bad else 0
