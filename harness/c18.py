"""C18 - distribution manifests and tag lists round-trip and keep install order; remap tables.

Model: coq/Model/Manifest.v (+ ManifestSpec.v)   Theorems: coq/Props/C18.v
Implementation: eups.distrib.server.Manifest / TaggedProductList / Dependency / Mapping, driven
with a stub eupsenv (flavor, who), hooks.customisationDirs = [] and eups.flavor patched per case.

Case kinds
  mrt     build a Manifest from a dependency list, write it, read the file back
  mread   read a generated (often malformed) manifest text
  tl      build a TaggedProductList, write, read back (for a reader flavor), write again
  tlread  read a generated tag-list text
  remap   Mapping.add rows, remapEntries on a dependency list, inverse(), apply/undo queries, noReinstall
  merge   two tables of rows, Mapping.merge(other, overwrite), apply on a dependency list
  rfile   generated manifest.remap texts in one or two customisation directories, remapEntries(mapping, mode)
          with extra rows, the mapping left in the manifest, the products declared with version dummy;
          the reader alone with overwrite on and off
  print   str(Mapping) of a table, and the reader on that text
  tlops   (c18ops.py) a sequence of addProduct / write (flavor override, noaction) / read on ONE
          TaggedProductList, the object and the files observed after every step
  mops    (c18ops.py) the same on ONE Manifest: addDependency / write / read / reverse

Field widths: the writers pad their columns ("%-20s %-10s %s", "%-15s %-12s %-10s %-25s %-30s %s"); four cases
in ten of every stream ("wide" cases) draw a third of their fields from words of the lengths around every column
width (w-1, w, w+1) and far beyond (LONG_*), and the directed family gen_widths meets every column with every
such length; histogram keys widths/<kind>/<column>=exact|wider and family/widths/<kind>.
Theorems: coq/Proofs/ManifestWidth.v (column_separated, *_line_fields_any_width).
"""
import re
import json
import os
import shutil

import common
from common import enc, dec, enc_list, dec_list

import c18ops as OPS

WHO, TIME, VER = "verif", "T", "V"

# ------------------------------------------------------------------ encodings (ocaml/drv_c18.ml)


def enc_opt(o):
    return "N" if o is None else "S" + enc(o)


def dec_opt(s):
    return None if s == "N" else dec(s[1:])


DEPF = ["product", "version", "flavor", "table", "dir", "distid", "opt", "recurse", "extra"]


def enc_dep(d):
    return ",".join([enc(d["product"]), enc(d["version"]), enc_opt(d.get("flavor")), enc_opt(d.get("table")),
                     enc_opt(d.get("dir")), enc_opt(d.get("distid")), "1" if d.get("opt") else "0",
                     "1" if d.get("recurse") else "0", enc_list(";", d.get("extra") or [])])


def dec_dep(s):
    p, v, fl, tf, di, idd, o, r, ex = s.split(",")
    return {"product": dec(p), "version": dec(v), "flavor": dec_opt(fl), "table": dec_opt(tf), "dir": dec_opt(di),
            "distid": dec_opt(idd), "opt": o == "1", "recurse": r == "1", "extra": dec_list(";", ex)}


def enc_deps(ds):
    return "|".join(enc_dep(d) for d in ds)


def dec_deps(s):
    return [dec_dep(x) for x in s.split("|")] if s else []


def enc_rows(rows):
    return "|".join(",".join([enc(r[0]), enc(r[1]), enc_opt(r[2]), enc_opt(r[3]), enc(r[4])]) for r in rows)


def dec_fmap(s):
    out = []
    if not s:
        return out
    for fe in s.split("|"):
        f, _, rest = fe.partition(":")
        pm = []
        for pe in (rest.split(";") if rest else []):
            p, _, vs = pe.partition("=")
            vm = []
            for ve in (vs.split(",") if vs else []):
                v, q, w = ve.split(">")
                vm.append([dec(v), dec(q), dec_opt(w)])
            pm.append([dec(p), vm])
        out.append([dec(f), pm])
    return out


def dec_rows(s):
    out = []
    for r in (s.split("|") if s else []):
        p, v, q, w, f = r.split(",")
        out.append([dec(p), dec(v), dec_opt(q), dec_opt(w), dec(f)])
    return out


def enc_texts(texts):
    return enc_list("|", [t for t in texts if t is not None])


def enc_tl(entries):
    return "|".join(",".join([enc(p), enc_opt(f), enc(v), enc_list(";", ex)]) for p, v, f, ex in entries)


def dec_products(s):
    return [dec_list(",", x) for x in s.split("|")] if s else []


def err_of(f):
    return f[1].replace("Model.", "")


# ------------------------------------------------------------------ generators

PRODUCTS = ["a", "b", "cfitsio", "python", "tcltk", "afw", "z9"]
VERSIONS = ["1", "1.0", "2.0", "2.6.2", "svn123+1", "any", "8.5)", "None"]
FLAVORS = [None, None, "", "Linux64", "Darwin", "generic", "DarwinX86"]
TABLES = [None, "", "a.table", "none", "ups/x.table"]
DIRS = [None, "", "a/1", "none", "Linux64/cfitsio/3.0"]
IDS = [None, None, "", "None", "search", "a-1.tar.gz", "builds/a-1.build"]
BAD = ["a b", "#x", "", "x\ty", "p\x0bq", " lead", "trail ", "x\ry", "x\ny", "\x1c", "x#y", "(p)", "x\x1fy"]
EFLS = ["Linux64", "Darwin", "generic"]

# Field WIDTHS.  The two writers pad their columns (tag list: "%-20s %-10s %s" + "  %s" per extra column; manifest:
# "%-15s %-12s %-10s %-25s %-30s %s"): a field may be shorter than its column, fill it exactly, or be wider, and must
# still be separated from the next one.  Every stream draws, in its "wide" cases, words of the lengths around every
# column width (w-1, w, w+1) and well beyond, for every field.
TL_COLS = {"product": 20, "flavor": 10}
M_COLS = {"product": 15, "flavor": 12, "version": 10, "table": 25, "dir": 30}
_FILL = "_extensions_photometryKron_shapeHSM_ctrl_platform_lsstvc_0123456789" * 2


def word_of(stem, n, tail=""):
    """a word of exactly n characters starting like stem (and ending in tail)"""
    w = (stem + _FILL)[:n - len(tail)] + tail
    assert len(w) == n
    return w


LONG_PRODUCTS = [word_of("meas", n) for n in (14, 15, 16, 19, 20, 21, 30, 40)]
LONG_FLAVORS = [word_of("Linux64-glibc2.17-x86", n) for n in (9, 10, 11, 12, 13, 15, 21)]
LONG_VERSIONS = [word_of("7.3.1.0+svn", n) for n in (9, 10, 11, 19, 20, 21, 40)]
LONG_TABLES = [word_of("ups/", n, ".table") for n in (24, 25, 26, 40)]
LONG_DIRS = [word_of("Linux64/", n) for n in (29, 30, 31, 45)]
LONG_IDS = [word_of("builds/", n, ".build") for n in (19, 20, 21, 60)]
LONG_EXTRAS = [word_of("eupspkg:", n) for n in (10, 20, 21, 40)]
P_WIDE_CASE, P_WIDE_FIELD = 0.4, 0.35


def wpick(rng, wide, pool, longpool):
    """a draw from pool - in a wide case, about a third of the time, from the long words instead"""
    if wide and rng.random() < P_WIDE_FIELD:
        return rng.choice(longpool)
    return rng.choice(pool)


def gen_dep(rng, bad, wide=False):
    def pick(pool, longpool):
        if bad and rng.random() < 0.08:
            return rng.choice(BAD)
        return wpick(rng, wide, pool, longpool)
    return {"product": pick(PRODUCTS, LONG_PRODUCTS), "version": pick(VERSIONS, LONG_VERSIONS),
            "flavor": pick(FLAVORS, LONG_FLAVORS), "table": pick(TABLES, LONG_TABLES),
            "dir": pick(DIRS, LONG_DIRS), "distid": pick(IDS, LONG_IDS), "opt": rng.random() < 0.2}


def gen_mrt(rng):
    bad = rng.random() < 0.25
    wide = rng.random() < P_WIDE_CASE
    n = rng.choice([0, 1, 1, 2, 3, 4, 6, 8, 12])
    deps = [gen_dep(rng, bad, wide) for _ in range(n)]
    prod = wpick(rng, wide, [None, "top", "afw", "x(y)"] + (BAD[:4] if bad else []), LONG_PRODUCTS)
    vers = wpick(rng, wide, [None, "1.0", "2)", "svn1"] + (BAD[:4] if bad else []), LONG_VERSIONS)
    fa = wpick(rng, wide, [None, None, None, "", "Fl", "generic"] + (["a b"] if bad else []), LONG_FLAVORS)
    return {"kind": "mrt", "product": prod, "version": vers, "deps": deps, "noopt": rng.random() < 0.6,
            "fa": fa, "efl": wpick(rng, wide, EFLS, LONG_FLAVORS), "bad": bad}


def gen_line(rng, wide=False):
    r = rng.random()
    if r < 0.1:
        return rng.choice(["", "   ", "# comment", "  # indented comment", "\t#x", "#"])
    n = rng.choice([1, 3, 4, 5, 5, 6, 6, 7, 7, 8, 8, 9, 10])
    pools = [PRODUCTS, FLAVORS[3:], VERSIONS, ["a.table", "none"], ["a/1", "none"], ["None", "search", "a.tar"],
             ["OPTIONAL", "OPT", "O", "REQUIRED", "optional", "OPTIONALX"], ["TRUE", "T", "FALSE", "F", "x", "TRUEX"],
             ["e1", "#e2"], ["e3"]]
    longs = [LONG_PRODUCTS, LONG_FLAVORS, LONG_VERSIONS, LONG_TABLES, LONG_DIRS, LONG_IDS]
    ws = [wpick(rng, wide and i < 6, pools[i], longs[min(i, 5)]) for i in range(n)]
    sep = rng.choice([" ", "  ", "\t", " \t ", "\x0b", "   "])
    line = sep.join(ws)
    if rng.random() < 0.2:
        line = rng.choice([" ", "\t"]) + line
    if rng.random() < 0.2:
        line += rng.choice([" ", "  # tail comment", "\t"])
    return line


def gen_mheader(rng):
    r = rng.random()
    if r < 0.6:
        return "EUPS distribution manifest for %s (%s). Version %s" % (
            rng.choice(["top", "a", "x(y)"]), rng.choice(["1.0", "2)", "v"]), rng.choice(["1.0", "2.0"]))
    return rng.choice([
        "EUPS distribution manifest for top (1.0)) Version 1.0",
        "EUPS distribution manifest for top (1.0)\t Version 1.0",
        "EUPS distribution manifest for top (1.0)  Version 1.0",
        "EUPS distribution manifest for top (1.0)x Version 1.0   ",
        "EUPS distribution manifest for top (1.0). Version 1.0 extra",
        "EUPS distribution manifest for top 1.0. Version 1.0",
        "EUPS distribution manifest for  (1.0). Version 1.0",
        "EUPS distribution manifest for top (). Version 1.0",
        "EUPS distribution manifest for top (a)b). Version 1.0",
        "EUPS distribution manifest for top (a)).  Version 1",
        " EUPS distribution manifest for top (1.0). Version 1.0",
        "EUPS distribution manifest for top (1.0). Version ",
        "", "#", "EUPS distribution current version list. Version 1.0"])


def gen_mread(rng):
    wide = rng.random() < P_WIDE_CASE
    lines = [gen_mheader(rng)] + [gen_line(rng, wide) for _ in range(rng.choice([0, 1, 2, 3, 5, 8]))]
    nl = rng.choice(["\n", "\n", "\n", "\r\n", "\r"])
    text = nl.join(lines) + (nl if rng.random() < 0.8 else "")
    return {"kind": "mread", "text": text, "recurse": rng.random() < 0.3}


TAGS = ["current", "stable", "beta", "w_2026_09", "rc-1"]


def gen_tl(rng):
    bad = rng.random() < 0.2
    wide = rng.random() < P_WIDE_CASE
    defl = wpick(rng, wide, [None, "Linux64", "Linux64", "Darwin", "generic"], LONG_FLAVORS)
    homog = rng.random() < 0.5
    n = rng.choice([0, 1, 2, 3, 5, 8, 12])
    entries = []
    for _ in range(n):
        p = wpick(rng, wide, PRODUCTS + ["B", "Zeta", "_x", "a1", "a-b"] + (BAD if bad else []), LONG_PRODUCTS)
        v = wpick(rng, wide, VERSIONS + (BAD[:3] if bad else []), LONG_VERSIONS)
        f = None if homog else wpick(rng, wide, [None, None, "Linux64", "Darwin", "generic"], LONG_FLAVORS)
        ex = [wpick(rng, wide, ["x", "y", "#c", "1.0"] + (BAD[:2] if bad else []), LONG_EXTRAS)
              for _ in range(rng.choice([0, 0, 0, 1, 2]))]
        entries.append([p, v, f, ex])
    eff = defl if defl is not None else "generic"
    fa = wpick(rng, wide, [None, None, None, None, "Fl", ""], LONG_FLAVORS)
    seen = [eff] + ([fa] if fa else []) + [e[2] for e in entries if e[2]]
    return {"kind": "tl", "tag": rng.choice(TAGS), "defl": defl, "entries": entries, "fa": fa,
            "rfl": (fa or eff) if rng.random() < 0.7 else rng.choice(["Linux64", "Darwin", "generic", "Fl"] + seen),
            "bad": bad}


def gen_tlread(rng):
    tag = rng.choice(TAGS)
    wide = rng.random() < P_WIDE_CASE
    rfl = wpick(rng, wide, [None, "Linux64", "Darwin"], LONG_FLAVORS)
    r = rng.random()
    if r < 0.65:
        h = "EUPS distribution %s version list. Version %s" % (tag, rng.choice(["1.0", "2"]))
    else:
        h = rng.choice(["EUPS distribution %s version listx Version 1.0" % tag,
                        "EUPS distribution %s version list.  Version 1.0" % tag,
                        "EUPS distribution %s version list. Version 1.0 x" % tag,
                        "EUPS distribution other version list. Version 1.0",
                        "EUPS distribution %s version list. Version " % tag, "", "# c"])
    lines = [h]
    for _ in range(rng.choice([0, 1, 2, 4, 7])):
        r = rng.random()
        if r < 0.15:
            lines.append(rng.choice(["", "  ", "# c", "   #c", "#"]))
        else:
            n = rng.choice([1, 2, 3, 3, 3, 4, 5])
            pools = [PRODUCTS, ["Linux64", "generic", "Darwin"] + ([rfl] * 3 if rfl else []), VERSIONS, ["x", "#y"], ["z"]]
            longs = [LONG_PRODUCTS, LONG_FLAVORS, LONG_VERSIONS, LONG_EXTRAS, LONG_EXTRAS]
            line = rng.choice([" ", "  ", "\t"]).join(wpick(rng, wide, pools[i], longs[i]) for i in range(n))
            if rng.random() < 0.2:
                line = " " + line + rng.choice(["", " # tail"])
            lines.append(line)
    nl = rng.choice(["\n", "\n", "\r\n"])
    return {"kind": "tlread", "tag": tag, "rfl": rfl,
            "text": nl.join(lines) + (nl if rng.random() < 0.8 else "")}


MVERS = ["1", "2", "3", "any"]


def long_names(rng):
    """(D, V3): the product spelt d and the version spelt 3 in the small pools - long words in wide cases"""
    if rng.random() < P_WIDE_CASE:
        return rng.choice(LONG_PRODUCTS), rng.choice(LONG_VERSIONS)
    return "d", "3"


def gen_rows(rng, style, D="d", V3="3"):
    rows = []
    prods = ["a", "b", "c", D]
    n = rng.choice([0, 1, 1, 2, 2, 3, 4, 6])
    for _ in range(n):
        p = rng.choice(prods)
        fl = rng.choice(["generic", "generic", "Linux64", "Darwin"])
        if style == "bijective":
            inv = rng.choice(["1", "2", V3, "4"])
            rows.append([p, inv, rng.choice([None, None, p, rng.choice(prods), "e"]),
                         rng.choice(["5", "6", "7", "8", "1", "2"]), fl])
            continue
        inv = rng.choice(["1", "2", V3, "any"])
        r = rng.random()
        if r < 0.62:
            outp = rng.choice([None, None, "", p, rng.choice(prods), "e"])
            outv = rng.choice(["1", "2", V3, "9", "any"])
        elif r < 0.92:
            outp = rng.choice([None, None, "e"])
            outv = rng.choice([None, None, ""])
        else:
            outp = None
            outv = rng.choice(["noReinstall", "NOREINSTALL"])
        rows.append([p, inv, outp, outv, fl])
    return rows


def gen_remap(rng):
    style = rng.choice(["free", "free", "bijective"])
    D, V3 = long_names(rng)
    rows = gen_rows(rng, style, D, V3)
    n = rng.choice([0, 1, 2, 3, 5, 8, 12])
    deps = []
    for _ in range(n):
        d = gen_dep(rng, False, D != "d")
        d["product"] = rng.choice(["a", "b", "c", D, "e", "f"])
        d["version"] = rng.choice(["1", "2", V3, "5", "9"])
        d["distid"] = rng.choice([None, "a-1.tar.gz", "search"])
        deps.append(d)
    return {"kind": "remap", "rows": rows, "fl": rng.choice(["Linux64", "Linux64", "generic", "Darwin"]),
            "deps": deps, "style": style}


def gen_deps_small(rng, prods=("a", "b", "c", "d", "e", "f"), vers=("1", "2", "3", "5", "9"), wide=False):
    deps = []
    for _ in range(rng.choice([1, 2, 3, 5, 8])):
        d = gen_dep(rng, False, wide)
        d["product"] = rng.choice(prods)
        d["version"] = rng.choice(vers)
        d["distid"] = rng.choice([None, "a-1.tar.gz", "search"])
        deps.append(d)
    return deps


def gen_merge(rng):
    D, V3 = long_names(rng)
    return {"kind": "merge", "rows": gen_rows(rng, "free", D, V3), "other": gen_rows(rng, "free", D, V3),
            "overwrite": rng.random() < 0.5, "fl": rng.choice(["Linux64", "Linux64", "generic", "Darwin"]),
            "deps": gen_deps_small(rng, ("a", "b", "c", D, "e", "f"), ("1", "2", V3, "5", "9"), D != "d")}


RF_PRODUCTS = ["a", "b", "c", "d", "tcltk"] * 4 + ["verbose", "[x]", "p=q", "a]"]
RF_INV = ["", "", ":1", ":2", ":3", ":any", ":Any", ":*", ":", ":1:2", ":none"]
RF_OUT = ["1", "2", "3", "9", "None", "none", "any", "dummy", "dummy", "e:2", "e:dummy", "e:dummy", "b:dummy", "e:", "e:None",
          "b:1", "a:1:2", "noReinstall", "e:NOREINSTALL", "Any"]
RF_FLAVOR = ["", "", "", "", "", "generic", "Linux64", "Linux64", "Darwin", "Linux64 extra"]
RF_PREFIX = ["", "", "", "", "[create]", "[create] ", "[create]\t", "[install]", "[ create ]", "[create", "[]", "[c]x]"]
RF_SEP = [" ", "  ", "\t", "    ", " \t", "\x0b", "\x1c"]
RF_OTHER = ["", "   ", "# a comment", "  # indented", "#", "verbose=1", "verbose = True", " verbose=0 trailing",
            "verbose=2", "verbose", "verbose = Truex", "[create]", "[create] # nothing", "[create] verbose=1",
            ":1 2", "a :1", "a 2:", "a :2", "a\t:", "x#y 1", "a:1 2#c", "a:1#c 2", "\x0ba:3 9\x0c"]


def gen_remap_line(rng, mode=None, D="d", V3="3"):
    if rng.random() < 0.2:
        return rng.choice(RF_OTHER)
    sep = rng.choice(RF_SEP)

    def sub(w):
        return ":".join(D if x == "d" else V3 if x == "3" else x for x in w.split(":"))
    fields = [sub(rng.choice(RF_PRODUCTS) + rng.choice(RF_INV))]
    r = rng.random()
    if r < 0.85:
        fields.append(sub(rng.choice(RF_OUT + ["d:3", "d:dummy"])))
        fl = rng.choice(RF_FLAVOR)
        if fl:
            fields.append(fl)
    r = rng.random()
    if mode and r < 0.55:
        prefix = "[%s]" % mode + rng.choice(["", "", " ", "\t"])
    elif not mode and r < 0.55:
        prefix = ""
    else:
        prefix = rng.choice(RF_PREFIX)
    line = prefix + sep.join(fields)
    r = rng.random()
    if r < 0.1:
        line += rng.choice(["  # tail", "#tail", " #", "\t# x # y"])
    elif r < 0.2:
        line = rng.choice([" ", "\t"]) + line + rng.choice(["", " ", "\t "])
    return line


def gen_remap_text(rng, mode=None, D="d", V3="3"):
    lines = [gen_remap_line(rng, mode, D, V3) for _ in range(rng.choice([0, 1, 2, 2, 3, 4, 6, 8]))]
    nl = rng.choice(["\n", "\n", "\n", "\r\n", "\r"])
    return nl.join(lines) + (nl if rng.random() < 0.8 else "")


def gen_rfile(rng):
    mode = rng.choice([None, None, None, "create", "create", "install", ""])
    D, V3 = long_names(rng)
    texts = [gen_remap_text(rng, mode, D, V3)]
    r = rng.random()
    if r < 0.35:
        texts.append(gen_remap_text(rng, mode, D, V3))
    elif r < 0.45:
        texts.insert(rng.choice([0, 1]), None)          # a directory without manifest.remap
    extra = gen_rows(rng, "free", D, V3) if rng.random() < 0.5 else []
    deps = gen_deps_small(rng, prods=("a", "b", "c", D, "e", "tcltk"), vers=("1", "2", V3), wide=D != "d")
    return {"kind": "rfile", "texts": texts, "mode": mode,
            "extra": extra, "fl": rng.choice(["Linux64", "Linux64", "generic", "Darwin"]), "deps": deps,
            "known": sorted(set(rng.choice(["e", "b", "tcltk", D]) for _ in range(rng.choice([0, 0, 1, 2]))))}


PR_WORDS = ["a", "b", "c", "py-x", "q_1"]
PR_VERS = ["1", "2.0", "any", "svn+1", "1:2", "*"]


def gen_print(rng):
    rows = []
    odd = rng.random() < 0.3
    wide = rng.random() < P_WIDE_CASE
    for _ in range(rng.choice([0, 1, 2, 3, 5])):
        p = wpick(rng, wide, PR_WORDS + (["x#y", "[m]p", "verbose=1", "p:q", "p=q", "verbose"] if odd else []), LONG_PRODUCTS)
        v = wpick(rng, wide, PR_VERS + (["Any", "v#1"] if odd else []), LONG_VERSIONS)
        if rng.random() < 0.25:
            q, w = rng.choice([None, None, "e"] if odd else [None]), None
        else:
            q = wpick(rng, wide, [None, p, "e", "f-2"] + (["e:f"] if odd else []), LONG_PRODUCTS)
            w = wpick(rng, wide, ["1", "2.0", "3+1", "1:2"] + (["any", "None", "none", "noReinstall", "w#1"] if odd else []),
                      LONG_VERSIONS)
        rows.append([p, v, q, w, wpick(rng, wide, ["generic", "generic", "Linux64", "Darwin"], LONG_FLAVORS)])
    return {"kind": "print", "rows": rows}


# ------------------------------------------------------------------ directed family: field widths

def gen_widths(rng):
    """every column of the two writers met by a field one short of its width, exactly as wide, one wider and
    much wider - the wide field in the middle of the list, between ordinary entries - through the single-shot
    cases and through the operation sequences on one object"""
    cases = []
    tag = "current"
    for plen in (19, 20, 21, 40):
        for flen in (9, 10, 11, 15):
            P, F = word_of("meas", plen), word_of("Linux64-glibc2.17-x86", flen)
            for where in ("defl", "entry", "override"):
                for nex in (0, 2):
                    v = rng.choice(VERSIONS[:5] + LONG_VERSIONS)
                    ex = [rng.choice(["x", "1.0"] + LONG_EXTRAS) for _ in range(nex)]
                    entries = [["afw", "1.0", None, []], [P, v, F if where == "entry" else None, ex],
                               ["zlib", "1.2.5", None, ["x"]]]
                    rng.shuffle(entries)
                    cases.append({"kind": "tl", "tag": tag, "defl": F if where == "defl" else "Linux64",
                                  "entries": entries, "fa": F if where == "override" else None, "rfl": F,
                                  "bad": False, "family": "widths"})
            ops = [["add", "afw", "1.0", None, []], ["add", P, rng.choice(VERSIONS[:5] + LONG_VERSIONS), None, ["x"]],
                   ["write", "f1", F, False], ["write", "f2", None, rng.random() < 0.3], ["write", "f2", None, False],
                   ["read", "f2"], ["write", "f3", F, False]]
            cases.append({"kind": "tlops", "tag": tag, "defl": rng.choice(["Linux64", F]), "ops": ops,
                          "rfls": ["Linux64", F], "bad": False, "family": "widths"})
    longs = {"product": "meas", "flavor": "Linux64-glibc2.17-x86", "version": "7.3.1.0+svn", "table": "ups/",
             "dir": "Linux64/"}
    for col, w in sorted(M_COLS.items()):
        for n in (w - 1, w, w + 1, w + 15):
            W = word_of(longs[col], n)
            via = rng.choice(["dep", "fa", "efl"]) if col == "flavor" else "dep"
            mid = {"product": "python", "version": "2.6.2", "flavor": rng.choice([None, "Linux64"]), "table": "a.table",
                   "dir": rng.choice([None, "a/1"]), "distid": rng.choice(IDS + LONG_IDS), "opt": False}
            if via == "dep":
                mid[col] = W
            elif via == "efl":
                mid["flavor"] = None
            deps = [gen_dep(rng, False), mid, gen_dep(rng, False)]
            fa, efl = (W if via == "fa" else None), (W if via == "efl" else "Linux64")
            cases.append({"kind": "mrt", "product": "top", "version": "1.0", "deps": deps, "noopt": rng.random() < 0.5,
                          "fa": fa, "efl": efl, "bad": False, "family": "widths"})
            ops = [["add", d] for d in deps] + [["write", "f1", False, fa, False], ["read", "f1", False, False],
                                                ["write", "f2", True, None, False]]
            cases.append({"kind": "mops", "product": "top", "version": "1.0", "efl": efl, "ops": ops, "bad": False,
                          "family": "widths"})
    return cases


def width_marks(c):
    """histogram keys: which columns of the writer a case's fields fill exactly / overflow"""
    k = c["kind"]
    seen = {}

    def see(col, w, x):
        if isinstance(x, str) and x:
            seen[col] = max(seen.get(col, 0), 2 if len(x) > w else 1 if len(x) == w else 0)
    if k in ("tl", "tlops"):
        adds = c["entries"] if k == "tl" else [o[1:] for o in c["ops"] if o[0] == "add"]
        fas = [c["fa"]] if k == "tl" else [o[2] for o in c["ops"] if o[0] == "write"]
        if not ((wf_case_tl(c) if k == "tl" else OPS.wf_tlops(c)) and adds):
            return []
        for p, v, f, ex in adds:
            see("product", 20, p)
            see("flavor", 10, f if f is not None else (c["defl"] or "generic"))
        for fa in fas:
            see("flavor", 10, fa)
    elif k in ("mrt", "mops"):
        deps = c["deps"] if k == "mrt" else [o[1] for o in c["ops"] if o[0] == "add"]
        fas = [c["fa"]] if k == "mrt" else [o[3] for o in c["ops"] if o[0] == "write"]
        if not ((wf_case_mrt(c) if k == "mrt" else OPS.wf_mops(c)) and deps):
            return []
        for d in deps:
            for col, w in M_COLS.items():
                see(col, w, d[col] if d[col] else (c["efl"] if col == "flavor" else None))
        for fa in fas:
            see("flavor", 12, fa)
    else:
        return []
    marks = ["widths/%s/%s=%s" % (k, col, "wider" if cl == 2 else "exact") for col, cl in sorted(seen.items()) if cl]
    return marks or ["widths/%s/all-narrower" % k]


# ------------------------------------------------------------------ implementation (forked child)

def _dep_out(p):
    return {"product": p.product, "version": p.version, "flavor": p.flavor, "table": p.tablefile,
            "dir": p.instDir, "distid": p.distId, "opt": bool(p.isOpt), "recurse": bool(p.shouldRecurse),
            "extra": list(p.extra)}


def canon_text(text):
    out = []
    for ln in text.split("\n"):
        if ln.startswith("# Time:         "):
            ln = "# Time:         " + TIME
        elif ln.startswith("# Eups version: "):
            ln = "# Eups version: " + VER
        out.append(ln)
    return "\n".join(out)


def _dump(d):
    return [[f, [[p, [[v, q, w] for v, (q, w) in vm.items()]] for p, vm in pm.items()]] for f, pm in d.items()]


def impl_batch(cases, tmp):
    common.import_eups()
    import eups
    import eups.hooks as hooks
    from eups.distrib import server as S
    hooks.customisationDirs = []
    devnull = open(os.devnull, "w")

    class Stub(object):
        who = WHO

        def __init__(self, fl):
            self.flavor = fl

    path = os.path.join(tmp, "f.txt")

    def rd(fn):
        with open(fn, newline="") as f:
            return f.read()

    def wr(fn, text):
        with open(fn, "w", newline="") as f:
            f.write(text)

    def read_manifest(fn, recurse=None):
        m = S.Manifest(eupsenv=Stub("unused"), verbosity=-1, log=devnull)
        try:
            m.read(fn, shouldRecurse=recurse)
        except RuntimeError:
            return {"err": "err"}
        return {"product": m.product, "version": m.version, "deps": [_dep_out(p) for p in m.getProducts()]}

    out = []
    for c in cases:
        k = c["kind"]
        try:
            if k == "mrt":
                m = S.Manifest(c["product"], c["version"], eupsenv=Stub(c["efl"]), log=devnull)
                for d in c["deps"]:
                    m.addDependency(d["product"], d["version"], d["flavor"], d["table"], d["dir"], d["distid"],
                                    isOptional=d["opt"])
                m.write(path, noOptional=c["noopt"], flavor=c["fa"])
                text = canon_text(rd(path))
                wr(path, text)
                out.append({"text": text, "read": read_manifest(path)})
            elif k == "mread":
                wr(path, c["text"])
                out.append({"read": read_manifest(path, True if c["recurse"] else None)})
            elif k == "tl":
                t = S.TaggedProductList(c["tag"], c["defl"], log=devnull)
                for p, v, f, ex in c["entries"]:
                    t.addProduct(p, v, f, list(ex) if ex else None)
                before = t.getProducts()
                t.write(path, flavor=c["fa"])
                text = rd(path)
                res = {"text": text, "before": before}
                try:
                    t2 = S.TaggedProductList.fromFile(path, c["tag"], c["rfl"], log=devnull)
                    res["read"] = t2.getProducts()
                    t2.write(path)
                    res["text2"] = rd(path)
                except S.RemoteFileInvalid:
                    res["read"] = {"err": "BadTable"}
                except IndexError:
                    res["read"] = {"err": "Crash"}
                out.append(res)
            elif k == "tlread":
                wr(path, c["text"])
                try:
                    t2 = S.TaggedProductList.fromFile(path, c["tag"], c["rfl"], log=devnull)
                    out.append({"read": t2.getProducts()})
                except S.RemoteFileInvalid:
                    out.append({"read": {"err": "BadTable"}})
                except IndexError:
                    out.append({"read": {"err": "Crash"}})
            elif k == "merge":
                mp, other = S.Mapping(), S.Mapping()
                for p, v, q, w, f in c["rows"]:
                    mp.add(p, v, q, w, f)
                for p, v, q, w, f in c["other"]:
                    other.add(p, v, q, w, f)
                mp.merge(other, overwrite=c["overwrite"])
                out.append({"mapping": [_dump(mp._mapping), _dump(mp._noReinstall)],
                            "apply": [list(mp.apply(d["product"], d["version"], c["fl"])) for d in c["deps"]]})
            elif k == "rfile":
                out.append(impl_rfile(c, S, eups, hooks, Stub, tmp, devnull, wr))
            elif k == "tlops":
                out.append(OPS.impl_tlops(c, S, tmp, devnull))
            elif k == "mops":
                out.append(OPS.impl_mops(c, S, Stub, tmp, devnull))
            elif k == "print":
                mp = S.Mapping()
                for p, v, q, w, f in c["rows"]:
                    mp.add(p, v, q, w, f)
                res = {"text": str(mp), "mapping": [_dump(mp._mapping), _dump(mp._noReinstall)]}
                d = os.path.join(tmp, "pr")
                os.makedirs(d, exist_ok=True)
                wr(os.path.join(d, "manifest.remap"), res["text"])
                m = S.Manifest("top", "1", eupsenv=Stub("unused"), log=devnull)
                try:
                    back = m._readRemapFile(d, S.Mapping(), True, None)
                    res["back"] = [_dump(back._mapping), _dump(back._noReinstall)]
                    res["same"] = (back._mapping == mp._mapping)
                except AttributeError:
                    res["back"] = {"err": "Crash"}
                out.append(res)
            elif k == "remap":
                mp = S.Mapping()
                for p, v, q, w, f in c["rows"]:
                    mp.add(p, v, q, w, f)
                res = {"mapping": [_dump(mp._mapping), _dump(mp._noReinstall)]}
                res["norein"] = [bool(mp.noReinstall(d["product"], d["version"], c["fl"])) for d in c["deps"]]
                eups.flavor = lambda fl=c["fl"]: fl
                m = S.Manifest("top", "1", eupsenv=Stub(c["fl"]), log=devnull)
                for d in c["deps"]:
                    m.addDependency(d["product"], d["version"], d["flavor"], d["table"], d["dir"], d["distid"],
                                    isOptional=d["opt"])
                m.remapEntries(mapping=mp)
                res["remap"] = [_dep_out(p) for p in m.getProducts()]
                res["apply"] = [list(mp.apply(d["product"], d["version"], c["fl"])) for d in c["deps"]]
                try:
                    inv = mp.inverse()
                    res["inverse"] = [_dump(inv._mapping), _dump(inv._noReinstall)]
                    undo = []
                    for q in queries(c):
                        a = mp.apply(q[0], q[1], c["fl"])
                        b = inv.apply(a[0], a[1], c["fl"]) if a[1] is not None else (None, None)
                        undo.append([list(a), list(b)])
                    res["undo"] = undo
                except RuntimeError:
                    res["inverse"] = {"err": "Refused"}
                out.append(res)
            else:
                out.append({"crash": "unknown kind"})
        except Exception as e:  # noqa
            out.append({"crash": type(e).__name__ + ": " + str(e)[:200]})
    return out


def impl_rfile(c, S, eups, hooks, Stub, tmp, devnull, wr):
    """remapEntries(mapping, mode) with manifest.remap files in the customisation directories"""
    import sys
    dirs = []
    for n, t in enumerate(c["texts"]):
        d = os.path.join(tmp, "cd%d" % n)
        os.makedirs(d, exist_ok=True)
        fn = os.path.join(d, "manifest.remap")
        if os.path.exists(fn):
            os.unlink(fn)
        if t is not None:
            wr(fn, t)
        dirs.append(d)
    known, declared = set(c["known"]), []

    class Env(Stub):
        def findProduct(self, name, version=None):
            return name if (version == "dummy" and name in known) else None

    def declare(productName, versionName, productDir=None, tablefile=None, **kw):
        declared.append([productName, versionName, productDir, tablefile])
        known.add(productName)

    saved = (hooks.customisationDirs, eups.declare, sys.stderr)
    hooks.customisationDirs = [None] + dirs            # an unset directory is skipped
    eups.declare = declare
    eups.flavor = lambda fl=c["fl"]: fl
    sys.stderr = devnull
    res = {}
    try:
        mp = S.Mapping()
        for p, v, q, w, f in c["extra"]:
            mp.add(p, v, q, w, f)
        m = S.Manifest("top", "1", eupsenv=Env(c["fl"]), log=devnull)
        for d in c["deps"]:
            m.addDependency(d["product"], d["version"], d["flavor"], d["table"], d["dir"], d["distid"],
                            isOptional=d["opt"])
        try:
            m.remapEntries(mapping=mp, mode=c["mode"])
            res["mapping"] = [_dump(m.mapping._mapping), _dump(m.mapping._noReinstall)]
            res["remap"] = [_dep_out(p) for p in m.getProducts()]
            res["declares"] = declared
        except AttributeError:
            res["err"] = "Crash"
        first = [n for n, t in enumerate(c["texts"]) if t is not None]
        if first:
            for ow in (True, False):
                try:
                    back = m._readRemapFile(dirs[first[0]], S.Mapping(), ow, c["mode"])
                    res["read%d" % ow] = [_dump(back._mapping), _dump(back._noReinstall)]
                except AttributeError:
                    res["read%d" % ow] = {"err": "Crash"}
    finally:
        hooks.customisationDirs, eups.declare, sys.stderr = saved
    return res


def queries(c):
    """(product, version) pairs that some row maps, in row order"""
    qs = []
    for p, v, q, w, f in c["rows"]:
        if [p, v] not in qs:
            qs.append([p, v])
    return qs


# ------------------------------------------------------------------ model side

B = lambda b: "1" if b else "0"  # noqa


def model_lines(c, impl):
    """the model queries for one case (the read queries take the text the implementation wrote)"""
    k = c["kind"]
    if k in ("tlops", "mops"):
        return OPS.model_lines(c, impl)
    if k == "mrt":
        ls = ["\t".join(["mwrite", "1", B(c["noopt"]), enc_opt(c["fa"]), enc(c["efl"]), enc(WHO), enc(TIME), enc(VER),
                         enc_opt(c["product"]), enc_opt(c["version"]), enc_deps(c["deps"])]),
              "\t".join(["mnorm", B(c["noopt"]), enc_opt(c["fa"]), enc(c["efl"]), enc_opt(c["product"]),
                         enc_opt(c["version"]), enc_deps(c["deps"])])]
        if "text" in impl:
            ls.append("\t".join(["mread", "1", "1", "0", enc(impl["text"])]))
        return ls
    if k == "mread":
        return ["\t".join(["mread", "1", "1", B(c["recurse"]), enc(c["text"])])]
    if k == "tl":
        ls = ["\t".join(["tlwrite", enc_opt(c["fa"]), enc(c["tag"]), enc_opt(c["defl"]), enc_tl(c["entries"])]),
              "\t".join(["tlspec", enc(c["rfl"]), enc(c["tag"]),
                         enc_tl([[p, v, (c["fa"] if c["fa"] is not None else f if f is not None else (c["defl"] or "generic")), ex]
                                 for p, v, f, ex in c["entries"]])])]
        if "text" in impl:
            ls.append("\t".join(["tlread", enc(c["tag"]), enc_opt(c["rfl"]), enc(impl["text"])]))
            ls.append("\t".join(["tlreread", enc(c["tag"]), enc_opt(c["rfl"]), enc(impl["text"])]))
        return ls
    if k == "tlread":
        return ["\t".join(["tlread", enc(c["tag"]), enc_opt(c["rfl"]), enc(c["text"])])]
    if k == "merge":
        return ["\t".join(["merge", enc_rows(c["rows"]), enc_rows(c["other"]), B(c["overwrite"])])]
    if k == "rfile":
        texts = enc_texts(c["texts"])
        ls = ["\t".join(["remaprows", enc_opt(c["mode"]), texts]),
              "\t".join(["remapentries", enc_rows(c["extra"]), texts, enc_opt(c["mode"]), enc(c["fl"]), enc_deps(c["deps"])]),
              "\t".join(["declares", enc_rows(c["extra"]), texts, enc_opt(c["mode"]), enc(c["fl"]),
                         enc_list(",", c["known"]), enc_deps(c["deps"])])]
        first = [t for t in c["texts"] if t is not None]
        if first:
            ls.append("\t".join(["readremap", "1", enc_opt(c["mode"]), enc(first[0])]))
            ls.append("\t".join(["readremap", "0", enc_opt(c["mode"]), enc(first[0])]))
        return ls
    if k == "print":
        ls = ["\t".join(["print", enc_rows(c["rows"])]), "\t".join(["mapping", enc_rows(c["rows"])])]
        if "text" in impl:
            ls.append("\t".join(["readremap", "1", "N", enc(impl["text"])]))
        return ls
    if k == "remap":
        ls = ["\t".join(["mapping", enc_rows(c["rows"])]),
              "\t".join(["norein", enc_rows(c["rows"]), enc(c["fl"]),
                         ";".join(enc(d["product"]) + "," + enc(d["version"]) for d in c["deps"])]),
              "\t".join(["remap", "1", enc_rows(c["rows"]), enc(c["fl"]), enc_deps(c["deps"])]),
              "\t".join(["remapspec", enc_rows(c["rows"]), enc(c["fl"]), enc_deps(c["deps"])]),
              "\t".join(["inverse", enc_rows(c["rows"])])]
        for q in queries(c):
            ls.append("\t".join(["undo", enc_rows(c["rows"]), enc(c["fl"]), enc(q[0]), enc(q[1])]))
        return ls
    raise ValueError(k)


def dec_mapping(f):
    return [dec_fmap(f[1] if len(f) > 1 else ""), dec_fmap(f[2] if len(f) > 2 else "")]


def dec_manifest(f):
    return {"product": dec_opt(f[1]), "version": dec_opt(f[2]), "deps": dec_deps(f[3] if len(f) > 3 else "")}


def model_result(c, outs, impl=None):
    """decode the answers to model_lines into the shape of the implementation's result"""
    k = c["kind"]
    fs = [o.split("\t") for o in outs]
    for f in fs:
        if f[0] == "DRIVER-ERROR":
            return {"crash": "model driver: " + dec(f[1])}
    if k in ("tlops", "mops"):
        return OPS.model_result(c, fs, impl or {})
    res = {}
    if k == "mrt":
        res["text"] = dec(fs[0][1])
        res["wf"] = fs[1][1] == "1"
        res["norm"] = dec_manifest(fs[1][1:])
        if len(fs) > 2:
            res["read"] = {"err": "err"} if fs[2][0] == "err" else dec_manifest(fs[2])
    elif k == "mread":
        res["read"] = {"err": "err"} if fs[0][0] == "err" else dec_manifest(fs[0])
    elif k == "tl":
        res["text"] = dec(fs[0][1])
        res["before"] = dec_products(fs[0][2] if len(fs[0]) > 2 else "")
        res["spec"] = dec_products(fs[1][1] if len(fs[1]) > 1 else "")
        if len(fs) > 2:
            res["read"] = {"err": err_of(fs[2])} if fs[2][0] == "err" else dec_products(fs[2][1] if len(fs[2]) > 1 else "")
            if fs[3][0] == "ok":
                res["text2"] = dec(fs[3][1])
    elif k == "tlread":
        res["read"] = {"err": err_of(fs[0])} if fs[0][0] == "err" else dec_products(fs[0][1] if len(fs[0]) > 1 else "")
    elif k == "merge":
        res["mapping"] = dec_mapping(fs[0])
    elif k == "rfile":
        res["rows"] = {"err": err_of(fs[0])} if fs[0][0] == "err" else dec_rows(fs[0][1] if len(fs[0]) > 1 else "")
        if fs[1][0] == "err":
            res["err"] = err_of(fs[1])
        else:
            res["mapping"] = dec_mapping(fs[1])
            res["remap"] = dec_deps(fs[1][3] if len(fs[1]) > 3 else "")
            res["declares"] = [[p, "dummy", "none", "none"] for p in dec_list(",", fs[2][1] if len(fs[2]) > 1 else "")]
        for f, ow in zip(fs[3:], (1, 0)):
            res["read%d" % ow] = {"err": err_of(f)} if f[0] == "err" else dec_mapping(f)
    elif k == "print":
        res["text"] = dec(fs[0][1])
        res["wf"] = fs[0][2] == "1"
        res["mapping"] = dec_mapping(fs[1])
        if len(fs) > 2:
            res["back"] = {"err": err_of(fs[2])} if fs[2][0] == "err" else dec_mapping(fs[2])
    elif k == "remap":
        res["mapping"] = [dec_fmap(fs[0][1]), dec_fmap(fs[0][2])]
        res["norein"] = [x == "1" for x in (fs[1][1].split(",") if len(fs[1]) > 1 and fs[1][1] else [])]
        fs = [fs[0]] + fs[2:]
        res["remap"] = dec_deps(fs[1][1] if len(fs[1]) > 1 else "")
        res["spec"] = dec_deps(fs[2][1] if len(fs[2]) > 1 else "")
        if fs[3][0] == "err":
            res["inverse"] = {"err": err_of(fs[3])}
        else:
            res["inverse"] = [dec_fmap(fs[3][1]), dec_fmap(fs[3][2])]
            undo = []
            for f in fs[4:]:
                a = [dec(f[1]), dec_opt(f[2])]
                b = [dec(f[3]), dec_opt(f[4])] if a[1] is not None else [None, None]
                undo.append([a, b])
            res["undo"] = undo
    return res


# ------------------------------------------------------------------ the property's own oracle (python, independent)

SPACE = set("\t\n\x0b\x0c\r\x1c\x1d\x1e\x1f \x85\xa0")


def is_word(s):
    return isinstance(s, str) and s != "" and not any(ch in SPACE for ch in s)


def is_oword(s):
    return s is None or s == "" or is_word(s)


def wf_case_mrt(c):
    ok = all(x is None or is_word(x) for x in (c["product"], c["version"]))
    for d in c["deps"]:
        ok = ok and is_word(d["product"]) and not d["product"].startswith("#") and is_word(d["version"])
        ok = ok and all(is_oword(d[k]) for k in ("flavor", "table", "dir", "distid"))
    return ok and (c["fa"] in (None, "") or is_word(c["fa"])) and is_word(c["efl"])


FIELDS = ["product", "version", "flavor", "table", "dir", "distid"]


def expected_mrt(c):
    """what reading the written manifest must give: the entries that were to be written, in order, with the
    same product, version, flavor, table file, directory and id - where an absent table or directory is
    spelt none, an absent flavor is the writer's, and None / search / absent all mean: no distribution id"""
    deps = []
    for d in c["deps"]:
        if d["opt"] and c["noopt"]:
            continue
        deps.append({"product": d["product"], "version": d["version"],
                     "flavor": c["fa"] or d["flavor"] or c["efl"],
                     "table": d["table"] or "none", "dir": d["dir"] or "none",
                     "distid": None if d["distid"] in (None, "", "None", "search") else d["distid"]})
    return {"product": c["product"] if c["product"] is not None else "UNKNOWN_PRODUCT",
            "version": c["version"] if c["version"] is not None else "generic", "deps": deps}


def proj(m):
    return {"product": m["product"], "version": m["version"],
            "deps": [{k: d[k] for k in FIELDS} for d in m["deps"]]}


def oracle_mrt(c, i):
    if not wf_case_mrt(c):
        return None
    exp = expected_mrt(c)
    if "err" in i["read"]:
        return ("manifest-roundtrip", exp, "a well-formed manifest cannot be read back")
    got = proj(i["read"])
    if got == exp:
        return None
    if (got["product"], got["version"]) != (exp["product"], exp["version"]):
        return ("manifest-roundtrip", exp, "the manifest's own product/version changed")
    if [d["product"] for d in got["deps"]] != [d["product"] for d in exp["deps"]]:
        return ("manifest-order", exp, "products or their order changed")
    for g, e in zip(got["deps"], exp["deps"]):
        for k in FIELDS:
            if g[k] != e[k]:
                return ("manifest-field-" + k, exp, "entry %s: %s comes back %r, written from %r" % (
                    e["product"], k, g[k], e[k]))
    return ("manifest-roundtrip", exp, "differs")


def wf_case_tl(c):
    ok = is_word(c["rfl"]) and (c["defl"] is None or is_word(c["defl"])) and (c["fa"] is None or is_word(c["fa"]))
    for p, v, f, ex in c["entries"]:
        ok = ok and is_word(p) and not p.startswith("#") and is_word(v) and (f is None or is_word(f))
        ok = ok and all(is_word(e) for e in ex)
    return ok


def tl_map(c):
    """the list as a map product -> [flavor, version, extras...] (later addProduct wins), flavors as written"""
    m = {}
    for p, v, f, ex in c["entries"]:
        fl = c["fa"] if c["fa"] is not None else (f if f is not None else (c["defl"] or "generic"))
        m[p] = [fl, v] + list(ex)
    return m


def oracle_tl(c, i):
    if not wf_case_tl(c):
        return None
    if isinstance(i["read"], dict):
        return ("taglist-roundtrip", None, "a well-formed tag list cannot be read back: %s" % i["read"]["err"])
    m = tl_map(c)
    rfl = c["rfl"]
    exp = {p: [rfl] + info[1:] for p, info in m.items() if info[0] in (rfl, "generic")}
    got = {r[0]: r[1:] for r in i["read"]}
    if len(got) != len(i["read"]):
        return ("taglist-roundtrip", exp, "a product is listed twice")
    if got != exp:
        return ("taglist-roundtrip", exp, "reader of flavor %s sees %r, the list holds %r" % (rfl, got, exp))
    if [r[0] for r in i["read"]] != sorted(got):
        return ("taglist-order", sorted(got), "read-back list is not in the sorted order of the file")
    # idempotence of write after read: the second file equals the first one restricted to what the reader sees
    if "text2" in i:
        l1 = i["text"].split("\n")
        keep = [ln for ln in l1[3:] if ln and ln.split()[0] in exp]
        l2 = i["text2"].split("\n")
        if l2[:3] != l1[:3]:
            return ("taglist-idempotent", l1[:3], "header changed on rewrite")
        if all(info[0] == rfl for info in m.values()):
            if i["text2"] != i["text"]:
                return ("taglist-idempotent", i["text"], "write(read(write t)) differs from write t")
        elif [ln.split() for ln in l2[3:] if ln] != [[w if j != 1 else rfl for j, w in enumerate(ln.split())] for ln in keep]:
            return ("taglist-idempotent", keep, "rewritten file differs from the visible part of the first")
    return None


def noreinstall(w):
    return bool(w) and w.lower() == "noreinstall"


def table_says(rows, fl, p, v):
    """what the remap table says about manifest entry (p, v) when the running flavor is fl: rows of that flavor
    before generic rows, the row for exactly that version before the row for any version, later rows override
    earlier ones; a row without out-version deletes, a noreinstall row is not a remap row"""
    def level(f):
        for key in (v, "any"):
            hit = None
            for r in rows:
                if r[4] == f and r[0] == p and r[1] == key and not noreinstall(r[3]):
                    hit = r
            if hit is not None:
                return hit
        return None
    r = level(fl)
    if r is None and fl != "generic":
        r = level("generic")
    if r is None:
        return ("keep",)
    if r[3]:
        return ("replace", r[2] or p, r[3])
    return ("delete",)


def expected_remap_dep(rows, fl, d):
    s = table_says(rows, fl, d["product"], d["version"])
    if s[0] == "keep" or (s[0] == "replace" and (s[1], s[2]) == (d["product"], d["version"])):
        return [dict(d, recurse=False, extra=[])]
    if s[0] == "delete":
        return []
    return [{"product": s[1], "version": s[2], "flavor": None, "table": None, "dir": None, "distid": None,
             "opt": False, "recurse": False, "extra": []}]


def norm_in_dep(d):
    """the Dependency the harness builds from a generated entry (distid None spelt as text is absent)"""
    e = {k: d.get(k) for k in DEPF}
    e["opt"] = bool(d.get("opt"))
    e["recurse"] = False
    e["extra"] = []
    if e["distid"] == "None":
        e["distid"] = None
    return e


def one_to_one(c):
    """rows that describe a one-to-one renaming for the running flavor: one row per (flavor, product, version);
    a replacement row has explicit versions on both sides; no two replacement rows of one flavor with the same
    target (inverse() turns the whole Mapping around, flavor by flavor), and no two entries that are kept - as
    seen from the running flavor - sent to the same target.  Removal rows and rows that map an entry to itself
    are allowed."""
    rows = c["rows"]
    if table_collides(rows):
        return False
    seen = set()
    for p, v, q, w, f in rows:
        if (f, p, v) in seen or noreinstall(w):
            return False
        seen.add((f, p, v))
        if not w:
            continue
        if v == "any" or w == "any" or noreinstall(v) or not p or not v:
            return False
    img = {}
    for p, v in queries(c):
        s = table_says(rows, c["fl"], p, v)
        if s[0] == "delete":
            continue
        if s[0] != "replace":
            return False
        if (s[1], s[2]) in img:
            return False
        img[(s[1], s[2])] = (p, v)
    return True


def table_collides(rows):
    """two live rows of one flavor with the same target"""
    last = {}
    for p, v, q, w, f in rows:
        if noreinstall(w):
            continue
        last[(f, p, v)] = (q or p, w) if w else None
    tg = {}
    for (f, p, v), t in last.items():
        if t is None:
            continue
        if (f, t) in tg:
            return True
        tg[(f, t)] = 1
    return False


def oracle_remap(c, i):
    """failures as (kind, case, expected, observed, what); a wrong entry is reported on the sub-case made of that
    entry and the rows of its product (rows of other products cannot bear on it)"""
    fails = []
    deps_in = [norm_in_dep(d) for d in c["deps"]]
    exp, seen_sub, per_entry = [], set(), []
    for d0, d, a in zip(c["deps"], deps_in, i["apply"]):
        e = expected_remap_dep(c["rows"], c["fl"], d)
        exp += e
        if a[1] is None:
            got = []
        elif (a[0], a[1]) == (d["product"], d["version"]):
            got = [d]
        else:
            got = [{"product": a[0], "version": a[1], "flavor": None, "table": None, "dir": None, "distid": None,
                    "opt": False, "recurse": False, "extra": []}]
        per_entry += got
        if got != e:
            sub = {"kind": "remap", "rows": [r for r in c["rows"] if r[0] == d["product"]], "fl": c["fl"],
                   "deps": [d0], "style": c.get("style", "?")}
            key = json.dumps(sub, sort_keys=True)
            if key not in seen_sub:
                seen_sub.add(key)
                says = table_says(c["rows"], c["fl"], d["product"], d["version"])
                fails.append(("remap-" + {"keep": "untouched", "replace": "replaced", "delete": "deleted"}[says[0]],
                              sub, e, got, "the table says %s for %s %s; remapEntries gives %s" % (
                                  says, d["product"], d["version"], json.dumps(got)[:200])))
    if i["remap"] != per_entry:
        fails.append(("remap-list", c, per_entry, i["remap"], "remapEntries on the list differs from entry-wise apply"))
    elif i["remap"] != exp and not fails:
        fails.append(("remap-exact", c, exp, i["remap"], "remapEntries gives %s" % json.dumps(i["remap"])[:400]))
    if table_collides(c["rows"]) and not isinstance(i["inverse"], dict):
        fails.append(("inverse-rejects", c, "RuntimeError", i["inverse"],
                      "inverse() accepted a table with two rows of one flavor that have the same target"))
    if one_to_one(c):
        if isinstance(i["inverse"], dict):
            fails.append(("inverse-undoes", c, None, i["inverse"], "inverse() refused a one-to-one table"))
        else:
            for q, (a, b) in zip(queries(c), i["undo"]):
                if a[1] is not None and b != q:
                    fails.append(("inverse-undoes", c, q, [a, b],
                                  "apply gives %r and the inverse maps that to %r" % (a, b)))
                    break
    return fails


# ---- remap files, read from the description of the format in the documentation of remapEntries

VERBOSE_RE = re.compile(r"^\s*verbose\s*=\s*(True|False|0|1)")


def doc_rows(text, mode):
    """the rows a manifest.remap text names for a mode: lines in universal-newline reading, comments from a hash
    sign on, blank lines skipped; a line prefixed [XXX] applies only when the mode is XXX, a line without prefix
    only when no mode is asked for; product[:version-in-manifest] [[outProduct:]desired-version] [flavor];
    Any = any = every version; None / none / any or no desired version = delete.  "crash" when a field starts
    with a colon (the code fails on it)."""
    rows = []
    for line in text.replace("\r\n", "\n").replace("\r", "\n").split("\n"):
        h = line.find("#")
        if h >= 0:
            line = line[:h]
        line = line.strip()
        if not line:
            continue
        prefix = None
        if line.startswith("["):
            j = line.find("]", 1)
            if j > 1:
                prefix, line = line[1:j], line[j + 1:].lstrip()
        if prefix is None:
            if mode:
                continue
        elif mode != prefix:
            continue
        if VERBOSE_RE.match(line):
            continue
        vals = line.split()
        if not vals:
            continue
        if vals[0].startswith(":"):
            return "crash"
        product, colon, inv = vals[0].partition(":")
        if not colon or inv in ("any", "Any"):
            inv = "any"
        outp, outv = None, None
        if len(vals) > 1:
            if vals[1].startswith(":"):
                return "crash"
            a, colon, b = vals[1].partition(":")
            outp, outv = (a, b) if b else (product, a)
            if outv in ("any", "none", "None"):
                outv = None
        rows.append([product, inv, outp, outv, vals[2] if len(vals) > 2 else "generic"])
    return rows


def oracle_rfile(c, i):
    rows = []
    for t in c["texts"]:
        if t is None:
            continue
        r = doc_rows(t, c["mode"])
        if r == "crash":
            return None, []
        rows += r
    if "err" in i:
        return rows, [("remap-file", c, None, i["err"], "remapEntries fails on a readable manifest.remap")]
    allrows = rows + c["extra"]             # the rows passed in take precedence over the rows of the files
    fails = []
    deps_in = [norm_in_dep(d) for d in c["deps"]]
    exp, known, decl = [], set(c["known"]), []
    for d in deps_in:
        e = expected_remap_dep(allrows, c["fl"], d)
        exp += e
        if e and e[0]["version"] == "dummy" and (e[0]["product"], "dummy") != (d["product"], d["version"]) \
                and e[0]["product"] not in known:
            known.add(e[0]["product"])
            decl.append([e[0]["product"], "dummy", "none", "none"])
    if i["remap"] != exp:
        fails.append(("remap-file", c, exp, i["remap"],
                      "mode %r: the files and the extra rows name %s; remapEntries gives %s" % (
                          c["mode"], json.dumps(allrows)[:300], json.dumps(i["remap"])[:300])))
    elif i["declares"] != decl:
        fails.append(("remap-dummy", c, decl, i["declares"], "products declared with version dummy"))
    return rows, fails


def oracle_merge(c, i):
    """the merged table is the union of the rows; where both tables have a row for (flavor, product, version) the
    other table's row wins exactly when overwrite is set"""
    allrows = (c["rows"] + c["other"]) if c["overwrite"] else (c["other"] + c["rows"])
    fails = []
    for d, a in zip(c["deps"], i["apply"]):
        s = table_says(allrows, c["fl"], d["product"], d["version"])
        exp = [d["product"], d["version"]] if s[0] == "keep" else [s[1], s[2]] if s[0] == "replace" else None
        if (exp is None and a[1] is not None) or (exp is not None and a != exp):
            sub = dict(c, rows=[r for r in c["rows"] if r[0] == d["product"]],
                       other=[r for r in c["other"] if r[0] == d["product"]], deps=[d])
            fails.append(("remap-merged", sub, exp, a, "the two tables together say %s for %s %s; apply on the merged "
                          "table gives %s" % (s, d["product"], d["version"], a)))
            break
    return fails


def wf_print(c):
    """tables whose print the reader must read back: fields are words without hash signs, in-products without
    colon or equals sign and not opening a bracket, no capitalised Any, replacement versions none of
    any/none/None/noreinstall, out-products without colon"""
    last = {}
    for r in c["rows"]:
        if not noreinstall(r[3]):               # the noReinstall rows are not printed
            last[(r[4], r[0], r[1])] = r
    for p, v, q, w, f in last.values():
        fields = [p, v, f] + ([q or p, w] if w else [])
        if not all(is_word(x) and "#" not in x for x in fields):
            return False
        if ":" in p or "=" in p or p.startswith("[") or v == "Any":
            return False
        if w and (":" in (q or p) or w in ("any", "none", "None") or noreinstall(w)):
            return False
        if not w and q not in (None, "", p):
            return False
    return True


MATCHERS = {}


# ------------------------------------------------------------------ compare

def shape(c):
    k = c["kind"]
    if k == "mrt":
        return "mrt/%s/n=%d" % ("bad" if not wf_case_mrt(c) else "wf", min(len(c["deps"]), 9))
    if k == "tl":
        return "tl/%s/n=%d" % ("bad" if not wf_case_tl(c) else "wf", min(len(c["entries"]), 9))
    if k == "remap":
        return "remap/%s/rows=%d" % (c.get("style", "?"), min(len(c["rows"]), 6))
    if k == "merge":
        return "merge/ow=%d/rows=%d+%d" % (c["overwrite"], min(len(c["rows"]), 4), min(len(c["other"]), 4))
    if k == "rfile":
        return "rfile/mode=%s/files=%d/extra=%d" % (c["mode"], len(c["texts"]), min(len(c["extra"]), 1))
    if k == "print":
        return "print/%s/rows=%d" % ("wf" if wf_print(c) else "odd", min(len(c["rows"]), 5))
    if k in ("tlops", "mops"):
        return OPS.shape(c)
    return k


def strip_model_only(m):
    return {k: v for k, v in m.items() if k not in ("wf", "norm", "spec", "rows")}


def run_impl(cases):
    tmp = common.scratch_dir()
    try:
        r = common.in_child(impl_batch, cases, tmp, timeout=600,
                            environ=common.scrubbed_environ({"EUPS_FLAVOR": "Linux64"}))
    finally:
        shutil.rmtree(tmp, ignore_errors=True)
    if r[0] != "ok":
        raise RuntimeError("implementation driver failed: %r" % (r,))
    return r[1]


def evaluate(ctx, cases, count=True):
    ires = run_impl(cases)
    lines, spans = [], []
    for c, i in zip(cases, ires):
        ls = model_lines(c, i)
        spans.append((len(lines), len(lines) + len(ls)))
        lines += ls
    outs = ctx.model(lines)
    results = []
    for c, i, (a, b) in zip(cases, ires, spans):
        m = model_result(c, outs[a:b], i)
        k = c["kind"]
        if count:
            nt = None
            if (k == "mrt" and c["deps"]) or (k == "tl" and c["entries"]) or (k == "remap" and c["rows"] and c["deps"]) \
                    or k in ("mread", "tlread") or (k == "merge" and c["rows"] and c["other"]) \
                    or (k == "rfile" and any(t and t.strip() for t in c["texts"])) or (k == "print" and c["rows"]) \
                    or (k in ("tlops", "mops") and any(o[0] == "add" for o in c["ops"])
                        and any(o[0] == "write" for o in c["ops"])):
                nt = json.dumps(c, sort_keys=True)
            ctx.count(1, key=shape(c), nontrivial=nt)
            for mk in width_marks(c):
                ctx.bump(mk)
            if c.get("family"):
                ctx.bump("family/%s/%s" % (c["family"], k))
        if "crash" in i or "crash" in m:
            ctx.disagree(c, m, i, where="crash")
            results.append((c, m, i))
            continue
        # correspondence: everything the implementation reports, the model reports alike
        mi = strip_model_only(m)
        if k == "mrt":
            if mi["text"].split("\n") != i["text"].split("\n"):
                ctx.disagree(c, mi["text"], i["text"], where="written text")
            elif mi.get("read") != i["read"]:
                ctx.disagree(c, mi.get("read"), i["read"], where="read back")
        elif k == "tl":
            i_cmp = {kk: i[kk] for kk in ("text", "before", "read", "text2") if kk in i}
            if mi != i_cmp:
                ctx.disagree(c, mi, i_cmp, where="tag list")
        elif k == "print":
            i_cmp = {kk: v for kk, v in i.items() if kk != "same"}
            if mi != i_cmp:
                ctx.disagree(c, mi, i_cmp, where=k)
        elif k in ("tlops", "mops"):
            for n, (ms, st) in enumerate(zip(mi["steps"], i["steps"])):
                if ms != st:
                    ctx.disagree(dict(c, ops=c["ops"][:n + 1]), ms, st, where="%s step %d (%s)" % (k, n, c["ops"][n][0]))
                    break
            else:
                if len(mi["steps"]) != len(i["steps"]):
                    ctx.disagree(c, len(mi["steps"]), len(i["steps"]), where=k + ": number of steps run")
        else:
            if mi != i and not (k in ("remap", "merge") and {kk: v for kk, v in i.items() if kk != "apply"} == mi):
                ctx.disagree(c, mi, i, where=k)
        # the python oracle against the Coq statement (evaluated on the model)
        if k == "mrt":
            if m["wf"] != wf_case_mrt(c) and is_word(c["efl"]) and (c["fa"] in (None, "") or is_word(c["fa"])):
                ctx.disagree(c, m["wf"], wf_case_mrt(c), where="wf predicate: coq vs python")
            if wf_case_mrt(c) and proj(m["norm"]) != expected_mrt(c):
                ctx.disagree(c, proj(m["norm"]), expected_mrt(c), where="normal form: coq vs python")
            o = oracle_mrt(c, i)
            if o is not None:
                ctx.fail(o[0], c, expected=o[1], observed=i["read"], what=o[2])
        elif k == "tl":
            if wf_case_tl(c):
                m_ = tl_map(c)
                exp = [[p, c["rfl"]] + m_[p][1:] for p in sorted(m_) if m_[p][0] in (c["rfl"], "generic")]
                if m["spec"] != exp:
                    ctx.disagree(c, m["spec"], exp, where="visible entries: coq vs python")
            o = oracle_tl(c, i)
            if o is not None:
                ctx.fail(o[0], c, expected=o[1], observed=i["read"], what=o[2])
        elif k == "remap":
            deps_in = [norm_in_dep(d) for d in c["deps"]]
            exp = []
            for d in deps_in:
                exp += expected_remap_dep(c["rows"], c["fl"], d)
            if m["spec"] != exp:
                ctx.disagree(c, m["spec"], exp, where="what the table says: coq vs python")
            for o in oracle_remap(c, i):
                ctx.fail(o[0], o[1], expected=o[2], observed=o[3], what=o[4])
            if count:
                ctx.traces_validated += 1
        elif k == "merge":
            for o in oracle_merge(c, i):
                ctx.fail(o[0], o[1], expected=o[2], observed=o[3], what=o[4])
            if count:
                ctx.traces_validated += 1
        elif k == "rfile":
            rows, fails = oracle_rfile(c, i)
            if rows is not None and m["rows"] != rows:
                ctx.disagree(c, m["rows"], rows, where="the rows a file names: coq vs python")
            for o in fails:
                ctx.fail(o[0], o[1], expected=o[2], observed=o[3], what=o[4])
            if count:
                ctx.traces_validated += 1
        elif k in ("tlops", "mops"):
            o = OPS.oracle_tlops(c, i) if k == "tlops" else OPS.oracle_mops(c, i)
            if o is not None:
                ctx.fail(o[0], o[1], expected=o[2], observed=o[3], what=o[4])
            if count:
                ctx.traces_validated += 1
        elif k == "print":
            if m["wf"] != wf_print(c):
                ctx.disagree(c, m["wf"], wf_print(c), where="printable table: coq vs python")
            if wf_print(c) and not i.get("same"):
                ctx.fail("remap-print-parse", c, expected=i["mapping"], observed=i.get("back"),
                         what="the reader does not read back the table Mapping.__str__ printed")
        results.append((c, m, i))
    return results


def corpus_cases():
    d = os.path.join(common.ROOT, "corpus", "C18")
    out = []
    if os.path.isdir(d):
        for f in sorted(os.listdir(d)):
            if f.endswith(".json"):
                out.append(json.load(open(os.path.join(d, f)))["input"])
    return out


def setup_ctx(ctx):
    ctx.matchers.update(MATCHERS)
    ctx.rule = ("manifests: 0-12 dependencies over small pools (mixed flavors incl. absent/empty, absent/empty table, "
                "directory and id, the texts None/search/none, optional entries, noOptional on/off, flavor argument), a "
                "quarter with malformed fields (white space, leading #, empty, CR/LF) where only model = code is "
                "required; generated manifest and tag-list texts (field counts 1-10, OPTIONAL/TRUE/FALSE prefixes, "
                "comments, CRLF, broken headers); tag lists of 0-12 entries, homogeneous or mixed flavor, reader flavor "
                "equal or different; remap tables of 0-6 Mapping.add rows (replace/rename/delete/noreinstall, any, "
                "three flavors) applied to 0-12 entries, inverse() and apply-then-inverse on every mapped pair, "
                "noReinstall queries; pairs of such tables merged with overwrite on/off; manifest.remap texts of 0-6 "
                "lines (mode prefixes well- and ill-formed, comments, verbose lines, Any/any/None/none/dummy/"
                "noReinstall, fields with extra colons, fields starting with a colon, CR/LF/CRLF, odd white space) in "
                "one or two customisation directories (one possibly without file), mode None/create/install/empty, "
                "with and without extra rows, known dummy products; printed tables read back; "
                "sequences of 2-12 operations on ONE TaggedProductList (addProduct, write to one of three files with "
                "or without a flavor override, a quarter of the writes as noaction dry runs, read of a written or "
                "missing file into the same object; styles free / writes only / override then plain) and on ONE "
                "Manifest (addDependency, write with noOptional / flavor / noaction, read with setproduct / "
                "shouldRecurse, reverse), the object and every file observed after every step, every written file "
                "read back by fresh readers of up to four flavors; "
                "field WIDTHS: in 40% of the cases of every stream a third of the fields (product, version, flavor - "
                "entry's, list's, override, writer's, reader's -, table file, directory, id, extra columns, the "
                "manifest's own product and version, the products and versions of remap rows and files) are words of "
                "9-60 characters chosen at the writers' column widths -1/0/+1 (tag list 20/10, manifest "
                "15/12/10/25/30) and beyond; a directed family (152 cases) puts a name of 19/20/21/40 and a flavor of "
                "9/10/11/15 characters (as the list's, an entry's, the override) into tag lists and operation "
                "sequences, and a field of w-1/w/w+1/w+15 characters into every manifest column; "
                "a case is non-trivial when it has at least one entry (and one row); distinct = distinct case")
    ctx.trusted_base = common.COMMON_TRUSTED + [
        "modelled, not verified: python re (the two header patterns, non-space runs), str.split/strip/startswith/"
        "lower, percent formatting with minus-width, text-mode universal newlines, dict insertion order, sorted() on str",
        "stub eupsenv (attributes flavor, who, findProduct over a set of names), hooks.customisationDirs set to "
        "scratch directories, eups.flavor and eups.declare patched (declare records its call)"]
    ctx.assumptions = ["fields are words: non-empty, free of python white space (code points 9-13, 28-32, 133, 160); "
                       "product names do not start with #",
                       "tags are alphanumeric (the tag is pasted unescaped into a regular expression)",
                       "the user/date/version comment lines hold no line terminator",
                       "a declaration of a dummy version does not fail (a failure is only printed by the code)",
                       "manifest.remap is read in an encoding that maps the generated code points to themselves"]


def run(ctx):
    setup_ctx(ctx)
    ctx.check_theorems()
    if ctx.tier == "thorough":
        ctx.coqchk(["Eupsv.Props.C18"])
    cases = corpus_cases()
    rng = ctx.rng
    cases += gen_widths(rng)
    for _ in range(ctx.size(1500, 40000)):
        cases.append(gen_mrt(rng))
    for _ in range(ctx.size(700, 15000)):
        cases.append(gen_mread(rng))
    for _ in range(ctx.size(900, 20000)):
        cases.append(gen_tl(rng))
    for _ in range(ctx.size(500, 10000)):
        cases.append(gen_tlread(rng))
    for _ in range(ctx.size(2500, 40000)):
        cases.append(gen_remap(rng))
    for _ in range(ctx.size(900, 15000)):
        cases.append(gen_merge(rng))
    for _ in range(ctx.size(2000, 40000)):
        cases.append(gen_rfile(rng))
    for _ in range(ctx.size(600, 10000)):
        cases.append(gen_print(rng))
    for _ in range(ctx.size(2500, 40000)):
        cases.append(OPS.gen_tlops(rng))
    for _ in range(ctx.size(2000, 30000)):
        cases.append(OPS.gen_mops(rng))
    for c in cases[:3]:
        ctx.sample(c)
    for i in range(0, len(cases), 5000):
        evaluate(ctx, cases[i:i + 5000])


def replay(ctx, path):
    setup_ctx(ctx)
    obj = json.load(open(path))
    c = obj["input"]
    evaluate(ctx, [c])
    bad = [f for f in ctx.failures if not ctx._known(f)] or ctx.disagreements
    for f in ctx.failures:
        print("oracle: %s: %s" % (f["kind"], f["what"]))
    for d in ctx.disagreements[:3]:
        print("disagreement (%s): model %r / implementation %r" % (d["where"], d["model"], d["impl"]))
    print("replay %s: %s" % (path, "still fails" if bad else "passes"))
    return 1 if bad else 0
