"""C18 - sequences of operations on ONE TaggedProductList / Manifest object.

Model: coq/Model/ManifestOps.v (tl_step / tl_trace, m_step / m_trace)   Theorems: coq/Props/C18.v
(write_leaves_list_unchanged, write_override_roundtrip, write_after_writes_roundtrip, mwrite_...).

Case kinds
  tlops   one TaggedProductList: addProduct, write(file, flavor=override, noaction), read(file) in any
          order; after every step getProducts() of the object and the texts of all files are compared with
          the model; after every real write the file is read back by fresh readers of several flavors
  mops    one Manifest: addDependency, write(file, noOptional, flavor, noaction), read(file, setproduct,
          shouldRecurse) into the same object, reverse(); same observations

The oracle keeps its own account of the list (from the operations alone) and demands, after every step,
that the object holds exactly that list (a write or a dry run changes nothing) and, after every write, that
the file read back gives that list: same products, versions, flavors (the override when one was given),
extra columns / table file, directory, id; order sorted (tag lists) or as listed (manifests).
"""
import os
import shutil

from common import enc, dec, enc_list, dec_list
import c18 as B

FILES = ["f1", "f2", "f3"]
OFLAVORS = ["Linux64", "Darwin", "generic", "DarwinX86"]

# ------------------------------------------------------------------ generators


def _tl_add(rng, bad, homog, wide=False):
    p = B.wpick(rng, wide, B.PRODUCTS + ["B", "Zeta", "a-b"] + (B.BAD if bad else []), B.LONG_PRODUCTS)
    v = B.wpick(rng, wide, B.VERSIONS + (B.BAD[:3] if bad else []), B.LONG_VERSIONS)
    f = None if homog else B.wpick(rng, wide, [None, "Linux64", "Darwin", "generic", "DarwinX86"], B.LONG_FLAVORS)
    ex = [B.wpick(rng, wide, ["x", "y", "#c", "1.0"] + (B.BAD[:2] if bad else []), B.LONG_EXTRAS)
          for _ in range(rng.choice([0, 0, 0, 1, 2]))]
    return ["add", p, v, f, ex]


def _tl_write(rng, plain=None, wide=False):
    r = rng.random()
    fa = None if (plain if plain is not None else r < 0.45) else B.wpick(rng, wide, OFLAVORS + ["Fl"], B.LONG_FLAVORS)
    return ["write", rng.choice(FILES), fa, rng.random() < 0.25]


def gen_tlops(rng):
    """adds first (most of the time), then a free mix of writes, dry runs, reads and further adds"""
    bad = rng.random() < 0.12
    wide = rng.random() < B.P_WIDE_CASE
    homog = rng.random() < 0.25
    defl = B.wpick(rng, wide, [None, "Linux64", "Linux64", "Darwin", "generic"], B.LONG_FLAVORS)
    ops = []
    style = rng.choice(["free", "free", "writes", "publish"])
    for _ in range(rng.choice([0, 1, 2, 3, 3, 5])):
        ops.append(_tl_add(rng, bad, homog, wide))
    if style == "publish":
        # publish for another platform (possibly as a dry run, possibly several), then as it is, then read
        for _ in range(rng.choice([1, 1, 2])):
            ops.append(_tl_write(rng, plain=False, wide=wide))
        ops.append(_tl_write(rng, plain=True, wide=wide))
        ops[-1][3] = False
        if rng.random() < 0.5:
            ops.append(["read", ops[-1][1]])
    elif style == "writes":
        for _ in range(rng.choice([2, 3, 4])):
            ops.append(_tl_write(rng, wide=wide))
    else:
        written = []
        for _ in range(rng.choice([1, 2, 3, 4, 6])):
            r = rng.random()
            if r < 0.25:
                ops.append(_tl_add(rng, bad, homog, wide))
            elif r < 0.7:
                ops.append(_tl_write(rng, wide=wide))
                if not ops[-1][3]:
                    written.append(ops[-1][1])
            else:
                ops.append(["read", rng.choice(written) if written and rng.random() < 0.85 else rng.choice(FILES)])
    eff = defl if defl is not None else "generic"
    rfls = [eff]
    for o in ops:
        if o[0] == "write" and o[2] is not None and o[2] not in rfls and B.is_word(o[2]):
            rfls.append(o[2])
    for f in rng.sample(OFLAVORS, 2):
        if f not in rfls:
            rfls.append(f)
    return {"kind": "tlops", "tag": rng.choice(B.TAGS), "defl": defl, "ops": ops, "rfls": rfls[:4], "bad": bad}


def _m_write(rng, plain=None, wide=False):
    fa = None if (plain if plain is not None else rng.random() < 0.5) else \
        B.wpick(rng, wide, ["Fl", "generic", "Darwin", ""], B.LONG_FLAVORS)
    return ["write", rng.choice(FILES), rng.random() < 0.6, fa, rng.random() < 0.25]


def gen_mops(rng):
    bad = rng.random() < 0.1
    wide = rng.random() < B.P_WIDE_CASE
    ops = []
    for _ in range(rng.choice([0, 1, 2, 3, 3, 5])):
        ops.append(["add", B.gen_dep(rng, bad, wide)])
    style = rng.choice(["free", "free", "writes", "publish"])
    if style == "publish":
        for _ in range(rng.choice([1, 1, 2])):
            ops.append(_m_write(rng, plain=False, wide=wide))
        ops.append(_m_write(rng, plain=True, wide=wide))
        ops[-1][4] = False
        if rng.random() < 0.4:
            ops.append(["read", ops[-1][1], rng.random() < 0.5, rng.random() < 0.3])
    elif style == "writes":
        for _ in range(rng.choice([2, 3, 4])):
            ops.append(_m_write(rng, wide=wide))
    else:
        written = []
        for _ in range(rng.choice([1, 2, 3, 4, 6])):
            r = rng.random()
            if r < 0.25:
                ops.append(["add", B.gen_dep(rng, bad, wide)])
            elif r < 0.65:
                ops.append(_m_write(rng, wide=wide))
                if not ops[-1][4]:
                    written.append(ops[-1][1])
            elif r < 0.75:
                ops.append(["reverse"])
            else:
                ops.append(["read", rng.choice(written) if written and rng.random() < 0.85 else rng.choice(FILES),
                            rng.random() < 0.5, rng.random() < 0.3])
    prod = B.wpick(rng, wide, [None, "top", "afw", "x(y)"] + (B.BAD[:4] if bad else []), B.LONG_PRODUCTS)
    vers = B.wpick(rng, wide, [None, "1.0", "2)", "svn1"] + (B.BAD[:4] if bad else []), B.LONG_VERSIONS)
    return {"kind": "mops", "product": prod, "version": vers, "efl": B.wpick(rng, wide, B.EFLS, B.LONG_FLAVORS),
            "ops": ops, "bad": bad}


# ------------------------------------------------------------------ implementation (inside the forked child)

def _files(d, canon=False):
    out = {}
    for f in sorted(os.listdir(d)):
        with open(os.path.join(d, f), newline="") as fd:
            out[f] = B.canon_text(fd.read()) if canon else fd.read()
    return out


def impl_tlops(c, S, tmp, devnull):
    d = os.path.join(tmp, "ops")
    shutil.rmtree(d, ignore_errors=True)
    os.makedirs(d)
    t = S.TaggedProductList(c["tag"], c["defl"], log=devnull)
    steps = []
    for op in c["ops"]:
        st = {}
        try:
            if op[0] == "add":
                t.addProduct(op[1], op[2], op[3], list(op[4]) if op[4] else None)
            elif op[0] == "write":
                t.write(os.path.join(d, op[1]), flavor=op[2], noaction=op[3])
            elif op[0] == "read":
                t.read(os.path.join(d, op[1]))
        except S.RemoteFileInvalid:
            st["err"] = "BadTable"
        except IndexError:
            st["err"] = "Crash"
        except (IOError, OSError):
            st["err"] = "NotFound"
        if "err" in st:
            steps.append(st)
            break
        st["products"] = [list(r) for r in t.getProducts()]
        st["files"] = _files(d)
        if op[0] == "write" and not op[3]:
            st["rb"] = {}
            for rfl in c["rfls"]:
                try:
                    st["rb"][rfl] = S.TaggedProductList.fromFile(os.path.join(d, op[1]), c["tag"], rfl,
                                                                 log=devnull).getProducts()
                except S.RemoteFileInvalid:
                    st["rb"][rfl] = {"err": "BadTable"}
                except IndexError:
                    st["rb"][rfl] = {"err": "Crash"}
        steps.append(st)
    return {"steps": steps}


def impl_mops(c, S, Stub, tmp, devnull):
    d = os.path.join(tmp, "ops")
    shutil.rmtree(d, ignore_errors=True)
    os.makedirs(d)
    m = S.Manifest(c["product"], c["version"], eupsenv=Stub(c["efl"]), log=devnull)
    steps = []
    for op in c["ops"]:
        st = {}
        try:
            if op[0] == "add":
                x = op[1]
                m.addDependency(x["product"], x["version"], x["flavor"], x["table"], x["dir"], x["distid"],
                                isOptional=x["opt"])
            elif op[0] == "write":
                m.write(os.path.join(d, op[1]), noOptional=op[2], flavor=op[3], noaction=op[4])
            elif op[0] == "read":
                m.read(os.path.join(d, op[1]), setproduct=op[2], shouldRecurse=True if op[3] else None)
            elif op[0] == "reverse":
                m.reverse()
        except RuntimeError:
            st["err"] = "err"
        except (IOError, OSError):
            st["err"] = "NotFound"
        if "err" in st:
            steps.append(st)
            break
        st["product"], st["version"] = m.product, m.version
        st["deps"] = [B._dep_out(p) for p in m.getProducts()]
        st["files"] = _files(d, canon=True)
        if op[0] == "write" and not op[4]:
            fresh = S.Manifest(eupsenv=Stub("unused"), verbosity=-1, log=devnull)
            try:
                fresh.read(os.path.join(d, op[1]))
                st["rb"] = {"product": fresh.product, "version": fresh.version,
                            "deps": [B._dep_out(p) for p in fresh.getProducts()]}
            except RuntimeError:
                st["rb"] = {"err": "err"}
        steps.append(st)
    return {"steps": steps}


# ------------------------------------------------------------------ model side

def _enc_tlop(o):
    if o[0] == "add":
        return ",".join(["A", enc(o[1]), enc(o[2]), B.enc_opt(o[3]), enc_list(";", o[4])])
    if o[0] == "write":
        return ",".join(["W", enc(o[1]), B.enc_opt(o[2]), B.B(o[3])])
    return ",".join(["R", enc(o[1])])


def _enc_mop(o):
    if o[0] == "add":
        return "A:" + B.enc_dep(o[1])
    if o[0] == "write":
        return ":".join(["W", enc(o[1]), B.B(o[2]), B.enc_opt(o[3]), B.B(o[4])])
    if o[0] == "read":
        return ":".join(["R", enc(o[1]), B.B(o[2]), B.B(o[3])])
    return "V"


def model_lines(c, impl):
    if c["kind"] == "tlops":
        ls = ["\t".join(["tlops", enc(c["tag"]), B.enc_opt(c["defl"]), "|".join(_enc_tlop(o) for o in c["ops"])])]
        for op, st in zip(c["ops"], impl.get("steps", [])):
            if "rb" in st:
                for rfl in c["rfls"]:
                    ls.append("\t".join(["tlread", enc(c["tag"]), B.enc_opt(rfl), enc(st["files"].get(op[1], ""))]))
        return ls
    ls = ["\t".join(["mops", enc(c["efl"]), enc(B.WHO), enc(B.TIME), enc(B.VER), B.enc_opt(c["product"]),
                     B.enc_opt(c["version"]), "|".join(_enc_mop(o) for o in c["ops"])])]
    for op, st in zip(c["ops"], impl.get("steps", [])):
        if "rb" in st:
            ls.append("\t".join(["mread", "1", "1", "0", enc(st["files"].get(op[1], ""))]))
    return ls


def _dec_files(s):
    out = {}
    for e in (s.split(";") if s else []):
        n, _, t = e.partition("=")
        out[dec(n)] = dec(t)
    return out


def model_result(c, fs, impl):
    """fs: the answers split at TAB; the read-back answers are attached to the steps the implementation
    read back at"""
    f0 = fs[0]
    steps = []
    if c["kind"] == "tlops":
        body = f0[2:]
        for j in range(0, len(body) - 1, 2):
            steps.append({"products": B.dec_products(body[j]), "files": _dec_files(body[j + 1])})
    else:
        body = f0[2:]
        for j in range(0, len(body) - 3, 4):
            steps.append({"product": B.dec_opt(body[j]), "version": B.dec_opt(body[j + 1]),
                          "deps": B.dec_deps(body[j + 2]), "files": _dec_files(body[j + 3])})
    if f0[1] != "-":
        e = f0[1]
        if c["kind"] == "mops" and e in ("BadTable", "Crash"):
            e = "err"
        steps.append({"err": e})
    n = 1
    for op, st, ms in zip(c["ops"], impl.get("steps", []), steps):
        if "rb" not in st:
            continue
        if c["kind"] == "tlops":
            ms["rb"] = {}
            for rfl in c["rfls"]:
                f = fs[n]
                n += 1
                ms["rb"][rfl] = {"err": B.err_of(f)} if f[0] == "err" else B.dec_products(f[1] if len(f) > 1 else "")
        else:
            f = fs[n]
            n += 1
            ms["rb"] = {"err": "err"} if f[0] == "err" else B.dec_manifest(f)
    return {"steps": steps}


# ------------------------------------------------------------------ the property's own oracle

def wf_tlops(c):
    ok = c["defl"] is None or B.is_word(c["defl"])
    for o in c["ops"]:
        if o[0] == "add":
            ok = ok and B.is_word(o[1]) and not o[1].startswith("#") and B.is_word(o[2])
            ok = ok and (o[3] is None or B.is_word(o[3])) and all(B.is_word(e) for e in o[4])
        elif o[0] == "write":
            ok = ok and (o[2] is None or B.is_word(o[2]))
    return ok and all(B.is_word(r) for r in c["rfls"])


def _sub(c, n):
    """the case cut after step n (what happens at step n does not depend on later steps)"""
    return dict(c, ops=c["ops"][:n + 1])


def oracle_tlops(c, i):
    """(kind, sub-case, expected, observed, what) or None"""
    if not wf_tlops(c):
        return None
    F = c["defl"] if c["defl"] is not None else "generic"
    cur = {}                # product -> [flavor, version, extras...], in the order of first addProduct
    files = {}              # file -> {product -> [flavor, version, extras...]} : the rows the file must hold
    for n, op in enumerate(c["ops"]):
        if n >= len(i["steps"]):
            return ("taglist-ops", _sub(c, n), None, None, "step %d was not run" % n)
        st = i["steps"][n]
        if op[0] == "add":
            cur[op[1]] = [op[3] if op[3] is not None else F, op[2]] + list(op[4])
        elif op[0] == "write":
            if not op[3]:
                files[op[1]] = {p: [op[2] if op[2] is not None else info[0]] + info[1:] for p, info in cur.items()}
        else:
            if op[1] not in files:
                return None         # reading a file that was never written: nothing is promised
            for p in sorted(files[op[1]]):
                info = files[op[1]][p]
                if info[0] in (F, "generic"):
                    cur[p] = [F] + info[1:]
        if "err" in st:
            return ("taglist-ops", _sub(c, n), None, st, "%s fails (%s) on a well-formed list" % (op[0], st["err"]))
        exp = [[p] + info for p, info in cur.items()]
        if st["products"] != exp:
            what = {"add": "addProduct", "write": "a dry run" if op[0] == "write" and op[3] else "write",
                    "read": "read"}[op[0]]
            if op[0] == "write":
                return ("taglist-write-changes-list", _sub(c, n), exp, st["products"],
                        "%s(%s) changed the list it writes: before %r" % (
                            what, "flavor=%r" % op[2] if op[2] is not None else "", exp))
            return ("taglist-object-after-" + op[0], _sub(c, n), exp, st["products"],
                    "after %s the object holds %r" % (what, st["products"]))
        if sorted(st["files"]) != sorted(files):
            return ("taglist-files", _sub(c, n), sorted(files), sorted(st["files"]),
                    "files on disk after %s%s" % (op[0], " (dry run)" if op[0] == "write" and op[3] else ""))
        if op[0] == "write" and not op[3]:
            for rfl in c["rfls"]:
                got = st["rb"][rfl]
                want = [[p, rfl] + files[op[1]][p][1:] for p in sorted(files[op[1]])
                        if files[op[1]][p][0] in (rfl, "generic")]
                if got != want:
                    return ("taglist-roundtrip", dict(_sub(c, n), rfls=[rfl]), want, got,
                            "step %d: the list written%s and read back for %s gives %r, the list holds %r" % (
                                n, " with flavor=%r" % op[2] if op[2] is not None else "", rfl, got, want))
    return None


def wf_mops(c):
    ok = all(x is None or B.is_word(x) for x in (c["product"], c["version"])) and B.is_word(c["efl"])
    for o in c["ops"]:
        if o[0] == "add":
            d = o[1]
            ok = ok and B.is_word(d["product"]) and not d["product"].startswith("#") and B.is_word(d["version"])
            ok = ok and all(B.is_oword(d[k]) for k in ("flavor", "table", "dir", "distid"))
        elif o[0] == "write":
            ok = ok and (o[3] in (None, "") or B.is_word(o[3]))
    return ok


MF = ["product", "version", "flavor", "table", "dir", "distid", "opt"]


def oracle_mops(c, i):
    if not wf_mops(c):
        return None
    prod, vers = c["product"], c["version"]
    cur = []                # the entries, in order
    files = {}              # file -> what reading it must give
    for n, op in enumerate(c["ops"]):
        if n >= len(i["steps"]):
            return ("manifest-ops", _sub(c, n), None, None, "step %d was not run" % n)
        st = i["steps"][n]
        if op[0] == "add":
            d = op[1]
            cur.append({"product": d["product"], "version": d["version"], "flavor": d["flavor"], "table": d["table"],
                        "dir": d["dir"], "distid": None if d["distid"] == "None" else d["distid"],
                        "opt": bool(d["opt"])})
        elif op[0] == "write":
            if not op[4]:
                files[op[1]] = {
                    "product": prod if prod is not None else "UNKNOWN_PRODUCT",
                    "version": vers if vers is not None else "generic",
                    "deps": [{"product": d["product"], "version": d["version"],
                              "flavor": op[3] or d["flavor"] or c["efl"],
                              "table": d["table"] or "none", "dir": d["dir"] or "none",
                              "distid": None if d["distid"] in (None, "", "None", "search") else d["distid"]}
                             for d in cur if not (d["opt"] and op[2])]}
        elif op[0] == "read":
            if op[1] not in files:
                return None
            f = files[op[1]]
            if op[2] or prod is None:
                prod = f["product"]
            if op[2] or vers is None:
                vers = f["version"]
            cur += [dict(d, opt=False) for d in f["deps"]]
        else:
            cur.reverse()
        if "err" in st:
            return ("manifest-ops", _sub(c, n), None, st, "%s fails (%s) on a well-formed manifest" % (op[0], st["err"]))
        got = {"product": st["product"], "version": st["version"], "deps": [{k: d[k] for k in MF} for d in st["deps"]]}
        exp = {"product": prod, "version": vers, "deps": cur}
        if got != exp:
            if op[0] == "write":
                return ("manifest-write-changes-manifest", _sub(c, n), exp, got,
                        "write%s changed the manifest it writes" % (" (dry run)" if op[4] else ""))
            return ("manifest-object-after-" + op[0], _sub(c, n), exp, got, "the object after " + op[0])
        if sorted(st["files"]) != sorted(files):
            return ("manifest-files", _sub(c, n), sorted(files), sorted(st["files"]),
                    "files on disk after %s%s" % (op[0], " (dry run)" if op[0] == "write" and op[4] else ""))
        if op[0] == "write" and not op[4]:
            rb = st["rb"]
            want = files[op[1]]
            if "err" in rb:
                return ("manifest-roundtrip", _sub(c, n), want, rb, "a well-formed manifest cannot be read back")
            gotrb = B.proj(rb)
            if gotrb != want:
                kind = "manifest-roundtrip"
                if [d["product"] for d in gotrb["deps"]] != [d["product"] for d in want["deps"]]:
                    kind = "manifest-order"
                else:
                    for g, e in zip(gotrb["deps"], want["deps"]):
                        bad = [k for k in B.FIELDS if g[k] != e[k]]
                        if bad:
                            kind = "manifest-field-" + bad[0]
                            break
                return (kind, _sub(c, n), want, gotrb, "step %d: the manifest written and read back differs from the "
                        "manifest held" % n)
    return None


# ------------------------------------------------------------------ histogram

def shape(c):
    k = c["kind"]
    ops = c["ops"]
    wi = 2 if k == "tlops" else 3          # position of the override
    ni = 3 if k == "tlops" else 4          # position of noaction
    ws = [o for o in ops if o[0] == "write"]
    ovr = any(o[wi] for o in ws)
    dry = any(o[ni] for o in ws)
    seq = False                            # a real write somewhere after a write with an override
    seen = False
    for o in ws:
        if seen and not o[ni]:
            seq = True
        if o[wi]:
            seen = True
    wf = wf_tlops(c) if k == "tlops" else wf_mops(c)
    return "%s/%s/writes=%d/override=%d/dry=%d/reads=%d/write-after-override=%d" % (
        k, "wf" if wf else "bad", min(len(ws), 3), ovr, dry, min(sum(1 for o in ops if o[0] == "read"), 2), seq)
