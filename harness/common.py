"""Shared machinery of the eups verification checks.

Every property module harness/cNN.py defines  run(ctx)  and uses the helpers here:

  ctx.check_theorems()            re-check coq/Props/CNN.v with coqc, collect Print Assumptions
  ctx.model(lines)                run the extracted Coq model (build/cNN/run) on a batch of lines
  ctx.disagree(case, m, i)        model and implementation differ on a case (correspondence broken)
  ctx.fail(kind, case, ...)       the property's direct oracle is false on the implementation
  ctx.count(...) / ctx.sample()   evidence bookkeeping
  ctx.finish()                    verdict, replay files, evidence file, exit code

Implementation side helpers: scrubbed_environ(), in_child(), enc()/dec().
"""
import hashlib
import json
import os
import random
import re
import shutil
import subprocess
import sys
import tempfile
import time
import traceback

ROOT = os.path.dirname(os.path.dirname(os.path.abspath(__file__)))
REPO = os.environ.get("EUPS_VERIF_REPO", "/repo")
COQ = os.path.join(ROOT, "coq")
BUILD = os.path.join(ROOT, "build")
PY = "/venv/bin/python"

ALLOWED_AXIOMS = {
    # none needed so far; stdlib axioms that may legitimately appear are listed here with the
    # reason, and each is named in DESIGN.md section 3
}

FORBIDDEN = re.compile(
    r"\b(Admitted|admit|Axiom|Axioms|Parameter|Parameters|Conjecture|Conjectures|"
    r"bypass_check|Unset\s+Guard\s+Checking|Unset\s+Positivity\s+Checking|"
    r"Unset\s+Universe\s+Checking|type-in-type|impredicative-set|Admit\s+Obligations)\b")


# ----------------------------------------------------------------------------- encoding

_SAFE = set("ABCDEFGHIJKLMNOPQRSTUVWXYZabcdefghijklmnopqrstuvwxyz0123456789_./-")


def enc(s):
    """percent-encoding shared with ocaml/prelude.ml (latin-1 bytes)"""
    if isinstance(s, str):
        s = s.encode("latin-1")
    return "".join(chr(b) if chr(b) in _SAFE else "%%%02X" % b for b in s)


def dec(s):
    out = bytearray()
    i = 0
    n = len(s)
    while i < n:
        if s[i] == "%" and i + 2 < n + 0:
            out.append(int(s[i + 1:i + 3], 16))
            i += 3
        else:
            out.append(ord(s[i]))
            i += 1
    return out.decode("latin-1")


def enc_list(sep, items, f=enc):
    return sep.join((f(x) or "%") for x in items)


def dec_list(sep, s, f=dec):
    if s == "":
        return []
    return [f("" if x == "%" else x) for x in s.split(sep)]


def enc_env(env):
    """dict or list of pairs -> k=v;k=v"""
    items = env.items() if isinstance(env, dict) else env
    return ";".join(enc(k) + "=" + enc(v) for k, v in items)


def dec_env(s):
    out = []
    if s == "":
        return out
    for kv in s.split(";"):
        k, _, v = kv.partition("=")
        out.append((dec(k), dec(v)))
    return out


# ----------------------------------------------------------------------------- implementation side

def scrubbed_environ(extra=None):
    """A minimal environment for driving the real eups code."""
    env = {
        "PATH": "/usr/bin:/bin",
        "HOME": os.environ.get("HOME", "/root"),
        "EUPS_SHELL": "sh",
        "PYTHONPATH": os.path.join(REPO, "python"),
        "PYTHONHASHSEED": "0",
        "LANG": "C",
    }
    if extra:
        env.update(extra)
    return env


def import_eups():
    """Import eups from the current working tree of /repo (never an installed copy)."""
    p = os.path.join(REPO, "python")
    if p not in sys.path:
        sys.path.insert(0, p)
    import eups  # noqa
    assert os.path.realpath(eups.__file__).startswith(os.path.realpath(p)), eups.__file__
    return eups


def in_child(fn, *args, timeout=120, environ=None):
    """Run fn(*args) in a forked child; return ("ok", json-able result) or ("exc", class name, text)
    or ("died", status).  The child may wreck os.environ and module singletons freely."""
    r, w = os.pipe()
    pid = os.fork()
    if pid == 0:
        code = 0
        try:
            os.close(r)
            if not os.environ.get("EUPS_VERIF_DEBUG"):
                dn = os.open(os.devnull, os.O_WRONLY)     # eups chatters on stdout/stderr
                os.dup2(dn, 1)
                os.dup2(dn, 2)
            covdir = os.environ.get("EUPS_VERIF_COVERAGE")      # tools/coverage_report.py: which lines of /repo ran
            cov = None
            if covdir:
                import coverage
                cov = coverage.Coverage(data_file=os.path.join(covdir, ".coverage"), data_suffix=True,
                                        include=[os.path.join(REPO, "python", "eups", "*")])
                cov.start()
            if environ is not None:
                os.environ.clear()
                os.environ.update(environ)
            try:
                res = ("ok", fn(*args))
            except BaseException as e:  # noqa
                res = ("exc", type(e).__name__, str(e)[:2000], traceback.format_exc()[-3000:])
            if cov is not None:
                cov.stop()
                cov.save()
            data = json.dumps(res).encode()
            with os.fdopen(w, "wb") as f:
                f.write(data)
        except BaseException:  # noqa
            code = 3
        finally:
            os._exit(code)
    os.close(w)
    chunks = []
    with os.fdopen(r, "rb") as f:
        while True:
            b = f.read(1 << 16)
            if not b:
                break
            chunks.append(b)
    _, status = os.waitpid(pid, 0)
    data = b"".join(chunks)
    if not data:
        return ("died", status)
    return tuple(json.loads(data.decode()))


def par_map(fn, arglists, nproc=14, timeout=300):
    """run fn(*args) for every args tuple in forked children, nproc at a time; results (in_child tuples) in order"""
    from concurrent.futures import ThreadPoolExecutor
    with ThreadPoolExecutor(max_workers=nproc) as ex:
        return list(ex.map(lambda a: in_child(fn, *a, timeout=timeout), arglists))


def scratch_dir(prefix="eups-verif."):
    base = os.environ.get("EUPS_VERIF_SCRATCH") or os.environ.get("TMPDIR") or "/tmp"
    return tempfile.mkdtemp(prefix=prefix, dir=base)


# ----------------------------------------------------------------------------- model side

def run_cmd(cmd, cwd=None, timeout=900, env=None):
    p = subprocess.run(cmd, cwd=cwd, stdout=subprocess.PIPE, stderr=subprocess.STDOUT,
                       timeout=timeout, env=env, text=True, errors="replace")
    return p.returncode, p.stdout


def coq_sources():
    out = []
    for d, _, fs in os.walk(COQ):
        for f in fs:
            if f.endswith(".v"):
                out.append(os.path.join(d, f))
    return sorted(out)


def regen_coqproject():
    """_CoqProject lists every .v under Base, Model, Proofs, Props, Generated (not Extract); regenerate it
    and the Makefile when the set of files changed."""
    files = []
    for sub in ("Base", "Model", "Proofs", "Props", "Generated"):
        d = os.path.join(COQ, sub)
        if os.path.isdir(d):
            for dd, _, fs in os.walk(d):
                for f in sorted(fs):
                    if f.endswith(".v") and not f.startswith("."):
                        files.append(os.path.relpath(os.path.join(dd, f), COQ))
    files.sort()
    want = "-Q . Eupsv\n" + "\n".join(files) + "\n"
    cp = os.path.join(COQ, "_CoqProject")
    have = open(cp).read() if os.path.exists(cp) else ""
    if want != have or not os.path.exists(os.path.join(COQ, "Makefile")):
        tmp = cp + ".tmp%d" % os.getpid()
        with open(tmp, "w") as f:
            f.write(want)
        os.replace(tmp, cp)
        run_cmd(["coq_makefile", "-f", "_CoqProject", "-o", "Makefile"], cwd=COQ)


def ensure_coq_built(targets=None):
    """Incremental build (setup.sh does the full one from clean).  With targets (paths of .vo files relative
    to coq/) only those and what they depend on are built, so another property's broken file cannot fail this
    property's check."""
    with coq_lock():
        regen_coqproject()
        cmd = ["timeout", "1500", "make", "-j", str(os.cpu_count() or 8)] + list(targets or [])
        rc, out = run_cmd(cmd, cwd=COQ, timeout=1600)
    return rc == 0, out


class coq_lock(object):
    """One writer of compiled Coq files at a time: checks of different properties may run at the same moment, and
    two makes (or a make and an extraction reading the .vo files) in one tree give inconsistent-assumption errors."""
    def __init__(self, shared=False):
        self.shared = shared

    def __enter__(self):
        import fcntl
        os.makedirs(BUILD, exist_ok=True)
        self.f = open(os.path.join(BUILD, "coq.lock"), "a")
        fcntl.flock(self.f, fcntl.LOCK_SH if self.shared else fcntl.LOCK_EX)
        return self

    def __exit__(self, *a):
        import fcntl
        fcntl.flock(self.f, fcntl.LOCK_UN)
        self.f.close()


def ensure_model_built(pid):
    """(Re)build build/<pid>/run when missing or older than any Coq/OCaml source."""
    low = pid.lower()
    exe = os.path.join(BUILD, low, "run")
    srcs = coq_sources() + [os.path.join(ROOT, "ocaml", "prelude.ml"),
                            os.path.join(ROOT, "ocaml", "drv_%s.ml" % low)]
    def fresh():
        if os.path.exists(exe):
            t = os.path.getmtime(exe)
            return all(os.path.getmtime(s) <= t for s in srcs if os.path.exists(s))
        return False
    if fresh():
        return True, ""
    # several checks share one model (C01, C02, C04, C17 use build/c01) and may run at the same time: one
    # builder at a time per model; whoever waited looks again before building
    import fcntl
    os.makedirs(BUILD, exist_ok=True)
    with open(os.path.join(BUILD, low + ".lock"), "w") as lk:
        fcntl.flock(lk, fcntl.LOCK_EX)
        try:
            if fresh():
                return True, ""
            with coq_lock():
                rc, out = run_cmd([os.path.join(ROOT, "build_model.sh"), low], cwd=ROOT)
            return rc == 0, out
        finally:
            fcntl.flock(lk, fcntl.LOCK_UN)


class ModelError(Exception):
    pass


def run_model(pid, lines, exe=None):
    """Feed lines (list of str, no newlines) to the extracted model; one output line per input."""
    exe = exe or os.path.join(BUILD, pid.lower(), "run")
    if not lines:
        return []
    data = "\n".join(lines) + "\n"
    old = None
    p = subprocess.run(["/bin/sh", "-c", "ulimit -s unlimited 2>/dev/null; exec '%s'" % exe],
                       input=data, stdout=subprocess.PIPE, stderr=subprocess.PIPE, text=True)
    out = p.stdout.split("\n")
    if out and out[-1] == "":
        out.pop()
    if p.returncode != 0 or len(out) != len(lines):
        raise ModelError("model runner failed rc=%s, %d lines for %d inputs: %s" %
                         (p.returncode, len(out), len(lines), p.stderr[-500:]))
    return out


# ----------------------------------------------------------------------------- theorems

def parse_assumptions(text):
    """Split coqc output into one entry per Print Assumptions: [] for closed, else axiom names."""
    res = []
    lines = text.split("\n")
    i = 0
    while i < len(lines):
        ln = lines[i]
        if ln.startswith("Closed under the global context"):
            res.append([])
        elif ln.startswith("Axioms:"):
            ax = []
            i += 1
            while i < len(lines) and lines[i].strip() != "" and \
                    not lines[i].startswith("Closed under") and not lines[i].startswith("Axioms:"):
                m = re.match(r"^([A-Za-z_][\w.']*)\s*:", lines[i])
                if m:
                    ax.append(m.group(1))
                i += 1
            res.append(ax)
            continue
        i += 1
    return res


def coq_closure(files):
    """the .v files (absolute paths) that the given files transitively Require from this development"""
    seen, todo = [], list(files)
    while todo:
        f = todo.pop()
        if f in seen or not os.path.exists(f):
            continue
        seen.append(f)
        txt = open(f, encoding="utf-8", errors="replace").read()
        mods = []
        for m in re.finditer(r"From\s+Eupsv\s+Require\s+(?:Import\s+|Export\s+)?(.*?)\.(?=\s|$)", txt, re.S):
            mods += m.group(1).split()
        for m in re.finditer(r"\bEupsv\.([A-Za-z_][\w]*(?:\.[A-Za-z_]\w*)*)", txt):
            mods.append(m.group(1))
        for mod in mods:
            cand = os.path.join(COQ, *mod.split(".")) + ".v"
            if os.path.exists(cand):
                todo.append(cand)
    return sorted(seen)


def forbidden_scan(files=None):
    hits = []
    for f in (files if files is not None else coq_sources()):
        txt = open(f, encoding="utf-8", errors="replace").read()
        for m in FORBIDDEN.finditer(txt):
            line = txt.count("\n", 0, m.start()) + 1
            hits.append("%s:%d:%s" % (os.path.relpath(f, ROOT), line, m.group(0)))
    return hits


# ----------------------------------------------------------------------------- known findings

def load_known_findings(pid):
    p = os.path.join(ROOT, "known_findings.json")
    if not os.path.exists(p):
        return []
    data = json.load(open(p))
    return [f for f in data.get("findings", []) if f.get("property") == pid]


# ----------------------------------------------------------------------------- the context

class Ctx:
    def __init__(self, pid, tier, seed, replay=None):
        self.pid = pid
        self.tier = tier
        self.seed = seed
        self.rng = random.Random(seed)
        self.replay = replay
        self.t0 = time.time()
        self.evaluations = 0
        self.nontrivial = set()
        self.samples = []
        self.hist = {}
        self.failures = []          # oracle failures on the implementation
        self.disagreements = []     # model vs implementation
        self.proof_problems = []    # theorem check problems
        self.obligations = 0
        self.discharged = 0
        self.theorems = []
        self.axioms = {}
        self.checker_cmds = []
        self.extra = {}
        self.assumptions = []
        self.trusted_base = []
        self.rule = ""
        self.traces_validated = 0
        self.exhaustive = False
        self.matchers = {}          # finding matcher name -> predicate(failure) (set by the module)
        self.known = load_known_findings(pid)
        self.known_hit = {}
        self.notes = []
        self.scale = 1              # > 1 in the enlarged search for a failing input
        self.skip_theorems = False

    # ---- sizes
    def size(self, quick, thorough):
        return thorough if self.tier == "thorough" else quick * self.scale

    # ---- theorems
    def check_theorems(self, extra_files=()):
        if self.skip_theorems:
            return True
        ok, out = ensure_coq_built(["Props/%s.vo" % self.pid] +
                                   [os.path.relpath(f, COQ)[:-2] + ".vo" for f in extra_files])
        if not ok:
            self.proof_problems.append({"theorem": None, "what": "the Coq files this property depends on do not build",
                                        "log": out[-3000:]})
        files = [os.path.join(COQ, "Props", self.pid + ".v")] + list(extra_files)
        closure = coq_closure(files)
        self.extra["coq_files_in_closure"] = [os.path.relpath(f, COQ) for f in closure]
        hits = forbidden_scan(closure)
        if hits:
            self.proof_problems.append({"theorem": None, "what": "forbidden construct", "hits": hits[:20]})
        for f in files:
            if not os.path.exists(f):
                self.proof_problems.append({"theorem": None, "what": "missing " + f})
                continue
            src = open(f).read()
            names = re.findall(r"^\s*(?:Theorem|Corollary)\s+([A-Za-z_][\w']*)", src, re.M)
            printed = re.findall(r"^\s*Print Assumptions\s+([A-Za-z_][\w'.]*)\s*\.", src, re.M)
            self.obligations += len(names)
            outdir = tempfile.mkdtemp(prefix="props.", dir=BUILD if os.path.isdir(BUILD) else None)
            try:
                cmd = ["timeout", "600", "coqc", "-Q", COQ, "Eupsv", "-o",
                       os.path.join(outdir, os.path.basename(f)[:-2] + ".vo"), f]
                self.checker_cmds.append(" ".join(cmd))
                with coq_lock(shared=True):      # reads the compiled files; no make may rewrite them meanwhile
                    rc, out = run_cmd(cmd, cwd=COQ, timeout=700)
            finally:
                shutil.rmtree(outdir, ignore_errors=True)
            if rc != 0:
                m = re.search(r'File "[^"]*", line (\d+)', out)
                thm = None
                if m:
                    upto = "\n".join(src.split("\n")[:int(m.group(1))])
                    prev = re.findall(r"^\s*(?:Theorem|Corollary|Lemma|Example)\s+([A-Za-z_][\w']*)", upto, re.M)
                    thm = prev[-1] if prev else None
                self.proof_problems.append({"theorem": thm, "what": "coqc rejects " + os.path.basename(f),
                                            "log": out[-3000:]})
                continue
            ass = parse_assumptions(out)
            if set(names) - set(printed) or len(ass) != len(printed):
                self.proof_problems.append({"theorem": None, "what":
                                            "Print Assumptions missing for %s" % sorted(set(names) - set(printed))})
                continue
            for n, ax in zip(printed, ass):
                bad = [a for a in ax if a not in ALLOWED_AXIOMS]
                self.axioms[n] = ax
                if n in names:
                    self.theorems.append(n)
                    if bad:
                        self.proof_problems.append({"theorem": n, "what": "depends on axioms not in the allow-list",
                                                    "axioms": bad})
                    else:
                        self.discharged += 1
        if self.tier == "thorough" and not self.proof_problems:
            # second opinion: the independent checker re-checks the compiled property file and everything it
            # depends on, and lists the axioms of every loaded library
            self.coqchk(["Eupsv.Props." + self.pid])
        return not self.proof_problems

    def coqchk(self, modules):
        cmd = ["timeout", "1500", "coqchk", "-silent", "-o", "-Q", COQ, "Eupsv"] + list(modules)
        self.checker_cmds.append(" ".join(cmd))
        rc, out = run_cmd(cmd, cwd=COQ, timeout=1600)
        self.extra["coqchk"] = {"rc": rc, "tail": out[-1500:]}
        m = re.search(r"\* Axioms:(.*?)\n\s*\n\* Constants", out, re.S)
        axioms = [a.strip() for a in (m.group(1).split("\n") if m else []) if a.strip() and a.strip() != "<none>"]
        self.extra["coqchk"]["axioms"] = axioms
        bad = [a for a in axioms if a not in ALLOWED_AXIOMS]
        if bad:
            self.proof_problems.append({"theorem": None, "what": "coqchk lists axioms outside the allow-list", "axioms": bad})
        if rc != 0:
            self.proof_problems.append({"theorem": None, "what": "coqchk failed", "log": out[-2000:]})

    # ---- model
    def model(self, lines, pid=None):
        pid = pid or self.pid
        ok, out = ensure_model_built(pid)
        if not ok:
            raise ModelError("cannot build model for %s: %s" % (pid, out[-2000:]))
        return run_model(pid, lines)

    # ---- bookkeeping
    def count(self, n=1, key=None, nontrivial=None):
        self.evaluations += n
        if key is not None:
            self.hist[key] = self.hist.get(key, 0) + n
        if nontrivial is not None:
            self.nontrivial.add(nontrivial if isinstance(nontrivial, (str, int, tuple)) else json.dumps(nontrivial, sort_keys=True))

    def bump(self, key, n=1):
        self.hist[key] = self.hist.get(key, 0) + n

    def sample(self, x, limit=3):
        if len(self.samples) < limit:
            self.samples.append(x)

    def disagree(self, case, model_out, impl_out, where=""):
        self.disagreements.append({"case": case, "model": model_out, "impl": impl_out, "where": where})

    def fail(self, kind, case, expected=None, observed=None, what=""):
        """The property itself is false on the implementation for this case."""
        self.failures.append({"kind": kind, "input": case, "expected": expected, "observed": observed,
                              "what": what})

    # ---- verdict
    def _replay_path(self, obj):
        h = hashlib.sha1(json.dumps(obj, sort_keys=True, default=str).encode()).hexdigest()[:12]
        d = os.path.join(ROOT, "replays")
        os.makedirs(d, exist_ok=True)
        return os.path.join(d, "%s-%s.json" % (self.pid, h))

    def _write_replay(self, kind, **kw):
        obj = {"property": self.pid, "tier": self.tier, "seed": self.seed, "kind": kind}
        obj.update(kw)
        path = self._replay_path(obj)
        obj["how_to_replay"] = "./check %s --replay %s" % (self.pid, path)
        with open(path, "w") as f:
            json.dump(obj, f, indent=1, sort_keys=True, default=str)
        return path

    def _known(self, failure):
        for k in self.known:
            if k.get("status") != "open":
                continue
            m = self.matchers.get(k.get("matcher"))
            try:
                if m and m(failure):
                    return k
            except Exception:  # noqa
                pass
        return None

    def finish(self):
        violations = 0
        lines = []
        unknown = []
        for f in self.failures:
            k = self._known(f)
            if k is not None:
                self.known_hit.setdefault(k["id"], []).append(f)
            else:
                unknown.append(f)
        for k in self.known:
            if k.get("status") == "open" and k["id"] in self.known_hit:
                lines.append("KNOWN-FINDING: property=%s %s (%d cases this run, e.g. %s)" % (
                    self.pid, k["what"], len(self.known_hit[k["id"]]),
                    json.dumps(self.known_hit[k["id"]][0]["input"], default=str)[:300]))
        if unknown:
            # one replay per distinct kind, smallest input first
            seen = set()
            for f in sorted(unknown, key=lambda f: len(json.dumps(f["input"], default=str))):
                if f["kind"] in seen:
                    continue
                seen.add(f["kind"])
                path = self._write_replay("failing-input", input=f["input"], expected=f["expected"],
                                          observed=f["observed"], what=f["what"], failure_kind=f["kind"])
                lines.append("VIOLATION property=%s replay=%s" % (self.pid, path))
                violations += 1
            if self.disagreements:
                lines.append("  also %d model/implementation disagreements, first: %s" % (
                    len(self.disagreements), json.dumps(self.disagreements[0], default=str)[:1200]))
        elif self.proof_problems or self.disagreements:
            # the property is no longer shown to hold, but no failing input was found
            path = self._write_replay(
                "proof-broken" if self.proof_problems else "correspondence-broken",
                theorem=[p.get("theorem") for p in self.proof_problems] or None,
                proof_problems=self.proof_problems[:5],
                first_disagreement=self.disagreements[0] if self.disagreements else None,
                n_disagreements=len(self.disagreements))
            lines.append("VIOLATION property=%s replay=%s no-failing-input-found" % (self.pid, path))
            if self.proof_problems:
                lines.append("  proof problem: %s" % json.dumps(self.proof_problems[0], default=str)[:700])
            if self.disagreements:
                lines.append("  first disagreement: %s" % json.dumps(self.disagreements[0], default=str)[:1200])
            violations += 1
        self._write_evidence(violations)
        for ln in lines:
            print(ln)
        for n in self.notes:
            print("note: " + n)
        print("%s %s: %d evaluations, %d distinct non-trivial, %d/%d theorems, %d disagreements, "
              "%d oracle failures (%d known), %.1fs" % (
                  self.pid, self.tier, self.evaluations, len(self.nontrivial), self.discharged,
                  self.obligations, len(self.disagreements), len(self.failures),
                  len(self.failures) - len(unknown), time.time() - self.t0))
        sys.stdout.flush()
        return 1 if violations else 0

    def _write_evidence(self, violations):
        cov = {
            "obligations": self.obligations,
            "discharged": self.discharged,
            "checker_cmd": " && ".join(self.checker_cmds) or "none",
            "trusted_base": self.trusted_base,
            "theorems": self.theorems,
            "axioms_per_theorem": self.axioms,
            "evaluations": self.evaluations,
            "distinct_nontrivial": len(self.nontrivial),
            "rule": self.rule,
            "samples": self.samples,
            "traces_validated_against_impl": self.traces_validated,
            "input_distribution": dict(sorted(self.hist.items())),
            "disagreements": len(self.disagreements),
            "oracle_failures": len(self.failures),
            "known_findings_seen": {k: len(v) for k, v in self.known_hit.items()},
            "exhaustive": self.exhaustive,
        }
        cov.update(self.extra)
        ev = {
            "property_id": self.pid,
            "tier": self.tier,
            "seed": self.seed,
            "level": "proof",
            "coverage": cov,
            "assumptions": self.assumptions,
            "wall_s": round(time.time() - self.t0, 2),
            "violations": violations,
        }
        # a run against another tree than /repo (EUPS_VERIF_REPO: seeded changes, proposed fixes) is a test of the
        # machinery: its evidence is kept apart from the evidence about /repo
        d = os.path.join(ROOT, "evidence") if not os.environ.get("EUPS_VERIF_REPO") else os.path.join(ROOT, "build", "evidence-other-tree")
        os.makedirs(d, exist_ok=True)
        tmp = os.path.join(d, self.pid + ".json.tmp")
        with open(tmp, "w") as f:
            json.dump(ev, f, indent=1, sort_keys=True, default=str)
        os.replace(tmp, os.path.join(d, self.pid + ".json"))


COMMON_TRUSTED = [
    "Coq 8.16.1 kernel (coqc); vm_compute only in Example/witness proofs and finite sweeps; no native_compute",
    "extraction with ExtrOcamlBasic only (no Extract Constant / Extract Inductive of our own), OCaml 4.13.1 compiler and runtime, ocaml/prelude.ml and the per-property driver (correspondence check only)",
    "the correspondence harness: generators, python drivers of /repo's code, canonicalisers, diff (testing: it ties the model to the code, it proves nothing)",
]
