"""Entry point of every registered check:  ./check CNN [--tier quick|thorough] [--replay FILE]"""
import argparse
import importlib
import os
import sys
import traceback

sys.path.insert(0, os.path.dirname(os.path.abspath(__file__)))
os.environ.setdefault("PYTHONHASHSEED", "0")
import common  # noqa


def main():
    ap = argparse.ArgumentParser()
    ap.add_argument("prop")
    ap.add_argument("--tier", default=os.environ.get("VERIF_TIER", "quick"), choices=["quick", "thorough"])
    ap.add_argument("--replay", default=None)
    ap.add_argument("--seed", type=int, default=None)
    a = ap.parse_args()
    seed = a.seed if a.seed is not None else int(os.environ.get("VERIF_SEED", "20260929") or 0)
    pid = a.prop.upper()
    os.chdir(common.ROOT)
    ctx = common.Ctx(pid, a.tier, seed, replay=a.replay)
    try:
        mod = importlib.import_module(pid.lower())
        if a.replay:
            rc = mod.replay(ctx, a.replay)
            sys.exit(rc)
        mod.run(ctx)
        unknown = [f for f in ctx.failures if not ctx._known(f)]
        if (ctx.proof_problems or ctx.disagreements) and not unknown and a.tier == "quick":
            # the property is no longer shown to hold but no failing input was met: search further (6x the
            # cases, another seed) before reporting no-failing-input-found
            ctx2 = common.Ctx(pid, a.tier, seed + 1)
            ctx2.scale, ctx2.skip_theorems = 6, True
            try:
                mod.run(ctx2)
            except BaseException as e:  # noqa
                ctx.notes.append("enlarged search stopped: %s: %s" % (type(e).__name__, e))
            ctx.failures += ctx2.failures
            ctx.evaluations += ctx2.evaluations
            ctx.nontrivial |= ctx2.nontrivial
            ctx.extra["enlarged_search"] = {"evaluations": ctx2.evaluations, "oracle_failures": len(ctx2.failures)}
    except SystemExit:
        raise
    except BaseException as e:  # the machinery itself broke: the property is not shown to hold
        traceback.print_exc()
        ctx.proof_problems.append({"theorem": None, "what": "check machinery error: %s: %s" % (type(e).__name__, e)})
    sys.exit(ctx.finish())


main()
