"""Entry point of every registered check:  ./check CNN [--tier quick|thorough] [--replay FILE]"""
import argparse
import importlib
import os
import sys
import traceback

sys.path.insert(0, os.path.dirname(os.path.abspath(__file__)))
os.environ.setdefault("PYTHONHASHSEED", "0")
import common  # noqa


def main():
    ap = argparse.ArgumentParser()
    ap.add_argument("prop")
    ap.add_argument("--tier", default=os.environ.get("VERIF_TIER", "quick"), choices=["quick", "thorough"])
    ap.add_argument("--replay", default=None)
    ap.add_argument("--seed", type=int, default=None)
    a = ap.parse_args()
    seed = a.seed if a.seed is not None else int(os.environ.get("VERIF_SEED", "20260929") or 0)
    pid = a.prop.upper()
    os.chdir(common.ROOT)
    ctx = common.Ctx(pid, a.tier, seed, replay=a.replay)
    try:
        mod = importlib.import_module(pid.lower())
        if a.replay:
            rc = mod.replay(ctx, a.replay)
            sys.exit(rc)
        mod.run(ctx)
    except SystemExit:
        raise
    except BaseException as e:  # the machinery itself broke: the property is not shown to hold
        traceback.print_exc()
        ctx.proof_problems.append({"theorem": None, "what": "check machinery error: %s: %s" % (type(e).__name__, e)})
    sys.exit(ctx.finish())


main()
