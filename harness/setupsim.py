"""Shared machinery of the setup properties C01, C02, C04 (model: coq/Model/Setup.v, driver build/c01/run).

A *world* is one stack with declared products (name, version) whose table files hold path/envSet/alias commands
and setupRequired/setupOptional lines.  A *scenario* is a list of requests run one after the other, each in a
fresh Eups instance, the environment of one being the starting environment of the next (as a shell would).
For every request the real run records: the environment before and after, the aliases, whether it succeeded, the
list of version decisions taken by the real resolver (one per forward call of Eups.setup, in call order), and the
actions the real table parser derived for every declared product.  The model is then run on (world as parsed by the
real parser, environment before, decisions) and must produce the same environment and aliases.
"""
import json
import os
import shutil
import sys

import common
from common import enc

FLAVOR = "Linux64"
NAMES = ["p1", "p2", "p3", "p4", "p5"]
VERSIONS = ["1.0", "2.0", "3.0"]


# ------------------------------------------------------------------ world generation

def gen_world(rng, nprod=None, spaces=None):
    """products p1..pn; pi depends only on pj with j < i (acyclic)"""
    n = nprod or rng.choice([3, 4, 5])
    names = NAMES[:n]
    prods = {}
    for i, name in enumerate(names):
        vs = sorted(rng.sample(VERSIONS, rng.choice([1, 2, 2, 3])))
        for v in vs:
            lines = []
            # the table's own directory: ${PRODUCT_DIR}, or spelled out as ${<NAME>_DIR} (both are replaced by the
            # directory when the table is loaded: Table.expandEupsVariables)
            pd = "${PRODUCT_DIR}" if rng.random() < 0.8 else "${%s_DIR}" % name.upper()
            r0 = rng.random()
            if r0 < 0.12:
                # one command contributing two elements
                lines.append("envPrepend(PATH, %s/bin:%s/scripts)" % (pd, pd))
            elif r0 < 0.85:
                lines.append("envPrepend(PATH, %s/bin)" % pd)
            if rng.random() < 0.5:
                lines.append("envAppend(LD_LIBRARY_PATH, %s/lib)" % pd)
            if rng.random() < 0.35:
                lines.append("envPrepend(%s_PATH, %s/share, \";\")" % (name.upper(), pd))
            if rng.random() < 0.3:
                # a custom-delimited list shared by several products
                lines.append("%s(XLIST, %s/x, \";\")" % (rng.choice(["envPrepend", "envAppend"]), pd))
            if rng.random() < 0.5:
                lines.append("envSet(%s_HOME, %s/home)" % (name.upper(), pd))
            if rng.random() < 0.3:
                lines.append("addAlias(run_%s, echo %s %s)" % (name, name, v))
            deps = []
            for j in range(i):
                if rng.random() < 0.55:
                    dep = names[j]
                    form = rng.random()
                    kind = "setupRequired" if rng.random() < 0.7 else "setupOptional"
                    dvs = VERSIONS
                    if form < 0.40:
                        arg = dep
                    elif form < 0.65:
                        arg = "%s %s" % (dep, rng.choice(dvs))
                    elif form < 0.77:
                        arg = "%s %s [>= %s]" % (dep, rng.choice(dvs), rng.choice(dvs))
                    elif form < 0.86:
                        arg = "%s %s %s" % (dep, rng.choice([">=", ">=", ">", "<=", "<"]), rng.choice(dvs))  # bare expression
                    elif form < 0.93:
                        arg = "%s -t current" % dep         # by tag (outside the composed model, inside Model/Setup.v)
                    else:
                        arg = "%s -j" % dep
                    deps.append("%s(%s)" % (kind, arg))
            rng.shuffle(deps)
            k = rng.randrange(len(lines) + 1)
            lines = lines[:k] + deps + lines[k:]
            prods.setdefault(name, {})[v] = lines
    if n >= 3 and rng.random() < 0.35:
        # a version conflict inside one graph: two products require different explicit versions of p1, whose
        # versions have different dependencies of their own (only for worlds of >= 4 products: p1 needs a p0)
        lo, a, b = names[0], names[-2], names[-1]
        vs = sorted(prods[lo])
        if len(vs) < 2:
            extra = [v for v in VERSIONS if v not in prods[lo]][0]
            prods[lo][extra] = ["envPrepend(PATH, ${PRODUCT_DIR}/bin)"]
            vs = sorted(prods[lo])
        for v in prods[a]:
            prods[a][v] = [l for l in prods[a][v] if "(%s" % lo not in l] + ["setupRequired(%s %s)" % (lo, vs[0])]
        for v in prods[b]:
            prods[b][v] = [l for l in prods[b][v] if "(%s" % lo not in l and "(%s" % a not in l] + \
                          ["setupRequired(%s)" % a, "setupRequired(%s %s)" % (lo, vs[1])]
    if n >= 3 and rng.random() < 0.2:
        # an optional dependency that fails part-way: the top product optionally asks for a version of x whose table
        # first sets up y and then meets a version of y that is not declared / a variable that is not defined
        y, x, top = names[0], names[1], names[-1]
        bad = [v for v in VERSIONS if v not in prods[x]]
        bad = bad[0] if bad else sorted(prods[x])[-1]
        tail = rng.choice(["setupRequired(%s 9.9)" % y, "envPrepend(PATH, ${UNDEFINED_VARIABLE}/bin)",
                           "setupRequired(%s 9.9)" % y])
        prods[x][bad] = ["envPrepend(PATH, ${PRODUCT_DIR}/bin)", "envSet(%s_HOME, ${PRODUCT_DIR}/home)" % x.upper(),
                         "addAlias(run_%s, echo %s %s)" % (x, x, bad), "setupRequired(%s)" % y, tail]
        for v in prods[top]:
            prods[top][v] = [l for l in prods[top][v] if "(%s" % x not in l] + ["setupOptional(%s %s)" % (x, bad)]
    current = {}
    for name in names:
        if rng.random() < 0.9:
            current[name] = rng.choice(sorted(prods[name]))
    if spaces is not None:
        root = "stack dir" if spaces else "stack"
    else:
        # one draw, as before: a blank in the stack path one time in four, two blanks in a row some of those times
        # (utils.encodePath / decodePath must take the path through SETUP_<P> unchanged)
        r = rng.random()
        root = "stack  dir" if r < 0.08 else "stack dir" if r < 0.25 else "stack"
    # some products are declared under the fall-back flavor (all versions of such a product)
    generic = sorted(n for n in names if rng.random() < 0.5) if rng.random() < 0.3 else []
    return {"root": root, "products": prods, "current": current, "generic": generic}


def flavor_of(world, name):
    return "generic" if name in world.get("generic", ()) else FLAVOR


def materialise(work, world):
    """create the stack on disk and declare everything through the real API (runs in a child)"""
    import eups
    stack = os.path.join(work, world["root"])
    userdata = os.path.join(work, "user")
    os.makedirs(os.path.join(stack, "ups_db"))
    os.makedirs(os.path.join(userdata, "ups_db"))
    os.environ["EUPS_PATH"] = stack
    os.environ["EUPS_USERDATA"] = userdata
    os.environ["EUPS_FLAVOR"] = FLAVOR
    os.environ["EUPS_SHELL"] = "sh"
    for name, vs in world["products"].items():
        for v, lines in vs.items():
            d = os.path.join(stack, flavor_of(world, name), name, v)
            os.makedirs(os.path.join(d, "ups"))
            with open(os.path.join(d, "ups", name + ".table"), "w") as f:
                f.write("\n".join(lines) + "\n")
    # products whose versions are all declared with ONE table file kept outside the product directories and named by
    # its absolute path (eups declare -m /abs/tables/name.table): world["shared_tables"] = [names]
    shared = {}
    for name in world.get("shared_tables", ()):
        vs = world["products"][name]
        os.makedirs(os.path.join(stack, "tables"), exist_ok=True)
        shared[name] = os.path.join(stack, "tables", name + ".table")
        with open(shared[name], "w") as f:
            f.write("\n".join(vs[sorted(vs)[0]]) + "\n")
    for name, vs in world["products"].items():
        for v in sorted(vs):
            sys.modules["eups.db.Database"]._databases.clear()
            e = eups.Eups(quiet=1, flavor=flavor_of(world, name))
            kw = {"tablefile": shared[name]} if name in shared else {}
            e.declare(name, v, os.path.join(stack, flavor_of(world, name), name, v),
                      tag=("current" if world["current"].get(name) == v else None), **kw)
            # the first declaration of a product is made current automatically: undo when not wanted
    for name in world["products"]:
        sys.modules["eups.db.Database"]._databases.clear()
        e = eups.Eups(quiet=1, flavor=flavor_of(world, name))
        cur = e.findTaggedProduct(name, "current") if hasattr(e, "findTaggedProduct") else None
        want = world["current"].get(name)
        if cur is not None and cur.version != want:
            e.unassignTag("current", name)
            if want:
                e.assignTag("current", name, want)
    # other global tags (world["tags"] = {name: {tag: version}}; stable is one of the shipped global tags)
    for name, tv in sorted(world.get("tags", {}).items()):
        for t, v in sorted(tv.items()):
            sys.modules["eups.db.Database"]._databases.clear()
            e = eups.Eups(quiet=1, flavor=flavor_of(world, name))
            e.assignTag(t, name, v)
    return stack, userdata


# ------------------------------------------------------------------ real runs with decision capture

def model_actions(actions):
    """real Action objects -> model action encodings (strings of the driver protocol)"""
    out = []
    for a in actions:
        cmd, args, extra = a.cmd, list(a.args), a.extra
        if cmd == "setupRequired":
            name, just, i = None, False, 0
            while i < len(args):
                x = args[i]
                if x.startswith("-"):
                    if x in ("-j", "--just"):
                        just = True
                    elif x in ("-f", "--flavor", "-r", "-T", "-t", "--tag", "--vro"):
                        i += 1
                elif name is None:
                    name = x
                i += 1
            out.append("S,%s,%s,%s" % ("1" if extra.get("optional") else "0", enc(name or ""), "1" if just else "0"))
        elif cmd == "envPrepend":
            d = args[2] if len(args) > 2 else ":"
            out.append("P,%s,%s,%s,%s" % ("1" if extra.get("append") else "0", enc(args[0]), enc(args[1]), enc(d)))
        elif cmd == "envSet":
            out.append("E,%s,%s" % (enc(args[0]), enc(args[1])))
        elif cmd == "envUnset":
            out.append("U,%s" % enc(args[0]))
        elif cmd == "addAlias":
            out.append("A,%s,%s" % (enc(args[0]), enc(" ".join(args[1:]))))
        elif cmd == "unsetupRequired":
            raise RuntimeError("unsetupRequired is outside the model")
        else:
            out.append("N")
    return out


LINE_FLAGS_MODELLED = ("-j", "--just")


def line_infos(actions, e):
    """what the real Action.processArgs makes of every dependency line (version words, bracketed expression): the
    request information of the composed model (coq/Model/SetupFull.v), one entry per action; a line with an option
    the composed model does not have (-t, --vro, -k, -f, -r, ...) is marked with a leading '!'"""
    out = []
    for a in actions:
        if a.cmd != "setupRequired":
            out.append("-")
            continue
        requestedVRO, name, productDir, vers, versExpr, extra = a.processArgs(e, True)
        li = "%s~%s" % ("-" if vers is None else "=" + enc(vers), "-" if versExpr is None else "=" + enc(versExpr))
        if any(x.startswith("-") and x not in LINE_FLAGS_MODELLED for x in a.args) or productDir:
            li = "!" + li
        out.append(li)
    return out


def install_decision_spy(log, names=None, holder=None):
    """record, for every forward call of Eups.setup in call order, the version of the product it decided on
    (and, in names, the product name it was asked for)"""
    import eups
    P = sys.modules["eups.Product"]
    E = eups.Eups
    stack = []
    orig_setup = E.setup
    orig_get = P.Product.getTable

    def setup(self, productName, versionName=None, fwd=True, *a, **k):
        if not stack and holder is not None:
            holder["eups"] = self
        frame = {"fwd": fwd, "idx": None, "seen": False}
        if fwd:
            frame["idx"] = len(log)
            log.append(None)
            if names is not None:
                names.append(productName)
        stack.append(frame)
        try:
            return orig_setup(self, productName, versionName, fwd, *a, **k)
        finally:
            stack.pop()

    def getTable(self, *a, **k):
        if stack and stack[-1]["fwd"] and not stack[-1]["seen"]:
            stack[-1]["seen"] = True
            log[stack[-1]["idx"]] = self.version
        return orig_get(self, *a, **k)
    E.setup = setup
    P.Product.getTable = getTable


class _NoEups(object):
    aliases, oldAliases = {}, {}


def cli_args(rq):
    args = ["--nolocks", "-q"]
    if rq.get("just"):
        args.append("--just")
    if not rq.get("fwd", True):
        args.append("--unsetup")
    if rq.get("keep"):
        args.append("--keep")
    if rq.get("max_depth") is not None:
        args += ["--max-depth", str(rq["max_depth"])]
    args.append(rq["name"])
    if rq.get("version"):
        args.append(rq["version"])
    return args


def run_cli(rq, holder):
    import contextlib
    import io
    import eups.setupcmd
    holder.pop("eups", None)
    holder.pop("text", None)
    out, err = io.StringIO(), io.StringIO()
    try:
        with contextlib.redirect_stdout(out), contextlib.redirect_stderr(err):
            status = eups.setupcmd.EupsSetup(args=cli_args(rq), toolname="eups_setup").run()
        text = out.getvalue().strip()
        holder["text"] = out.getvalue()
        ok = status == 0 and text != "false"
        outcome = "ok" if ok else "fail"
    except SystemExit as ex:
        ok, outcome = False, "fail"
    except Exception as ex:  # noqa
        ok, outcome = False, "raise:" + type(ex).__name__
    return ok, outcome, holder.get("eups") or _NoEups()


def api_setup(e, rq, dbz):
    """selectVRO and eups.app.setup on an Eups object the caller built; (ok, outcome, the command list as setupcmd would
    print it)"""
    import eups.app
    e.selectVRO(rq.get("tag"), None, rq.get("version"), dbz)
    cmds = eups.app.setup(rq["name"], rq.get("version"), eupsenv=e, fwd=rq.get("fwd", True))
    ok = "false" not in cmds
    return ok, "ok" if ok else "fail", ";\n".join(cmds) + "\n"


def run_scenario(world, requests, env0, session=False):
    """child: materialise the world, run the requests in sequence; returns per-request records.
    session: ONE Eups instance serves all the requests (a long-lived process that uses the python interface: selectVRO
    and Eups.setup once per request), instead of one instance per request"""
    common.import_eups()
    import eups
    work = common.scratch_dir("setup.")
    try:
        stack, userdata = materialise(work, world)
        base = {"EUPS_PATH": stack, "EUPS_USERDATA": userdata, "EUPS_FLAVOR": FLAVOR, "EUPS_SHELL": "sh",
                "HOME": "/root"}
        env = dict(base)
        for k, v in env0.items():
            env[k] = v.replace("@STACK@", stack)
        # what the real parser makes of every table
        sys.modules["eups.db.Database"]._databases.clear()
        os.environ.clear()
        os.environ.update(base)
        e = eups.Eups(quiet=1)
        e.selectVRO(None, None, None, None)
        parsed = {}
        for name, vs in world["products"].items():
            for v in vs:
                p = e.findProduct(name, v, flavor=flavor_of(world, name))
                tbl = p.getTable()
                # for the flavor the product is declared under: the one Eups.setup reads the table for (setupFlavor)
                acts = tbl.actions(p.flavor or FLAVOR, setupType=e.setupType) if tbl else []
                parsed["%s %s" % (name, v)] = {"dir": p.dir, "flavor": p.flavor, "actions": model_actions(acts),
                                               "lines": line_infos(acts, e), "tags": [str(t) for t in p.tags]}
        log, names, holder = [], [], {}
        install_decision_spy(log, names, holder)
        records = []
        live = None
        for rq in requests:
            if not (session and live is not None):
                sys.modules["eups.db.Database"]._databases.clear()
            os.environ.clear()
            os.environ.update(env)
            del log[:]
            del names[:]
            before = dict(env)
            kw = {}
            if rq.get("keep"):
                kw["keep"] = True
            if rq.get("max_depth") is not None:
                kw["max_depth"] = rq["max_depth"]
            if session:
                if live is None:
                    live = eups.Eups(quiet=1)
                e = live
                alias_snap = dict(e.aliases)
                try:
                    e.selectVRO(rq.get("tag"), None, rq.get("version"), None)
                    ok, version, reason = e.setup(rq["name"], rq.get("version"), fwd=rq.get("fwd", True),
                                                  noRecursion=bool(rq.get("just")))
                    outcome = "ok" if ok else "fail"
                except Exception as ex:  # noqa
                    ok, outcome = False, "raise:" + type(ex).__name__
            elif rq.get("cli"):
                # the request as the shell function hands it to eups_setup: setupcmd.EupsSetup translates the options
                # (--just is --max-depth 0, whether setting up or unsetting up), builds the Eups object and calls
                # eups.setup (app.py); the environment it computed is os.environ afterwards, the printed text is what
                # the shell would source (false for a failure)
                ok, outcome, e = run_cli(rq, holder)
            elif rq.get("api"):
                # the python interface that returns the command list: an Eups object built by the caller, selectVRO,
                # eups.app.setup(name, version, eupsenv=, fwd=) - observe_at of C02
                try:
                    e = eups.Eups(quiet=1, **kw)
                    ok, outcome, holder["text"] = api_setup(e, rq, None)
                except Exception as ex:  # noqa
                    ok, outcome, e = False, "raise:" + type(ex).__name__, _NoEups()
            else:
                e = eups.Eups(quiet=1, **kw)
                e.selectVRO(rq.get("tag"), None, rq.get("version"), None)
                try:
                    ok, version, reason = e.setup(rq["name"], rq.get("version"), fwd=rq.get("fwd", True),
                                                  noRecursion=bool(rq.get("just")))
                    outcome = "ok" if ok else "fail"
                except Exception as ex:  # noqa
                    ok, outcome = False, "raise:" + type(ex).__name__
            after = dict(os.environ)
            # Eups.setEupsPath rewrites EUPS_PATH in os.environ (normalised, entries that are no directories dropped)
            # before Eups.oldEnviron is taken: the commands the shell sources never mention it, the variable of the
            # shell is the one it had (the command list itself is judged by c02.shell_oracle)
            if "EUPS_PATH" in before and after.get("EUPS_PATH") != before["EUPS_PATH"]:
                after["EUPS_PATH"] = before["EUPS_PATH"]
            rec = {"request": rq, "before": before, "after": after if ok else before,
                   "raw_after": after, "aliases": dict(e.aliases), "old_aliases": sorted(e.oldAliases), "ok": bool(ok),
                   "outcome": outcome,
                   "decisions": list(log), "decision_names": list(names)}
            if rq.get("cli") or rq.get("api"):
                rec["cmds"] = holder.get("text")      # what setupcmd printed for the shell: the command list of app.setup
            if session:
                # Eups.aliases of a long-lived instance accumulates: what THIS request defined is the difference
                rec["aliases_all"] = rec["aliases"]
                rec["aliases"] = {k: v for k, v in rec["aliases_all"].items() if alias_snap.get(k) != v}
            records.append(rec)
            if ok:
                env = after
        return {"stack": stack, "parsed": parsed, "records": records}
    finally:
        shutil.rmtree(work, ignore_errors=True)


# ------------------------------------------------------------------ model side

def world_field(res):
    """the world as the real parser sees it, in the encoding of the driver (build/c01/run)"""
    prods = []
    for key, info in sorted(res["parsed"].items()):
        name, v = key.split(" ")
        prods.append("%s:%s:%s:%s" % (enc(name), enc(v), enc(info["dir"]), "+".join(info["actions"])))
    return "|".join(prods)


def flavors_field(res):
    """name~version~flavor of every product declared under another flavor than the running one"""
    out = []
    for key, info in sorted(res["parsed"].items()):
        name, v = key.split(" ")
        if info.get("flavor", FLAVOR) != FLAVOR:
            out.append("%s~%s~%s" % (enc(name), enc(v), enc(info["flavor"])))
    return "+".join(out)


def model_opts(rq):
    """(max_depth, just) as the model is given them.  A request made through the command line (cli) reaches Eups with
    what setupcmd.EupsSetup.execute makes of its options: --just becomes max_depth = 0 (for setup and for unsetup
    alike) and noRecursion stays off"""
    md, just = rq.get("max_depth"), bool(rq.get("just"))
    if rq.get("cli") and just:
        md, just = 0, False
    return md, just


def model_line(world, res, rec, fuel=60):
    rq = rec["request"]
    md, just = model_opts(rq)
    cfg = "%s,%s,%s,%s,%s" % (enc(FLAVOR), enc(res["stack"]), "-" if md is None or md < 0 else str(md),
                              "1" if rq.get("keep") else "0", flavors_field(res))
    ds = ",".join("!" if d is None else enc(d) for d in rec["decisions"])
    return "\t".join(["req", world_field(res), cfg, common.enc_env(rec["before"]), "", ds, enc(rq["name"]),
                      "1" if rq.get("fwd", True) else "0", "1" if just else "0", str(fuel)])


def model_line_embedded(res, rec, fuel=60):
    """the request of model_line for the model with several stacks (op reqm): the world of one stack embedded"""
    rq = rec["request"]
    md, just = model_opts(rq)
    cfg = "%s,%s,%s,%s," % (enc(FLAVOR), enc(res["stack"]), "-" if md is None or md < 0 else str(md), "1" if rq.get("keep") else "0")
    prods = []
    for key, info in sorted(res["parsed"].items()):
        name, v = key.split(" ")
        prods.append("%s:%s:%s:%s:%s:%s" % (enc(name), enc(v), enc(res["stack"]), enc(info.get("flavor") or FLAVOR),
                                            enc(info["dir"]), "+".join(info["actions"])))
    ds = ",".join("!" if d is None else "%s~%s" % (enc(d), enc(res["stack"])) for d in rec["decisions"])
    return "\t".join(["reqm", "|".join(prods), cfg, common.enc_env(rec["before"]), "", ds, enc(rq["name"]),
                      "1" if rq.get("fwd", True) else "0", "1" if just else "0", str(fuel)])


FLAVORS = [FLAVOR, "generic"]           # utils.Flavor().getFallbackFlavors("Linux64", includeMe=True)


def full_applicable(res):
    """is the world inside the composed model (no dependency line with an option other than -j)?"""
    return not any(li.startswith("!") for info in res["parsed"].values() for li in info.get("lines", []))


def model_line_full(world, res, rec, fuel=60):
    """the same request for the composed model request_full (coq/Model/SetupFull.v): world, per-line request
    information, chain files, environment before - and NO decisions: the model resolves every version itself"""
    rq = rec["request"]
    md, just = model_opts(rq)
    cfg = "%s,%s,%s,%s,%s" % (enc(FLAVOR), enc(res["stack"]), "-" if md is None or md < 0 else str(md),
                              "1" if rq.get("keep") else "0", flavors_field(res))
    lines, tags = [], []
    for key, info in sorted(res["parsed"].items()):
        name, v = key.split(" ")
        lines.append("%s:%s:%s" % (enc(name), enc(v), "+".join(info["lines"])))
        for t in info["tags"]:
            tags.append("%s~%s~%s" % (enc(name), enc(t), enc(v)))
    version = rq.get("version")
    return "\t".join(["full", world_field(res), "|".join(lines), ",".join(tags), cfg, common.enc_env(rec["before"]), "",
                      enc(rq["name"]), "-" if version is None else "=" + enc(version),
                      "1" if rq.get("fwd", True) else "0", "1" if just else "0", str(fuel),
                      ",".join(enc(f) for f in FLAVORS), ""])


def model_result_full(line):
    f = line.split("\t")
    dec_ds = lambda x: [None if d == "!" else common.dec(d) for d in x.split(",")] if x else []
    if f[0] == "ok":
        return {"ok": True, "env": dict(common.dec_env(f[1])), "aliases": dict(common.dec_env(f[2] if len(f) > 2 else "")),
                "decisions": dec_ds(f[3] if len(f) > 3 else "")}
    if f[0] == "fail":
        return {"ok": False, "kind": "fail", "decisions": dec_ds(f[1] if len(f) > 1 else "")}
    return {"ok": False, "kind": "err:" + "\t".join(f[1:])}


def compare_full(ctx, world, res, rec, mres):
    """composed model (resolver included) vs implementation for one request: success, environment, aliases, and
    the versions decided along the way"""
    case = {"world": world, "request": rec["request"], "before": rec["before"], "composed": True}
    if mres.get("kind", "").startswith("err"):
        ctx.disagree(case, mres, {"ok": rec["ok"], "outcome": rec["outcome"]}, where="composed-model-error")
        return
    if rec["ok"] != mres["ok"]:
        ctx.disagree(case, mres, {"ok": rec["ok"], "outcome": rec["outcome"], "decisions": rec["decisions"]},
                     where="composed-success")
        return
    if mres["decisions"] != rec["decisions"]:
        ctx.disagree(case, {"decisions": mres["decisions"]}, {"decisions": rec["decisions"]}, where="composed-decisions")
        return
    if rec["ok"] and (mres["env"] != rec["after"] or mres["aliases"] != rec["aliases"]):
        diff = {k: (mres["env"].get(k), rec["after"].get(k)) for k in set(mres["env"]) | set(rec["after"])
                if mres["env"].get(k) != rec["after"].get(k)}
        ctx.disagree(case, {"env_diff(model,impl)": diff, "aliases": mres["aliases"]}, {"aliases": rec["aliases"]},
                     where="composed-environment")


def model_result(line):
    f = line.split("\t")
    if f[0] == "ok":
        return {"ok": True, "env": dict(common.dec_env(f[1])), "aliases": dict(common.dec_env(f[2] if len(f) > 2 else "")),
                "left": int(f[3]) if len(f) > 3 else 0}
    if f[0] in ("fail", "raise"):
        return {"ok": False, "kind": f[0]}
    return {"ok": False, "kind": "err:" + "\t".join(f[1:])}


def compare(ctx, world, res, rec, mres):
    """model vs implementation for one request"""
    if rec["ok"] != mres["ok"]:
        ctx.disagree({"world": world, "request": rec["request"], "before": rec["before"], "decisions": rec["decisions"]},
                     mres, {"ok": rec["ok"], "outcome": rec["outcome"]}, where="success")
        return
    if rec["ok"]:
        if mres["env"] != rec["after"] or mres["aliases"] != rec["aliases"] or mres.get("left"):
            diff = {k: (mres["env"].get(k), rec["after"].get(k)) for k in set(mres["env"]) | set(rec["after"])
                    if mres["env"].get(k) != rec["after"].get(k)}
            ctx.disagree({"world": world, "request": rec["request"], "before": rec["before"], "decisions": rec["decisions"]},
                         {"env_diff(model,impl)": diff, "aliases": mres["aliases"], "left": mres.get("left")},
                         {"aliases": rec["aliases"]}, where="environment")


# ------------------------------------------------------------------ helpers for the oracles

def setup_records(env):
    """{product name (lower case as declared): version} from SETUP_* variables"""
    out = {}
    for k, v in env.items():
        if k.startswith("SETUP_"):
            w = v.split()
            if len(w) >= 2:
                out[w[0]] = w[1]
    return out


def path_elems(value):
    out = []
    for part in value.replace(";", ":").split(":"):
        if part and part not in out:
            out.append(part)
    return out


def uniq_list(l):
    out = []
    for x in l:
        if x not in out:
            out.append(x)
    return out


def gen_request(rng, world, allow_fail=0.1):
    names = sorted(world["products"])
    name = rng.choice(names)
    rq = {"name": name, "fwd": True}
    r = rng.random()
    if r < 0.35:
        rq["version"] = rng.choice(sorted(world["products"][name]))
    elif r < 0.35 + allow_fail:
        rq["version"] = "9.9"               # unknown version: the request fails
    return rq


# ------------------------------------------------------------------ generic driver for C01 / C02 / C04

def world_graph(res):
    """name -> set of dependency names over ALL declared versions (from the real parser's actions)"""
    g = {}
    for key, info in res["parsed"].items():
        name = key.split(" ")[0]
        g.setdefault(name, set())
        for a in info["actions"]:
            if a.startswith("S,"):
                g[name].add(common.dec(a.split(",")[2]))
    return g


def world_graph_lines(res):
    """name -> set of (dependency name, the line carries -j) over ALL declared versions"""
    g = {}
    for key, info in res["parsed"].items():
        name = key.split(" ")[0]
        g.setdefault(name, set())
        for a in info["actions"]:
            if a.startswith("S,"):
                f = a.split(",")
                g[name].add((common.dec(f[2]), f[3] == "1"))
    return g


def reach_within(g, name, just=False, max_depth=None):
    """the products a request for name may reach: along dependency lines, no deeper than the stated depth; a line
    that says -j (setupRequired(foo -j)) reaches foo itself and nothing below it - unless foo is also reached along
    lines without -j.  g: name -> set of (dependency, -j)"""
    budget = 0 if just else (None if max_depth is None or max_depth < 0 else max_depth)
    reached = set([name])
    expand = {name: 0}                  # products whose own lines are read, with the smallest depth they are met at
    todo = [name]
    while todo:
        n = todo.pop()
        d = expand[n]
        if budget is not None and d >= budget:
            continue
        for (m, j) in g.get(n, ()):
            reached.add(m)
            if not j and (m not in expand or expand[m] > d + 1):
                expand[m] = d + 1
                todo.append(m)
    return reached


def touched_names(res, name, just=False, max_depth=None):
    return reach_within(world_graph_lines(res), name, just=just, max_depth=max_depth)


def product_dirs(res):
    """(name, version) -> directory"""
    return {tuple(k.split(" ")): v["dir"] for k, v in res["parsed"].items()}


def has_ref(value):
    return "$" in value


def expand_refs(value, env):
    """a table value with its ${VAR}, $?{VAR}, ${VAR-default} references replaced from env; None when one of them has
    no value there (what the value contributes is then not known from env alone)"""
    import re
    missing = []

    def sub(m):
        key, default = m.group(2), m.group(3)
        if key in env:
            return env[key]
        if default:
            return default
        missing.append(key)
        return ""
    out = re.sub(r"\$(\?)?{([^-}]*)(?:-([^}]+))?}", sub, value)
    return None if missing else out


def path_contribution_elems(val, d, env):
    """the elements one path contribution stands for in env: a value that refers to other variables contributes the
    elements of its expansion ([] when it cannot be expanded from env)"""
    if not has_ref(val):
        return [val]
    x = expand_refs(val, env)
    return [el for el in x.split(d) if el] if x is not None else []


def own_contributions(res, name, version):
    """path elements [(var, elem, delim)] and envSet values {var: value} of one product version; a value that refers
    to other variables (a dollar reference is left after the table was loaded) is kept whole: see
    path_contribution_elems / expand_refs"""
    info = res["parsed"]["%s %s" % (name, version)]
    return contributions_of_actions(info["actions"])


def contributions_of_actions(actions):
    paths, sets, aliases = [], {}, {}
    for a in actions:
        f = a.split(",")
        if f[0] == "P":
            # a value may hold several elements (the delimiter inside the value): each is a contribution
            d = common.dec(f[4])
            val = common.dec(f[3])
            if has_ref(val):
                paths.append((common.dec(f[2]), val, d))
                continue
            for el in val.split(d):
                if el:
                    paths.append((common.dec(f[2]), el, d))
        elif f[0] == "E":
            sets[common.dec(f[1])] = common.dec(f[2])
        elif f[0] == "A":
            aliases[common.dec(f[1])] = common.dec(f[2])
    return paths, sets, aliases


WF2_FIELDS = ["actions", "vars", "rank", "var_apart", "elem_apart", "versions", "set_once", "keys", "words"]


def dependency_order(res):
    """all names the world speaks about (declared names and dependency targets), dependencies first: the
    rank witness handed to the checker (depth-first post-order over the sorted names; for a cyclic graph
    no order exists and the checker's rank field says so)"""
    g = world_graph(res)
    order, seen = [], set()

    def visit(n):
        if n in seen:
            return
        seen.add(n)
        for m in sorted(g.get(n, ())):
            visit(m)
        order.append(n)
    for n in sorted(g):
        visit(n)
    return order


def wf_line(res, op="wff"):
    return "\t".join([op, world_field(res), ",".join(enc(n) for n in dependency_order(res))])


def wf_fraction(ctx, results):
    """how many of the worlds (as parsed by the real parser) satisfy the hypotheses WF2 / WF of the theorems of
    coq/Props/C01.v, C02.v, C04.v: the extracted checker wf2_check (coq/Model/SetupWf.v, sound by
    coq/Proofs/SetupWf.v) is run on every world; counts go to the input distribution"""
    lines = [wf_line(r) for r in results]
    inside = 0
    for out in ctx.model(lines, pid="C01"):
        bits = out.strip()
        if len(bits) != len(WF2_FIELDS) or set(bits) - set("01"):
            raise RuntimeError("bad answer of the WF2 checker: %r" % (out,))
        if "0" not in bits:
            inside += 1
            ctx.bump("world-satisfies-WF2")
        else:
            ctx.bump("world-outside-WF2")
            for name, b in zip(WF2_FIELDS, bits):
                if b == "0":
                    ctx.bump("world-outside-WF2:" + name)
    return inside, len(lines)


def run_scenarios(ctx, scenarios, oracle, nproc=14):
    """scenarios: list of {"world", "requests", "env0"}; oracle(ctx, scenario, result) evaluates the property on
    the real records; every request is also compared with the model"""
    results = common.par_map(run_scenario, [(s["world"], s["requests"], s["env0"]) for s in scenarios], nproc=nproc)
    lines, meta = [], []
    for s, r in zip(scenarios, results):
        if r[0] != "ok":
            raise RuntimeError("scenario child failed: %r" % (str(r)[-1500:],))
        r = r[1]
        for rec in r["records"]:
            lines.append(model_line(s["world"], r, rec))
            meta.append((s, r, rec))
    outs = ctx.model(lines, pid="C01")
    for out, (s, r, rec) in zip(outs, meta):
        compare(ctx, s["world"], r, rec, model_result(out))
        ctx.traces_validated += 1
    # the one-stack world as the special case of the model with several stacks (coq/Model/SetupMS.v embed): every
    # declaration in the one stack, every decision naming it - the two extracted models must answer the same
    for out, mout, (s, r, rec) in zip(outs, ctx.model([model_line_embedded(r, rec) for (s, r, rec) in meta], pid="C01"), meta):
        ctx.bump("one-stack-request-through-the-multi-stack-model")
        if out != mout:
            ctx.disagree({"world": s["world"], "request": rec["request"], "before": rec["before"], "decisions": rec["decisions"]},
                         model_result(mout), model_result(out), where="one-stack-special-case-of-multi-stack-model")
    # the composed model (setup + resolver, coq/Model/SetupFull.v): same requests, no decisions fed
    fmeta = [(s, r, rec) for (s, r, rec) in meta if full_applicable(r)]
    ctx.bump("composed-model-outside-restrictions", len(meta) - len(fmeta))
    # (its dotted-numeric comparator reads 1.0 2.0 3.0 9.9 only: worlds with other version names go to real_pass alone)
    smeta = [(s, r, rec) for (s, r, rec) in fmeta if not nontrivial_versions(s["world"])]
    ctx.bump("composed-model-outside-dotted-numeric-names", len(fmeta) - len(smeta))
    fouts = ctx.model([model_line_full(s["world"], r, rec) for (s, r, rec) in smeta], pid="C01")
    for out, (s, r, rec) in zip(fouts, smeta):
        compare_full(ctx, s["world"], r, rec, model_result_full(out))
        ctx.bump("composed-model-comparisons")
        if len(rec["decisions"]) > 1:
            ctx.bump("composed-model-comparisons-with-dependencies")
    # the composed model with the comparator and the matcher of C10 (coq/Model/ResolveReal.v): same requests
    real_pass(ctx, fmeta)
    # the text-fed model (C11's parser + expandEupsVariables + command kinds + setup, coq/Model/SetupText.v): same
    # requests and decisions, the world given by the table texts the generator wrote
    text_pass(ctx, meta)
    for s, r in zip(scenarios, results):
        if any(" -f generic " in v for rec in r[1]["records"] for k, v in rec["after"].items() if k.startswith("SETUP_")):
            ctx.bump("scenario-sets-up-a-fallback-flavor-product")
    wf_fraction(ctx, [r[1] for r in results])
    for s, r in zip(scenarios, results):
        oracle(ctx, s, r[1])
    return results


def corpus(pid):
    d = os.path.join(common.ROOT, "corpus", pid)
    out = []
    if os.path.isdir(d):
        for f in sorted(os.listdir(d)):
            if f.endswith(".json"):
                out.append(json.load(open(os.path.join(d, f)))["input"])
    return out


def strip_stack(res, text):
    return text.replace(res["stack"], "@STACK@") if isinstance(text, str) else text


# ------------------------------------------------------------------ the text-fed model (coq/Model/SetupText.v)

SETUP_TYPES = ["exact"]                 # Eups.setupType after selectVRO with the shipped VRO (it starts with type:exact)
IMPLICIT_WORDS = ["implicitProducts"]   # hooks.config.Eups.defaultProduct: name, no version, no tag


def table_text(world, name, version):
    """the text of the table file as materialise() wrote it"""
    return "\n".join(world["products"][name][version]) + "\n"


def tworld_field(world, res):
    """the world as TEXTS: name:version:dir:flavor:table text; directory and flavor as declared (read back through the
    real findProduct), the text is the generator's - the real parser is not consulted"""
    prods = []
    for key, info in sorted(res["parsed"].items()):
        name, v = key.split(" ")
        prods.append("%s:%s:%s:%s:%s" % (enc(name), enc(v), enc(info["dir"]), enc(info.get("flavor", FLAVOR)),
                                         enc(table_text(world, name, v))))
    return "|".join(prods)


def model_line_text(world, res, rec, fuel=60):
    """the request of model_line for the model that starts from the table texts (op text of build/c01/run):
    table_actions of C11, Table.expandEupsVariables, the command kinds and processArgs are all on the model side"""
    rq = rec["request"]
    md, just = model_opts(rq)
    cfg = "%s,%s,%s,%s," % (enc(FLAVOR), enc(res["stack"]), "-" if md is None or md < 0 else str(md),
                            "1" if rq.get("keep") else "0")
    ds = ",".join("!" if d is None else enc(d) for d in rec["decisions"])
    return "\t".join(["text", tworld_field(world, res), cfg, common.enc_env(rec["before"]), "", ds, enc(rq["name"]),
                      "1" if rq.get("fwd", True) else "0", "1" if just else "0", str(fuel),
                      ",".join(enc(t) for t in SETUP_TYPES), ",".join(enc(w) for w in IMPLICIT_WORDS)])


def compare_text(ctx, world, res, rec, mres):
    """text-fed model vs implementation for one request: success, environment, aliases (as compare)"""
    case = {"world": world, "request": rec["request"], "before": rec["before"], "decisions": rec["decisions"],
            "text_model": True}
    if mres.get("kind", "").startswith("err"):
        ctx.disagree(case, mres, {"ok": rec["ok"], "outcome": rec["outcome"]}, where="text-model-error")
        return
    if rec["ok"] != mres["ok"]:
        ctx.disagree(case, mres, {"ok": rec["ok"], "outcome": rec["outcome"]}, where="text-success")
        return
    if rec["ok"]:
        if mres["env"] != rec["after"] or mres["aliases"] != rec["aliases"] or mres.get("left"):
            diff = {k: (mres["env"].get(k), rec["after"].get(k)) for k in set(mres["env"]) | set(rec["after"])
                    if mres["env"].get(k) != rec["after"].get(k)}
            ctx.disagree(case, {"env_diff(model,impl)": diff, "aliases": mres["aliases"], "left": mres.get("left")},
                         {"aliases": rec["aliases"]}, where="text-environment")


def table_pass(ctx, pairs):
    """every table of every world: the actions the model derives from the TEXT (C11's parser, the implicit product
    line, expandEupsVariables, command kinds, processArgs) against the actions the real parser and the real
    expandEupsVariables gave (res["parsed"], in the same encoding)"""
    lines, keys = [], []
    for world, res in pairs:
        cfg = "%s,%s,-,0," % (enc(FLAVOR), enc(res["stack"]))
        for key, info in sorted(res["parsed"].items()):
            name, v = key.split(" ")
            tp = "%s:%s:%s:%s:%s" % (enc(name), enc(v), enc(info["dir"]), enc(info.get("flavor", FLAVOR)),
                                     enc(table_text(world, name, v)))
            lines.append("\t".join(["ttable", tp, cfg, ",".join(enc(t) for t in SETUP_TYPES),
                                    ",".join(enc(w) for w in IMPLICIT_WORDS)]))
            keys.append((world, res, key))
    for out, (world, res, key) in zip(ctx.model(lines, pid="C01"), keys):
        f = out.split("\t")
        if f[0] == "outside":
            ctx.bump("text-table-outside")
            ctx.bump("text-table-outside:" + (f[1] if len(f) > 1 else "?"))
            continue
        macts = f[1].split("+") if len(f) > 1 and f[1] else []
        ctx.bump("text-table-comparisons")
        if macts != res["parsed"][key]["actions"]:
            name, v = key.split(" ")
            ctx.disagree({"product": key, "table": world["products"][name][v], "dir": strip_stack(res, res["parsed"][key]["dir"]),
                          "text_model": True},
                         [strip_stack(res, common.dec(a)) for a in macts],
                         [strip_stack(res, common.dec(a)) for a in res["parsed"][key]["actions"]], where="text-table-actions")


def text_pass(ctx, meta):
    """every request once more through the model, this time from the table texts; a world with a construct outside
    coq/Model/SetupText.v (answer outside) is counted, not compared"""
    seen, pairs = set(), []
    for (s, r, rec) in meta:
        if id(r) not in seen:
            seen.add(id(r))
            pairs.append((s["world"], r))
    table_pass(ctx, pairs)
    outs = ctx.model([model_line_text(s["world"], r, rec) for (s, r, rec) in meta], pid="C01")
    for out, (s, r, rec) in zip(outs, meta):
        f = out.split("\t")
        if f[0] == "outside":
            ctx.bump("text-model-outside")
            ctx.bump("text-model-outside:" + (f[1] if len(f) > 1 else "?"))
            continue
        compare_text(ctx, s["world"], r, rec, model_result(out))
        ctx.bump("text-model-comparisons")
        if len(rec["decisions"]) > 1:
            ctx.bump("text-model-comparisons-with-dependencies")


# ------------------------------------------------------------------ worlds whose TABLE TEXTS vary (for the text-fed model)

SPELLINGS = {
    "envPrepend": ["envPrepend", "pathPrepend", "ENVPREPEND", "PathPrepend"],
    "envAppend": ["envAppend", "pathAppend", "EnvAppend", "PATHAPPEND"],
    "envSet": ["envSet", "setenv", "pathSet", "SETENV"],
    "setupRequired": ["setupRequired", "SetupRequired", "SETUPREQUIRED"],
    "setupOptional": ["setupOptional", "setupoptional", "SetupOptional"],
    "addAlias": ["addAlias", "ADDALIAS", "addalias"],
}


def respell_line(rng, line):
    """the same command in another of the spellings the table grammar allows: synonym and letter case of the command
    name, indentation, blanks before the parenthesis, trailing semicolon and comment, the whole argument string of a
    dependency line in quotes, -j before the product name, the older synonyms of ${PRODUCT_DIR}"""
    import re
    m = re.match(r"(\w+)\((.*)\)$", line)
    if not m:
        return line
    cmd, args = m.group(1), m.group(2)
    if cmd in ("setupRequired", "setupOptional"):
        r = rng.random()
        if args.endswith(" -j") and r < 0.5:
            args = "-j " + args[:-3]
        if rng.random() < 0.3:
            args = '"%s"' % args
    elif rng.random() < 0.25:
        args = args.replace("${PRODUCT_DIR}", rng.choice(["${PROD_DIR}", "${UPS_PROD_DIR}"]))
    return "%s%s%s(%s)%s%s" % (rng.choice(["", "", "  ", "\t", "    "]), rng.choice(SPELLINGS.get(cmd, [cmd])),
                               rng.choice(["", "", " "]), args, rng.choice(["", "", ";", " ;"]),
                               rng.choice(["", "", "", "   # a comment"]))


def textual_lines(rng, name, lines):
    """respelled lines, a few commands that use the other variables Table.expandEupsVariables replaces, and if / else
    if / else blocks around runs of lines (conditions on the setup type and on the flavor) that leave the selected
    commands the same for the flavors Linux64 and generic - except the last form, which tells the two apart"""
    up = name.upper()
    out = [respell_line(rng, l) for l in lines]
    extra = []
    if rng.random() < 0.4:
        extra.append('envSet(%s_INFO, "${PRODUCT_NAME} ${PRODUCT_VERSION} ${PRODUCT_FLAVOR}")' % up)
    if rng.random() < 0.3:
        extra.append("envSet(%s_UPS, %s)" % (up, rng.choice(["${UPS_DIR}", "${UPS_UPS_DIR}/x"])))
    if rng.random() < 0.3:
        extra.append("setenv(%s_DB, %s/ups_db/${PRODUCT_VERSION})" % (up, rng.choice(["${PRODUCTS}", "${UPS_DB}"])))
    if rng.random() < 0.1:
        extra.append("envAppend(%s_XTRA, ${PRODUCT_DIR_EXTRA}/x)" % up)
    if rng.random() < 0.1:
        extra.append(rng.choice(["prodDir()", "setupEnv()"]))
    for l in extra:
        out.insert(rng.randrange(len(out) + 1), l)
    junk = lambda: "envSet(%s_JUNK, never%d)" % (up, rng.randrange(100))
    for _ in range(rng.choice([0, 1, 1, 2])):
        i = rng.randrange(len(out) + 1)
        j = rng.randrange(i, min(len(out), i + 3) + 1)
        body = out[i:j]
        depth = 0                       # blocks do not nest in the table grammar
        for l in out[:i]:
            t = l.lstrip()
            if t.startswith("if"):
                depth = 1
            elif t.startswith("}") and "else" not in t.lower():
                depth = 0
        if depth or any(l.lstrip().startswith(("if", "}")) for l in body):
            continue
        form = rng.randrange(7)
        if form == 0:
            blk = ["if (type == exact) {"] + body + ["}"]
        elif form == 1:
            blk = ["if (TYPE != exact) {", junk(), "} else {"] + body + ["}   # back"]
        elif form == 2:
            blk = ["if (flavor == Linux64 || flavor == generic) {"] + body + ["}"]
        elif form == 3:
            blk = ["if (flavor == DarwinX86) {", junk(), "} else if (FLAVOR == Linux64 || FLAVOR == generic) {"] + body + \
                  ["} else {", junk(), "}"]
        elif form == 4:
            blk = ["if ((flavor != Linux64 && flavor != generic) || type != exact) {", junk(), "} else {"] + body + ["}"]
        elif form == 5:
            # a branch without any command (the selected one when body is empty)
            blk = ["if (type == exact) {"] + body + ["} else {", junk(), "}"]
        else:
            # tells Linux64 and generic apart: a product declared under generic is read with flavor generic
            blk = ["if (flavor == Linux64) {"] + body + ["} else {"] + \
                  [l.replace("/bin)", "/gbin)").replace("/home)", "/ghome)") for l in body] + ["}"]
        out[i:j] = blk
    return out


def gen_world_text(rng):
    w = gen_world(rng)
    for name, vs in w["products"].items():
        for v in list(vs):
            vs[v] = textual_lines(rng, name, vs[v])
    return w


def gen_scenario_text(rng, inverse=False):
    """scenarios aimed at the text-fed model: worlds of gen_world whose table texts were varied by textual_lines;
    inverse: setup X then unsetup X (the shape C02 evaluates); otherwise some setups, possibly an unsetup among them,
    and a final setup"""
    w = gen_world_text(rng)
    env0 = {"PATH": "/usr/bin:/bin"}
    if rng.random() < 0.3:
        env0["XLIST"] = "/pre/x;/pre/y"
    if inverse:
        first = gen_request(rng, w, allow_fail=0.05)
        return {"world": w, "requests": [first, {"name": first["name"], "fwd": False}], "env0": env0}
    reqs = []
    for _ in range(rng.choice([1, 2, 3])):
        rq = gen_request(rng, w, allow_fail=0.0)
        reqs.append(rq)
        if rng.random() < 0.3:
            reqs.append({"name": rq["name"], "fwd": False})
    return {"world": w, "requests": reqs + [gen_request(rng, w, allow_fail=0.05)], "env0": env0}


def directed_text_scenarios():
    """tables with the constructs the random families leave out, declared next to a plain product; every table is
    compared action by action (table_pass), the executable ones are also set up and unset up:
    odd 1.0  the spellings of PRODUCT_DIR: only the FIRST spelling re.search meets is replaced (all its occurrences),
             the others stay, so the line raises when executed (the request fails); PRODUCT_DIR_EXTRA
    odd 2.0  PRODUCT_NAME / VERSION / FLAVOR, the spelled-out ODD_DIR, UPS_DIR, PRODUCTS in one quoted value; a
             replacement inside the FIRST argument (the variable name, the alias name)
    odd 3.0  option words of a dependency line: -j before the name, -T with its value between name and version, -t and
             -k behind the name, the whole argument string quoted
    second scenario: a dependency line with -r (a directory), which the setup model does not have: the world is
    counted as outside the text-fed model"""
    plain = ["envPrepend(PATH, ${PRODUCT_DIR}/bin)"]
    odd = {"1.0": ["envSet(ODD_X, ${PRODUCT_DIR_EXTRA}/y:${PRODUCT_DIR}/z)",
                   "envPrepend(ODD_MIX, $?{PRODUCT_DIR}/a:${PRODUCT_DIR}/b)",
                   "envPrepend(ODD_MIX2, ${PRODUCT_DIR}/a:$?{PRODUCT_DIR}/b:${PRODUCT_DIR}/c)"],
           "2.0": ['envSet(ODD_N, "${PRODUCT_NAME}-${PRODUCT_VERSION} ${PRODUCT_FLAVOR}, ${ODD_DIR} ${UPS_DIR} ${PRODUCTS} ${UPS_DB}")',
                   "envSet(${PRODUCT_NAME}_VAR, x)", "addAlias(odd_${PRODUCT_VERSION}, echo ${PRODUCT_DIR} ${UPS_PROD_VERSION})",
                   "pathAppend(ODD_PATH, ${PROD_DIR}/lib)"],
           "3.0": ["setupRequired(-j p0)", "setupOptional(p0 -T build 1.0)", "SetupRequired(p0 -t current -k)",
                   'setupRequired("p0 1.0")', "envPrepend(PATH, ${PRODUCT_DIR}/bin);"]}
    w1 = {"root": "stack", "products": {"p0": {"1.0": list(plain)}, "odd": odd}, "current": {"p0": "1.0"}, "generic": []}
    s1 = {"world": w1, "env0": {"PATH": "/usr/bin:/bin"},
          "requests": [{"name": "odd", "version": "1.0", "fwd": True}, {"name": "odd", "version": "2.0", "fwd": True},
                       {"name": "odd", "fwd": False}, {"name": "odd", "version": "3.0", "fwd": True},
                       {"name": "p0", "fwd": True}]}
    w2 = {"root": "stack", "products": {"p0": {"1.0": list(plain)},
                                        "loc": {"1.0": ["setupOptional(-r ${PRODUCT_DIR}/sub p0)"]}},
          "current": {"p0": "1.0"}, "generic": []}
    s2 = {"world": w2, "env0": {"PATH": "/usr/bin:/bin"}, "requests": [{"name": "p0", "fwd": True}]}
    # the same odd tables for a product declared under the fall-back flavor
    import copy
    w3 = copy.deepcopy(w1)
    w3["generic"] = ["odd"]
    w3["products"]["odd"]["2.0"].append("if (flavor == generic) {")
    w3["products"]["odd"]["2.0"].append("   envPrepend(ODD_PATH, ${PRODUCT_DIR}/glib)")
    w3["products"]["odd"]["2.0"].append("}")
    s3 = {"world": w3, "env0": dict(s1["env0"]), "requests": copy.deepcopy(s1["requests"])}
    return [s1, s2, s3]


# ------------------------------------------------------------------ version names of C10's grammar (coq/Model/ResolveReal.v)
# The composed model once more, with the comparator and the matcher of C10 in the place of the dotted-numeric ones
# (op fullv of build/c01/run = request_full_real): every request of every scenario goes through it, and the worlds of
# gen_world_versions give it version names on which the two comparators differ (1.0 1.0.1 1.0+1 1.0-rc1 1.10 1.9 v1_2,
# spellings of one key such as 1.0 / 1_0 / 1.00) and relational expressions over them.

VN_NEIGHBOURS = ["1.0", "1.0.1", "1.0+1", "1.0-rc1", "1.0-rc2", "1.10", "1.9", "1.9.1", "2", "10", "1.1", "1.0+a1",
                 "0.9", "1.0.0", "1.10-rc1", "1.10+1", "2.0", "1_1", "1.01"]


def respell_version(rng, v):
    """another spelling of the same key: the other separator, or a zero in front of a numeric component"""
    import re
    seps = [k for k, ch in enumerate(v) if ch in "._"]
    if seps and rng.random() < 0.5:
        i = rng.choice(seps)
        return v[:i] + ("_" if v[i] == "." else ".") + v[i + 1:]
    k = rng.choice(list(re.finditer(r"\d+", v)))
    return v[:k.start()] + "0" + v[k.start():]


def version_names(rng, k):
    """k distinct version names for one product: neighbours in the order of C10 (one letter prefix per product), a
    sample of harness/c10.py's bounded grammar, sometimes two spellings of one key"""
    import c10
    pre = "v" if rng.random() < 0.12 else ""
    pool = [pre + v for v in rng.sample(VN_NEIGHBOURS, k)]
    if rng.random() < 0.3:
        g = [v for v in rng.sample(c10.big_grammar(), 6) if (v[:1] == "v") == bool(pre) and v not in pool]
        if g:
            pool[rng.randrange(k)] = g[0]
    if k >= 2 and rng.random() < 0.25:
        alt = respell_version(rng, pool[0])
        if alt not in pool:
            pool[-1] = alt
    return pool


def gen_world_versions(rng):
    """a world of gen_world (same tables, same directed sub-families) whose version names are drawn from C10's grammar
    and whose dependency lines name them: explicit versions, relational expressions (dep >= 1.0.1, dep < 1.10),
    bracketed expressions ([>= 1.0+1], version [expr]), alternatives (>= 1.9 || == 1.0-rc1)"""
    import re
    w = gen_world(rng)
    ren = {}
    for name, vs in w["products"].items():
        ren[name] = dict(zip(sorted(vs), version_names(rng, len(vs))))

    def expr(names):
        def term():
            op = rng.choice([">=", ">=", ">", "<=", "<", "=="])
            return "%s %s" % (op, rng.choice(names) if rng.random() < 0.8 else rng.choice(VN_NEIGHBOURS))
        return " || ".join(term() for _ in range(rng.choice([1, 1, 1, 2])))

    def rewrite(line):
        m = re.match(r"(setupRequired|setupOptional)\((\w+)(.*)\)$", line)
        if not m or m.group(2) not in ren:
            return line
        kind, dep, rest = m.group(1), m.group(2), m.group(3).strip()
        names = sorted(ren[dep].values())
        if rest in ren[dep] and rng.random() < 0.6:
            return "%s(%s %s)" % (kind, dep, ren[dep][rest])          # the explicit version, renamed
        if rest == "9.9" or rest.startswith("-t") or (rest in ("", "-j") and rng.random() < 0.45):
            return line
        r = rng.random()
        if r < 0.25:
            arg = "%s %s" % (dep, rng.choice(names))
        elif r < 0.6:
            arg = "%s %s" % (dep, expr(names))
        elif r < 0.75:
            arg = "%s [%s]" % (dep, expr(names))
        elif r < 0.92:
            arg = "%s %s [%s]" % (dep, rng.choice(names + [rng.choice(VN_NEIGHBOURS)]), expr(names))
        else:
            arg = "%s -j %s" % (dep, rng.choice(names))
        return "%s(%s)" % (kind, arg)
    prods = {}
    for name, vs in w["products"].items():
        prods[name] = {ren[name][v]: [rewrite(l) for l in lines] for v, lines in vs.items()}
    w["products"] = prods
    w["current"] = {n: ren[n][v] for n, v in w["current"].items()}
    w["family"] = "versions"
    return w


def gen_scenario_versions(rng, shape="plain"):
    """shape plain: 0-2 prior setups and a final one (C01); inverse: setup X then unsetup X (C02); options: the final
    request carries --keep / --just / --max-depth or is an unsetup (C04)"""
    w = gen_world_versions(rng)
    env0 = {"PATH": "/usr/bin:/bin"}
    if rng.random() < 0.3:
        env0["XLIST"] = "/pre/x;/pre/y"
    if shape == "inverse":
        first = gen_request(rng, w, allow_fail=0.05)
        return {"world": w, "requests": [first, {"name": first["name"], "fwd": False}], "env0": env0}
    reqs = [gen_request(rng, w, allow_fail=0.0) for _ in range(rng.choice([0, 1, 2]))]
    last = gen_request(rng, w, allow_fail=0.05)
    if shape == "options":
        r = rng.random()
        if r < 0.45:
            last["keep"] = True
        elif r < 0.6:
            last["just"] = True
        elif r < 0.85:
            last["max_depth"] = rng.choice([0, 1, 1, 2])
        else:
            last = {"name": last["name"], "fwd": False}
        if not reqs:
            reqs = [gen_request(rng, w, allow_fail=0.0)]
    return {"world": w, "requests": reqs + [last], "env0": env0}


def nontrivial_versions(world):
    return any(v not in VERSIONS for vs in world["products"].values() for v in vs)


def compare_full_real(ctx, world, res, rec, mres):
    """composed model with C10's comparator vs implementation for one request (as compare_full)"""
    case = {"world": world, "request": rec["request"], "before": rec["before"], "real_comparator": True}
    if mres.get("kind", "").startswith("err"):
        ctx.disagree(case, mres, {"ok": rec["ok"], "outcome": rec["outcome"]}, where="real-comparator-model-error")
        return
    if rec["ok"] != mres["ok"]:
        ctx.disagree(case, mres, {"ok": rec["ok"], "outcome": rec["outcome"], "decisions": rec["decisions"]},
                     where="real-comparator-success")
        return
    if mres["decisions"] != rec["decisions"]:
        ctx.disagree(case, {"decisions": mres["decisions"]}, {"decisions": rec["decisions"]},
                     where="real-comparator-decisions")
        return
    if rec["ok"] and (mres["env"] != rec["after"] or mres["aliases"] != rec["aliases"]):
        diff = {k: (mres["env"].get(k), rec["after"].get(k)) for k in set(mres["env"]) | set(rec["after"])
                if mres["env"].get(k) != rec["after"].get(k)}
        ctx.disagree(case, {"env_diff(model,impl)": diff, "aliases": mres["aliases"]}, {"aliases": rec["aliases"]},
                     where="real-comparator-environment")


def real_pass(ctx, fmeta):
    """every request the composed model can express, through request_full_real (C10's comparator and matcher; the
    declarations in the listing order of Database.findProducts: version names sorted as strings, which is the order
    of world_field).  A world with a version name C10 does not accept, or an expression that does not evaluate, is
    counted (outside), not compared."""
    lines = ["fullv" + model_line_full(s["world"], r, rec)[len("full"):] for (s, r, rec) in fmeta]
    for out, (s, r, rec) in zip(ctx.model(lines, pid="C01"), fmeta):
        f = out.split("\t")
        if f[0] == "outside":
            ctx.bump("real-comparator-outside-domain")
            continue
        compare_full_real(ctx, s["world"], r, rec, model_result_full(out))
        ctx.bump("real-comparator-comparisons")
        if nontrivial_versions(s["world"]):
            ctx.bump("real-comparator-comparisons:version-names-of-C10's-grammar")
            if len(rec["decisions"]) > 1:
                ctx.bump("real-comparator-comparisons:version-names-of-C10's-grammar-with-dependencies")
            ctx.bump("real-comparator-comparisons:" + ("distinct-keys (fw_real_ok)" if f[-3] == "1" else
                                                       "names-with-equal-keys-or-unconventional"))
            ctx.bump("real-comparator-comparisons:" + ("conventional-names-sorted-listing (fw_conv, db_sorted)"
                                                       if f[-2:] == ["1", "1"] else "outside-fw_conv-or-db_sorted"))


def directed_version_scenarios():
    """worlds on which the comparator of C10 and the dotted-numeric one part ways, requests whose decisions depend on it:
    dep 1.9 1.10-rc1 1.10 1.10+1: numeric components (1.10 above 1.9), pre- and post-release parts around 1.10;
    tie 0.9 1.0 1_0: two spellings of one key - the later listed one (1_0: the listing is sorted as strings) is the
    highest for >= 0.9, == 1.0 and <= 1.0 alike; an explicit 1.0 is still 1.0"""
    plain = ["envPrepend(PATH, ${PRODUCT_DIR}/bin)"]
    home = lambda n: ["envSet(%s_HOME, ${PRODUCT_DIR}/home)" % n.upper()]
    dep = {v: plain + home("dep") for v in ("1.9", "1.10-rc1", "1.10", "1.10+1")}
    tie = {v: plain + home("tie") for v in ("0.9", "1.0", "1_0")}
    tops = {
        "1.0.1": plain + ["setupRequired(dep < 1.10+1)", "setupRequired(tie >= 0.9)"],
        "1.0+1": plain + ["setupRequired(dep >= 1.9.1 || == 1.9)", "setupOptional(tie == 1.0)"],
        "1.0-rc1": plain + ["setupRequired(dep 7 [< 1.10])", "setupRequired(tie 1.0)"],
        "1.0": plain + ["setupRequired(dep [> 1.10])", "setupRequired(tie <= 1.0)"],
        "v2_0": plain + ["setupRequired(dep > 1.10+1)"],
    }
    w = {"root": "stack", "products": {"dep": dep, "tie": tie, "top": tops},
         "current": {"dep": "1.9", "tie": "0.9", "top": "1.0"}, "generic": [], "family": "versions"}
    out = []
    for v in sorted(tops):
        out.append({"world": w, "env0": {"PATH": "/usr/bin:/bin"},
                    "requests": [{"name": "top", "version": v, "fwd": True}, {"name": "top", "fwd": False}]})
    out.append({"world": w, "env0": {"PATH": "/usr/bin:/bin"},
                "requests": [{"name": "tie", "version": "1.0", "fwd": True}, {"name": "top", "version": "1.0.1", "fwd": True, "keep": True},
                             {"name": "top", "version": "1.0", "fwd": True}]})
    return out


# ------------------------------------------------------------------ several stacks on EUPS_PATH
# (coq/Model/SetupMS.v, SetupMSFull.v, SetupMSText.v; ops reqm / fullm / textm / ttablem / wffm of build/c01/run)
#
# An MS world is {"stacks": [stack, stack, ...]} in EUPS_PATH order, each stack a world of the shape above
# ({"root", "products", "current", "generic"}).  The same product name and version may be declared in two stacks,
# with different directories (always: the directory lives under the stack), tables, flavors and current tags.
# A request may carry, besides the options above: "Z": [indices of the stacks, in the order given to -Z / path=],
# "z": the word given to -z / dbz= (Eups.setEupsPath keeps the stacks whose path has it as a component).

MS_ROOTS = [("sA", "sB"), ("sA", "sB"), ("sA", "s B"), ("s  A", "sB"), ("first", "second stack")]


def is_ms(world):
    return "stacks" in world


def variant_lines(rng, name, lines):
    """the table of the same name and version in the other stack: some contributions renamed or dropped, a dependency
    line dropped or made optional, a value that depends on the stack root"""
    out = []
    for l in lines:
        r = rng.random()
        if l.startswith(("setupRequired", "setupOptional")):
            if r < 0.2:
                continue
            if r < 0.35:
                l = l.replace("setupRequired", "setupOptional")
        elif r < 0.2:
            continue
        elif r < 0.6:
            l = l.replace("/bin)", "/bin2)").replace("/lib)", "/lib2)").replace("/home)", "/home2)").replace("/x,", "/x2,")
        out.append(l)
    if not out:
        out = ["envPrepend(PATH, ${PRODUCT_DIR}/bin2)"]
    return out


def stack_lines(rng, name, v):
    """commands whose values depend on the stack the product is found in (Table.expandEupsVariables: PRODUCTS is
    product.stackRoot(), UPS_DB its database directory)"""
    up = name.upper()
    out = []
    if rng.random() < 0.4:
        out.append("envSet(%s_STACK, %s)" % (up, rng.choice(["${PRODUCTS}/share/" + v, "${UPS_DB}/x/${PRODUCT_VERSION}", "${PRODUCTS}"])))
    if rng.random() < 0.2:
        out.append("envAppend(%s_PATH, ${PRODUCTS}/etc/%s/%s, \";\")" % (up, name, v))
    return out


def split_world_ms(rng, w):
    """a world of gen_world spread over two stacks: every (name, version) lives in the first stack, in the second, or
    in both (the second with a variant of the table); each stack has its own current tags and its own set of
    fall-back-flavor products"""
    ra, rb = rng.choice(MS_ROOTS)
    gen_a = list(w.get("generic", []))
    gen_b = gen_a if rng.random() < 0.6 else sorted(n for n in w["products"] if rng.random() < 0.4)
    A = {"root": ra, "products": {}, "current": {}, "generic": gen_a}
    B = {"root": rb, "products": {}, "current": {}, "generic": gen_b}
    for name, vs in w["products"].items():
        for v, lines in vs.items():
            r = rng.random()
            la = list(lines)
            k = rng.randrange(len(la) + 1)
            la[k:k] = stack_lines(rng, name, v)
            lb = variant_lines(rng, name, lines)
            k = rng.randrange(len(lb) + 1)
            lb[k:k] = stack_lines(rng, name, v)
            if r < 0.3:
                A["products"].setdefault(name, {})[v] = la
            elif r < 0.55:
                B["products"].setdefault(name, {})[v] = lb
            else:
                A["products"].setdefault(name, {})[v] = la
                B["products"].setdefault(name, {})[v] = lb
    for st in (A, B):
        for name, vs in st["products"].items():
            want = w["current"].get(name)
            r = rng.random()
            if want in vs and r < 0.6:
                st["current"][name] = want
            elif r < 0.85:
                st["current"][name] = rng.choice(sorted(vs))
    out = {"stacks": [A, B]}
    if w.get("family"):
        out["family"] = w["family"]
    return out


def gen_world_ms(rng):
    return split_world_ms(rng, gen_world(rng, spaces=False))


def ms_names(world):
    return sorted(set(n for st in world["stacks"] for n in st["products"]))


def ms_versions(world, name):
    return sorted(set(v for st in world["stacks"] for v in st["products"].get(name, {})))


def gen_request_ms(rng, world, allow_fail=0.08, options=True):
    name = rng.choice(ms_names(world))
    rq = {"name": name, "fwd": True}
    r = rng.random()
    if r < 0.4:
        rq["version"] = rng.choice(ms_versions(world, name))
    elif r < 0.4 + allow_fail:
        rq["version"] = "9.9"
    if options:
        r = rng.random()
        n = len(world["stacks"])
        if r < 0.22:
            rq["Z"] = [rng.randrange(n)]
        elif r < 0.32:
            rq["Z"] = list(reversed(range(n)))
        elif r < 0.45:
            rq["z"] = os.path.basename(world["stacks"][rng.randrange(n)]["root"])
        if rng.random() < 0.4:
            rq["cli"] = True
    return rq


def ms_flavor_of(stack, name):
    return "generic" if name in stack.get("generic", ()) else FLAVOR


def materialise_ms(work, world):
    """every stack is created and filled on its own (EUPS_PATH = that stack alone: declare moves a tag across all
    the stacks of the path)"""
    import eups
    userdata = os.path.join(work, "user")
    os.makedirs(os.path.join(userdata, "ups_db"))
    roots = []
    for st in world["stacks"]:
        stack = os.path.join(work, st["root"])
        roots.append(stack)
        os.makedirs(os.path.join(stack, "ups_db"))
        os.environ["EUPS_PATH"] = stack
        os.environ["EUPS_USERDATA"] = userdata
        os.environ["EUPS_FLAVOR"] = FLAVOR
        os.environ["EUPS_SHELL"] = "sh"
        for name, vs in st["products"].items():
            for v, lines in vs.items():
                d = os.path.join(stack, ms_flavor_of(st, name), name, v)
                os.makedirs(os.path.join(d, "ups"))
                with open(os.path.join(d, "ups", name + ".table"), "w") as f:
                    f.write("\n".join(lines) + "\n")
        for name, vs in st["products"].items():
            for v in sorted(vs):
                sys.modules["eups.db.Database"]._databases.clear()
                e = eups.Eups(quiet=1, flavor=ms_flavor_of(st, name))
                e.declare(name, v, os.path.join(stack, ms_flavor_of(st, name), name, v),
                          tag=("current" if st["current"].get(name) == v else None))
        for name in st["products"]:
            sys.modules["eups.db.Database"]._databases.clear()
            e = eups.Eups(quiet=1, flavor=ms_flavor_of(st, name))
            cur = e.findTaggedProduct(name, "current")
            want = st["current"].get(name)
            if cur is not None and cur.version != want:
                e.unassignTag("current", name)
                if want:
                    e.assignTag("current", name, want)
    return roots, userdata


def install_decision_spy_ms(log, names, holder):
    """as install_decision_spy; a decision is [version, root of the stack the product was found in]"""
    import eups
    P = sys.modules["eups.Product"]
    E = eups.Eups
    stack = []
    orig_setup = E.setup
    orig_get = P.Product.getTable

    def setup(self, productName, versionName=None, fwd=True, *a, **k):
        if not stack:
            holder["eups"] = self
        frame = {"fwd": fwd, "idx": None, "seen": False}
        if fwd:
            frame["idx"] = len(log)
            log.append(None)
            names.append(productName)
        stack.append(frame)
        try:
            return orig_setup(self, productName, versionName, fwd, *a, **k)
        finally:
            stack.pop()

    def getTable(self, *a, **k):
        if stack and stack[-1]["fwd"] and not stack[-1]["seen"]:
            stack[-1]["seen"] = True
            log[stack[-1]["idx"]] = [self.version, self.stackRoot()]
        return orig_get(self, *a, **k)
    E.setup = setup
    P.Product.getTable = getTable


def cli_args_ms(rq, roots):
    args = cli_args(rq)
    extra = []
    if rq.get("Z") is not None:
        extra += ["-Z", ":".join(roots[i] for i in rq["Z"])]
    if rq.get("z"):
        extra += ["-z", rq["z"]]
    return args[:2] + extra + args[2:]


def run_cli_ms(rq, roots, holder):
    import contextlib
    import io
    import eups.setupcmd
    holder.pop("eups", None)
    holder.pop("text", None)
    out, err = io.StringIO(), io.StringIO()
    try:
        with contextlib.redirect_stdout(out), contextlib.redirect_stderr(err):
            status = eups.setupcmd.EupsSetup(args=cli_args_ms(rq, roots), toolname="eups_setup").run()
        text = out.getvalue().strip()
        holder["text"] = out.getvalue()
        ok = status == 0 and text != "false"
        outcome = "ok" if ok else "fail"
    except SystemExit:
        ok, outcome = False, "fail"
    except Exception as ex:  # noqa
        ok, outcome = False, "raise:" + type(ex).__name__
    return ok, outcome, holder.get("eups") or _NoEups()


def selected_roots(roots, rq):
    """Eups.setEupsPath, stated independently: the stacks given to -Z (all of EUPS_PATH without it), of which -z keeps
    those that have the word as a path component; duplicates dropped"""
    import re
    sel = [roots[i] for i in rq["Z"]] if rq.get("Z") is not None else list(roots)
    if rq.get("z"):
        sel = [p for p in sel if re.search(r"/%s(/|$)" % rq["z"], p)]
    out = []
    for p in sel:
        if p not in out:
            out.append(p)
    return out


def run_scenario_ms(world, requests, env0):
    """child: materialise the stacks, run the requests in sequence (as run_scenario)"""
    common.import_eups()
    import eups
    work = common.scratch_dir("setupms.")
    try:
        roots, userdata = materialise_ms(work, world)
        base = {"EUPS_PATH": ":".join(roots), "EUPS_USERDATA": userdata, "EUPS_FLAVOR": FLAVOR, "EUPS_SHELL": "sh",
                "HOME": "/root"}
        env = dict(base)
        for k, v in env0.items():
            for i, r in enumerate(roots):
                v = v.replace("@STACK%d@" % i, r)
            env[k] = v.replace("@STACK@", roots[0])
        sys.modules["eups.db.Database"]._databases.clear()
        os.environ.clear()
        os.environ.update(base)
        e = eups.Eups(quiet=1)
        e.selectVRO(None, None, None, None)
        parsed = []
        for i, st in enumerate(world["stacks"]):
            for name in sorted(st["products"]):
                for v in sorted(st["products"][name]):
                    p = e.findProduct(name, v, eupsPathDirs=[roots[i]], flavor=ms_flavor_of(st, name))
                    tbl = p.getTable()
                    acts = tbl.actions(p.flavor or FLAVOR, setupType=e.setupType) if tbl else []
                    parsed.append({"stack": i, "root": p.stackRoot(), "name": name, "version": v, "dir": p.dir,
                                   "flavor": p.flavor, "actions": model_actions(acts), "lines": line_infos(acts, e),
                                   "tags": [str(t) for t in p.tags]})
        log, names, holder = [], [], {}
        install_decision_spy_ms(log, names, holder)
        records = []
        for rq in requests:
            sys.modules["eups.db.Database"]._databases.clear()
            os.environ.clear()
            os.environ.update(env)
            del log[:]
            del names[:]
            before = dict(env)
            kw = {}
            if rq.get("keep"):
                kw["keep"] = True
            if rq.get("max_depth") is not None:
                kw["max_depth"] = rq["max_depth"]
            path_seen = None
            if rq.get("cli"):
                ok, outcome, e = run_cli_ms(rq, roots, holder)
            elif rq.get("api"):
                try:
                    e = eups.Eups(quiet=1, path=(":".join(roots[i] for i in rq["Z"]) if rq.get("Z") is not None else None),
                                  dbz=rq.get("z"), **kw)
                    ok, outcome, holder["text"] = api_setup(e, rq, rq.get("z"))
                except Exception as ex:  # noqa
                    ok, outcome = False, "raise:" + type(ex).__name__
                    e = holder.get("eups") or _NoEups()
            else:
                try:
                    e = eups.Eups(quiet=1, path=(":".join(roots[i] for i in rq["Z"]) if rq.get("Z") is not None else None),
                                  dbz=rq.get("z"), **kw)
                    e.selectVRO(rq.get("tag"), None, rq.get("version"), rq.get("z"))
                    ok, version, reason = e.setup(rq["name"], rq.get("version"), fwd=rq.get("fwd", True),
                                                  noRecursion=bool(rq.get("just")))
                    outcome = "ok" if ok else "fail"
                except Exception as ex:  # noqa
                    ok, outcome = False, "raise:" + type(ex).__name__
                    e = holder.get("eups") or _NoEups()
            if hasattr(e, "path"):
                path_seen = [p for p in e.path if p != userdata]
            after = dict(os.environ)
            # Eups.setEupsPath rewrites EUPS_PATH in os.environ before Eups.oldEnviron is taken: the commands the shell
            # sources never mention it, the variable of the shell is the one it had
            if "EUPS_PATH" in before:
                after["EUPS_PATH"] = before["EUPS_PATH"]
            rec = {"request": rq, "before": before, "after": after if ok else before,
                   "raw_after": after, "aliases": dict(e.aliases), "old_aliases": sorted(e.oldAliases), "ok": bool(ok),
                   "outcome": outcome, "decisions": [d if d is None else list(d) for d in log],
                   "decision_names": list(names), "path_seen": path_seen}
            if rq.get("cli") or rq.get("api"):
                rec["cmds"] = holder.get("text")
            records.append(rec)
            if ok:
                env = after
        return {"stack": roots[0], "roots": roots, "parsed": parsed, "records": records}
    finally:
        shutil.rmtree(work, ignore_errors=True)


# ---- model side

def ms_product_field(info):
    return "%s:%s:%s:%s:%s:%s" % (enc(info["name"]), enc(info["version"]), enc(info["root"]),
                                  enc(info.get("flavor") or FLAVOR), enc(info["dir"]), "+".join(info["actions"]))


def world_field_ms(res):
    return "|".join(ms_product_field(info) for info in res["parsed"])


def ms_cfg(res, rq):
    md, just = model_opts(rq)
    return "%s,%s,%s,%s," % (enc(FLAVOR), enc(res["roots"][0]), "-" if md is None or md < 0 else str(md),
                             "1" if rq.get("keep") else "0"), just


def enc_mdecisions(ds):
    return ",".join("!" if d is None else "%s~%s" % (enc(d[0]), enc(d[1])) for d in ds)


def dec_mdecisions(x):
    return [None if d == "!" else [common.dec(p) for p in d.split("~")] for d in x.split(",")] if x else []


def model_line_ms(res, rec, fuel=60):
    rq = rec["request"]
    cfg, just = ms_cfg(res, rq)
    return "\t".join(["reqm", world_field_ms(res), cfg, common.enc_env(rec["before"]), "", enc_mdecisions(rec["decisions"]),
                      enc(rq["name"]), "1" if rq.get("fwd", True) else "0", "1" if just else "0", str(fuel)])


def full_applicable_ms(res):
    return not any(li.startswith("!") for info in res["parsed"] for li in info.get("lines", []))


def model_line_full_ms(res, rec, fuel=60):
    rq = rec["request"]
    cfg, just = ms_cfg(res, rq)
    lines, tags = [], []
    for info in res["parsed"]:
        lines.append("%s:%s:%s:%s" % (enc(info["name"]), enc(info["version"]), enc(info["root"]), "+".join(info["lines"])))
        for t in info["tags"]:
            tags.append("%s~%s~%s~%s~%s" % (enc(info["root"]), enc(info["name"]), enc(info.get("flavor") or FLAVOR), enc(t),
                                            enc(info["version"])))
    version = rq.get("version")
    return "\t".join(["fullm", world_field_ms(res), "|".join(lines), ",".join(tags),
                      ",".join(enc(r) for r in selected_roots(res["roots"], rq)), cfg,
                      common.enc_env(rec["before"]), "", enc(rq["name"]), "-" if version is None else "=" + enc(version),
                      "1" if rq.get("fwd", True) else "0", "1" if just else "0", str(fuel),
                      ",".join(enc(f) for f in FLAVORS), ""])


def model_result_full_ms(line):
    f = line.split("\t")
    if f[0] == "ok":
        return {"ok": True, "env": dict(common.dec_env(f[1])), "aliases": dict(common.dec_env(f[2] if len(f) > 2 else "")),
                "decisions": dec_mdecisions(f[3] if len(f) > 3 else "")}
    if f[0] == "fail":
        return {"ok": False, "kind": "fail", "decisions": dec_mdecisions(f[1] if len(f) > 1 else "")}
    return {"ok": False, "kind": "err:" + "\t".join(f[1:])}


def ms_table_text(world, info):
    return "\n".join(world["stacks"][info["stack"]]["products"][info["name"]][info["version"]]) + "\n"


def ms_tproduct_field(world, info):
    return "%s:%s:%s:%s:%s:%s" % (enc(info["name"]), enc(info["version"]), enc(info["root"]),
                                  enc(info.get("flavor") or FLAVOR), enc(info["dir"]), enc(ms_table_text(world, info)))


def model_line_text_ms(world, res, rec, fuel=60):
    rq = rec["request"]
    cfg, just = ms_cfg(res, rq)
    return "\t".join(["textm", "|".join(ms_tproduct_field(world, info) for info in res["parsed"]), cfg,
                      common.enc_env(rec["before"]), "", enc_mdecisions(rec["decisions"]), enc(rq["name"]),
                      "1" if rq.get("fwd", True) else "0", "1" if just else "0", str(fuel),
                      ",".join(enc(t) for t in SETUP_TYPES), ",".join(enc(w) for w in IMPLICIT_WORDS)])


def ms_world_graph(res):
    g = {}
    for info in res["parsed"]:
        g.setdefault(info["name"], set())
        for a in info["actions"]:
            if a.startswith("S,"):
                g[info["name"]].add(common.dec(a.split(",")[2]))
    return g


def ms_dependency_order(res):
    g = ms_world_graph(res)
    order, seen = [], set()

    def visit(n):
        if n in seen:
            return
        seen.add(n)
        for m in sorted(g.get(n, ())):
            visit(m)
        order.append(n)
    for n in sorted(g):
        visit(n)
    return order


def ms_world_graph_lines(res):
    g = {}
    for info in res["parsed"]:
        g.setdefault(info["name"], set())
        for a in info["actions"]:
            if a.startswith("S,"):
                f = a.split(",")
                g[info["name"]].add((common.dec(f[2]), f[3] == "1"))
    return g


def ms_touched_names(res, name, just=False, max_depth=None):
    return reach_within(ms_world_graph_lines(res), name, just=just, max_depth=max_depth)


# ---- helpers for the oracles on the real environments

def decode_path(x):
    return x.replace("-+-", " ")


def ms_records(env):
    """{product name: (version, root of the recorded stack, flavor)} from the SETUP_ variables, read the way
    Eups.findSetupVersion reads them"""
    out = {}
    for k, v in env.items():
        if not k.startswith("SETUP_"):
            continue
        w = v.split()
        if len(w) < 2:
            continue
        name, args = w[0], w[1:]
        version = args.pop(0) if args[0] != "-f" else "setup"
        flavor = root = None
        if len(args) > 1 and args[0] == "-f":
            flavor = args[1]
            args = args[2:]
        if len(args) > 1 and args[0] in ("-Z", "-z"):
            root = decode_path(args[1])
        out[name] = (version, root, flavor)
    return out


def ms_entry(res, name, version, root):
    for info in res["parsed"]:
        if info["name"] == name and info["version"] == version and info["root"] == root:
            return info
    return None


def ms_contributions(info):
    return contributions_of_actions(info["actions"])


def ms_contributions_state(info, env, minus=None):
    """(present, missing) contributions of one declaration in env; [minus]: another declaration whose own
    contributions do not count (a value the two tables share belongs to the one that is set up)"""
    paths, sets, _ = ms_contributions(info)
    mp, ms_ = ([], {}) if minus is None else ms_contributions(minus)[:2]
    shared_p = set((var, val) for var, val, d in mp)
    pres, miss = [], []
    for var, val, d in paths:
        if (var, val) in shared_p:
            continue
        have = [x for x in (env.get(var) or "").split(d) if x]
        for el in path_contribution_elems(val, d, env):
            (pres if el in have else miss).append((var, el))
    for var, val in sets.items():
        if ms_.get(var) == val:
            continue
        if has_ref(val):
            val = expand_refs(val, env)
            if not val:
                continue
        (pres if env.get(var) == val else miss).append((var, val))
    return pres, miss


def ms_inv_violation(res, env):
    """None if the environment is consistent - for every product name: the directory variable and the contributions of
    the declaration that SETUP_NAME records (its version IN ITS STACK) are there, nothing of the other declarations
    of the name (other versions, the same version in another stack) is - else a description"""
    recs = ms_records(env)
    for name in sorted(set(i["name"] for i in res["parsed"])):
        rec = recs.get(name)
        cur = ms_entry(res, name, rec[0], rec[1]) if rec else None
        if rec and cur is None:
            return "SETUP_%s records %s in %s, which is not declared" % (name.upper(), rec[0], rec[1])
        if cur is not None:
            if env.get(name.upper() + "_DIR") != cur["dir"]:
                return "%s_DIR is %r, the directory of %s %s declared in the recorded stack %s is %r" % (
                    name.upper(), env.get(name.upper() + "_DIR"), name, cur["version"], cur["root"], cur["dir"])
            _, miss = ms_contributions_state(cur, env)
            if miss:
                return "%s %s of %s is set up but its contributions %r are missing" % (name, cur["version"], cur["root"], miss[:3])
        for info in res["parsed"]:
            if info["name"] == name and info is not cur:
                pres, _ = ms_contributions_state(info, env, minus=cur)
                if pres:
                    return "%s %s of %s is not what is set up (%r) but its contributions %r are present" % (
                        name, info["version"], info["root"], rec, pres[:3])
    return None


def ms_norm_env(res, env):
    delims = {}
    for info in res["parsed"]:
        for var, val, d in ms_contributions(info)[0]:
            delims[var] = d
    out = {}
    for k, v in env.items():
        if k in ("EUPS_PATH", "EUPS_USERDATA", "EUPS_FLAVOR", "EUPS_SHELL", "HOME"):
            continue
        d = delims.get(k, ":")
        els = uniq_list([x for x in v.split(d) if x])
        if els:
            out[k] = els
    return out


def strip_roots(res, obj):
    text = json.dumps(obj)
    for i, r in sorted(enumerate(res["roots"]), key=lambda x: -len(x[1])):
        text = text.replace(json.dumps(r)[1:-1], "@STACK%d@" % i)
    return json.loads(text)


def ms_shape(world, res, rec):
    """histogram keys of one request on an MS world: what about the stacks it exercises (one key per trait)"""
    rq = rec["request"]
    tags = []
    if rq.get("Z") is not None:
        tags.append("request-with--Z:" + ("one-stack" if len(rq["Z"]) == 1 else "reordered-path"))
    if rq.get("z"):
        tags.append("request-with--z")
    tags.append("request-through-" + ("setupcmd" if rq.get("cli") else "Eups.setup"))
    sb, sa = ms_records(rec["before"]), ms_records(rec["after"])
    roots = res["roots"]
    n = rq["name"]
    if rec["ok"] and rq.get("fwd", True) and n in sa:
        tags.append("top-product-found-in-stack%d" % (roots.index(sa[n][1]) if sa[n][1] in roots else 9))
        if len([i for i in res["parsed"] if i["name"] == n and i["version"] == sa[n][0]]) > 1:
            tags.append("top-product-version-declared-in-both-stacks")
        if n in sb and sb[n][1] != sa[n][1]:
            tags.append("top-product-switches-stack" + (":same-version" if sb[n][0] == sa[n][0] else ":other-version"))
        deps = [k for k in sa if k != n and sa[k] != sb.get(k)]
        if any(sa[k][1] != sa[n][1] for k in deps):
            tags.append("dependency-from-another-stack-than-top")
        if any(k in sb and sb[k][1] != sa[k][1] for k in deps):
            tags.append("dependency-switches-stack")
    if rec["ok"] and rq.get("fwd", True):
        # a forward call below the top level whose decision names another stack than the record that stays
        for nm, d in zip(rec["decision_names"][1:], rec["decisions"][1:]):
            if d and nm in sa and sa[nm][0] == d[0] and sa[nm][1] != d[1]:
                tags.append("already-set-up-from-other-stack-than-decided")
                break
    if not rq.get("fwd", True) and n in sb:
        tags.append("unsetup-of-product-from-stack%d" % (roots.index(sb[n][1]) if sb[n][1] in roots else 9))
        if sb[n][1] not in selected_roots(roots, rq):
            tags.append("unsetup-of-product-whose-stack-is-not-selected")
    if any(v[1] != roots[0] for v in sb.values()):
        tags.append("prior-set-up-from-second-stack")
    if rq.get("keep") and any(v[1] != roots[0] for v in sb.values()):
        tags.append("keep-with-product-from-second-stack")
    return ["ms:" + t for t in tags]


def wf_fraction_ms(ctx, results):
    lines = ["\t".join(["wffm", world_field_ms(r), ",".join(enc(n) for n in ms_dependency_order(r))]) for r in results]
    for out in ctx.model(lines, pid="C01"):
        bits = out.strip()
        if len(bits) != len(WF2_FIELDS) or set(bits) - set("01"):
            raise RuntimeError("bad answer of the MS WF2 checker: %r" % (out,))
        if "0" not in bits:
            ctx.bump("ms-world-satisfies-WF2")
        else:
            ctx.bump("ms-world-outside-WF2")
            for name, b in zip(WF2_FIELDS, bits):
                if b == "0":
                    ctx.bump("ms-world-outside-WF2:" + name)


def run_scenarios_ms(ctx, scenarios, oracle, nproc=14):
    """as run_scenarios, for worlds with several stacks: every request goes through the decision-fed model
    (Model/SetupMS.v), the composed model (Model/SetupMSFull.v, no decisions fed: the resolver of C03 walks the
    selected stacks) and the text-fed model (Model/SetupMSText.v); every table text is compared action by action;
    then the oracle on the real records"""
    results = common.par_map(run_scenario_ms, [(s["world"], s["requests"], s["env0"]) for s in scenarios], nproc=nproc)
    meta = []
    for s, r in zip(scenarios, results):
        if r[0] != "ok":
            raise RuntimeError("MS scenario child failed: %r" % (str(r)[-1500:],))
        for rec in r[1]["records"]:
            meta.append((s, r[1], rec))
    outs = ctx.model([model_line_ms(r, rec) for (s, r, rec) in meta], pid="C01")
    for out, (s, r, rec) in zip(outs, meta):
        case_world = s["world"]
        rec2 = dict(rec)
        compare(ctx, case_world, r, rec2, model_result(out))
        ctx.traces_validated += 1
        ctx.bump("ms-decision-fed-comparisons")
        # the stacks the command selected, stated independently of Eups.setEupsPath
        if rec.get("path_seen") is not None and rec["path_seen"] != selected_roots(r["roots"], rec["request"]) \
                and rec["outcome"] != "raise:EupsException":
            ctx.disagree({"world": s["world"], "request": rec["request"]}, selected_roots(r["roots"], rec["request"]),
                         rec["path_seen"], where="ms-selected-stacks")
    fmeta = [(s, r, rec) for (s, r, rec) in meta if full_applicable_ms(r) and not nontrivial_versions_ms(s["world"])
             and selected_roots(r["roots"], rec["request"])]
    ctx.bump("ms-composed-model-outside-restrictions", len(meta) - len(fmeta))
    fouts = ctx.model([model_line_full_ms(r, rec) for (s, r, rec) in fmeta], pid="C01")
    for out, (s, r, rec) in zip(fouts, fmeta):
        compare_full(ctx, s["world"], r, rec, model_result_full_ms(out))
        ctx.bump("ms-composed-model-comparisons")
        if len(rec["decisions"]) > 1:
            ctx.bump("ms-composed-model-comparisons-with-dependencies")
    # tables, text against real parser, stack by stack
    seen, lines, keys = set(), [], []
    for (s, r, rec) in meta:
        if id(r) in seen:
            continue
        seen.add(id(r))
        for info in r["parsed"]:
            lines.append("\t".join(["ttablem", ms_tproduct_field(s["world"], info), ",".join(enc(t) for t in SETUP_TYPES),
                                    ",".join(enc(w) for w in IMPLICIT_WORDS)]))
            keys.append((s, r, info))
    for out, (s, r, info) in zip(ctx.model(lines, pid="C01"), keys):
        f = out.split("\t")
        if f[0] == "outside":
            ctx.bump("ms-text-table-outside")
            continue
        macts = f[1].split("+") if len(f) > 1 and f[1] else []
        ctx.bump("ms-text-table-comparisons")
        if macts != info["actions"]:
            ctx.disagree({"product": [info["name"], info["version"], "stack%d" % info["stack"]],
                          "table": ms_table_text(s["world"], info).split("\n"), "text_model": True},
                         strip_roots(r, [common.dec(a) for a in macts]),
                         strip_roots(r, [common.dec(a) for a in info["actions"]]), where="ms-text-table-actions")
    touts = ctx.model([model_line_text_ms(s["world"], r, rec) for (s, r, rec) in meta], pid="C01")
    for out, (s, r, rec) in zip(touts, meta):
        f = out.split("\t")
        if f[0] == "outside":
            ctx.bump("ms-text-model-outside")
            continue
        compare_text(ctx, s["world"], r, rec, model_result(out))
        ctx.bump("ms-text-model-comparisons")
    wf_fraction_ms(ctx, [r[1] for r in results])
    for s, r in zip(scenarios, results):
        for rec in r[1]["records"]:
            for key in ms_shape(s["world"], r[1], rec):
                ctx.bump(key)
        oracle(ctx, s, r[1])
    return results


def nontrivial_versions_ms(world):
    return any(v not in VERSIONS for st in world["stacks"] for vs in st["products"].values() for v in vs)


# ---- scenarios

def gen_scenario_ms(rng, shape="plain"):
    """shape plain: 0-3 prior setups (each possibly restricted to one stack with -Z / -z, so that products are set up
    from the second stack) and a final request; inverse: setup X then unsetup X (the unsetup possibly with another
    selection of stacks than the setup); options: the final request carries --keep / --just / --max-depth or is an
    unsetup"""
    w = gen_world_ms(rng)
    env0 = {"PATH": "/usr/bin:/bin"}
    if rng.random() < 0.3:
        env0["XLIST"] = "/pre/x;/pre/y"
    if rng.random() < 0.2:
        env0["LD_LIBRARY_PATH"] = "/usr/lib"
    if shape == "inverse":
        first = gen_request_ms(rng, w, allow_fail=0.08)
        second = {"name": first["name"], "fwd": False}
        r = rng.random()
        if r < 0.25:
            second["Z"] = [rng.randrange(len(w["stacks"]))]       # unsetup while another stack is selected
        elif r < 0.4 and first.get("Z") is not None:
            second["Z"] = first["Z"]
        if rng.random() < 0.3:
            second["cli"] = True
        return {"world": w, "requests": [first, second], "env0": env0}
    reqs = [gen_request_ms(rng, w, allow_fail=0.0) for _ in range(rng.choice([0, 1, 2, 3]))]
    last = gen_request_ms(rng, w, allow_fail=0.06)
    if shape == "options":
        r = rng.random()
        if r < 0.45:
            last["keep"] = True
        elif r < 0.6:
            last["just"] = True
        elif r < 0.82:
            last["max_depth"] = rng.choice([0, 1, 1, 2])
        else:
            last = dict(last, fwd=False)
            last.pop("version", None)
        if last.get("just") and last.get("max_depth") is not None:
            del last["max_depth"]
        if not reqs:
            reqs = [gen_request_ms(rng, w, allow_fail=0.0)]
    return {"world": w, "requests": reqs + [last], "env0": env0}


def directed_ms_scenarios():
    """two stacks sA, s B (a blank in the second root); lib 1.0 is declared in both with different tables, lib 2.0
    only in the second, the current tag of lib is 1.0 in the first stack and 2.0 in the second; app 1.0 (first stack)
    requires lib; tool 1.0 (second stack only) requires lib 1.0:
      s1  setup lib (found in the first stack), setup -Z second lib 1.0 (same version, other stack: the top level
          unsetups the table of the first stack and executes the one of the second), unsetup lib (undoes the second)
      s2  setup -z (second) lib 1.0, then setup app on the whole path: lib 1.0 is found in the first stack, the version
          recorded is the same: already set up, the record keeps the second stack; then unsetup app
      s3  setup -Z second lib (current there: 2.0), setup --keep app: lib stays 2.0 of the second stack
      s4  through the command line: setup -Z second:first tool, unsetup -Z first tool (tool is not declared in the
          selected stack; SETUP_TOOL says where it is)
      s5  a version that only the second stack has, asked for with the first stack alone selected: fails, nothing changes"""
    libA = ["envPrepend(PATH, ${PRODUCT_DIR}/bin)", "envSet(LIB_HOME, ${PRODUCT_DIR}/home)", "envSet(LIB_STACK, ${PRODUCTS}/share)"]
    libB = ["envPrepend(PATH, ${PRODUCT_DIR}/bin2)", "envAppend(LD_LIBRARY_PATH, ${PRODUCT_DIR}/lib)",
            "envSet(LIB_STACK, ${UPS_DB}/x)", "addAlias(run_lib, echo lib second)"]
    lib2 = ["envPrepend(PATH, ${PRODUCT_DIR}/bin)", "envSet(LIB_HOME, ${PRODUCT_DIR}/home)"]
    A = {"root": "sA", "products": {"lib": {"1.0": libA}, "app": {"1.0": ["envPrepend(PATH, ${PRODUCT_DIR}/bin)", "setupRequired(lib)"]}},
         "current": {"lib": "1.0", "app": "1.0"}, "generic": []}
    B = {"root": "s B", "products": {"lib": {"1.0": libB, "2.0": lib2},
                                     "tool": {"1.0": ["envPrepend(PATH, ${PRODUCT_DIR}/bin)", "setupRequired(lib 1.0)"]}},
         "current": {"lib": "2.0", "tool": "1.0"}, "generic": []}
    w = {"stacks": [A, B]}
    env0 = {"PATH": "/usr/bin:/bin"}
    mk = lambda reqs: {"world": w, "env0": dict(env0), "requests": reqs}
    return [
        mk([{"name": "lib", "fwd": True}, {"name": "lib", "version": "1.0", "fwd": True, "Z": [1]}, {"name": "lib", "fwd": False}]),
        mk([{"name": "lib", "version": "1.0", "fwd": True, "z": "s B"}, {"name": "app", "fwd": True}, {"name": "app", "fwd": False}]),
        mk([{"name": "lib", "fwd": True, "Z": [1]}, {"name": "app", "fwd": True, "keep": True}]),
        mk([{"name": "tool", "fwd": True, "Z": [1, 0], "cli": True}, {"name": "tool", "fwd": False, "Z": [0], "cli": True}]),
        mk([{"name": "lib", "version": "2.0", "fwd": True, "Z": [0]}, {"name": "lib", "version": "2.0", "fwd": True, "cli": True, "z": "s B"}]),
    ]


# ------------------------------------------------------------------ the command list of eups.app.setup, read as a shell would
# (C02 observes the command list: setupcmd prints it joined by ";\n"; commands: export N=V, unset N, unset -f N,
# name() { body ; }, false)

def shell_word(w):
    """one shell word of the emitted fragment: single-quoted pieces stand for themselves"""
    out, i, q = [], 0, False
    while i < len(w):
        c = w[i]
        if c == "'":
            q = not q
        else:
            out.append(c)
        i += 1
    return "".join(out)


def shell_apply(text, env, funcs=None):
    """the environment (and function table) of a shell that starts with env and sources text; None when a command is
    not one of the forms above"""
    import re
    env = dict(env)
    funcs = {} if funcs is None else funcs
    for cmd in text.split(";\n"):
        cmd = cmd.strip()
        if not cmd:
            continue
        if cmd == "false":
            return env
        m = re.match(r"export ([A-Za-z_][A-Za-z_0-9]*)=(.*)$", cmd, re.S)
        if m:
            env[m.group(1)] = shell_word(m.group(2))
            continue
        m = re.match(r"unset (-f )?([A-Za-z_][A-Za-z_0-9]*)$", cmd)
        if m:
            # (unset without option: the variable of that name; when there is none, the function of that name - this
            # is how app.setup takes an alias away)
            if m.group(1) or m.group(2) not in env:
                funcs.pop(m.group(2), None)
            else:
                env.pop(m.group(2), None)
            continue
        m = re.match(r"([A-Za-z_][A-Za-z_0-9]*)\(\) \{ (.*) ; \}$", cmd, re.S)
        if m:
            funcs[m.group(1)] = m.group(2)
            continue
        return None
    return env


# ------------------------------------------------------------------ table values that refer to other variables
# (the directory variable of a dependency set up by an earlier line of the same table; variables of the user's
# environment whose value is a list in the delimiter of the command)

def dep_variable_patterns(world):
    """regular expressions for the path elements described by finding D60 / D61: the expansion of an element of a
    path command (envPrepend / envAppend / pathPrepend / pathAppend) whose value refers to the directory variable
    <DEP>_DIR (or SETUP_<DEP>) of a product that the same table sets up on an earlier line"""
    import re
    stacks = world["stacks"] if is_ms(world) else [world]
    allv = {}
    for st in stacks:
        for n, vs in st["products"].items():
            allv.setdefault(n, set()).update(vs)
    var_re = r"\$\??\{([^-}]*)(?:-[^}]+)?\}"
    pats = []
    for st in stacks:
        for n, vs in st["products"].items():
            for v, lines in vs.items():
                deps = []
                for l in lines:
                    m = re.match(r"\s*(\w+)\s*\((.*)\)", l)
                    if not m:
                        continue
                    cmd, args = m.group(1).lower(), m.group(2)
                    if cmd in ("setuprequired", "setupoptional"):
                        words = [x for x in args.replace('"', " ").split() if not x.startswith("-")]
                        if words:
                            deps.append(words[0])
                        continue
                    if cmd not in ("envprepend", "envappend", "pathprepend", "pathappend"):
                        continue
                    parts = [a.strip() for a in args.split(",")]
                    if len(parts) < 2:
                        continue
                    value = parts[1].strip('"')
                    delim = parts[2].strip('"') if len(parts) > 2 and parts[2].strip('"') else ":"
                    for t in value.split(delim):
                        refs = re.findall(var_re, t)
                        hit = [d for d in deps if d.upper() + "_DIR" in refs or "SETUP_" + d.upper() in refs]
                        if not hit:
                            continue
                        rx, pos = "", 0
                        for m2 in re.finditer(var_re, t):
                            rx += re.escape(t[pos:m2.start()])
                            pos = m2.end()
                            key = m2.group(1)
                            d = [x for x in hit if key == x.upper() + "_DIR"]
                            if d:
                                rx += r".*/%s/(?:%s)" % (re.escape(d[0]), "|".join(re.escape(x) for x in sorted(allv.get(d[0], ["?"]))))
                            elif key in ("PRODUCT_DIR", "PROD_DIR", "UPS_PROD_DIR", n.upper() + "_DIR"):
                                rx += r".*/%s/%s" % (re.escape(n), re.escape(v))
                            else:
                                rx += r".*"
                        rx += re.escape(t[pos:])
                        pats.append(re.compile(rx + r"$"))
    return pats


def m_dep_variable_not_restored(f):
    """finding D60 (C02): after setup + unsetup the only difference is that path variables keep elements that are the
    expansion of a path command referring to the directory variable of a product set up earlier in the same table"""
    if f["kind"] != "not-restored":
        return False
    pats = dep_variable_patterns(f["input"]["world"])
    if not pats:
        return False
    exp, obs = f["expected"], f["observed"]
    extra = 0
    for var in set(exp) | set(obs):
        e, o = exp.get(var) or [], obs.get(var) or []
        if not isinstance(e, list) or not isinstance(o, list):
            return False
        left = [x for x in o if not any(p.match(x) for p in pats)]
        if left != [x for x in e if not any(p.match(x) for p in pats)] or any(x in o and any(p.match(x) for p in pats) for x in e):
            return False
        extra += len(o) - len(left)
    return extra > 0


def m_dep_variable_residue(f):
    """finding D61 (C01): the variable that still refers to the directory of the replaced version does so only through
    elements that are the expansion of such a command"""
    import re
    if f["kind"] != "residue-dir" or not isinstance(f["observed"], dict):
        return False
    m = re.search(r"directory of the replaced (\S+) (\S+)", f["what"])
    pats = dep_variable_patterns(f["input"]["world"])
    if not m or not pats:
        return False
    name, old = m.group(1), m.group(2)
    hits = 0
    for var, val in f["observed"].items():
        for x in val.replace(";", ":").split(":"):
            if ("/%s/%s/" % (name, old)) in x + "/":
                if not any(p.match(x) for p in pats):
                    return False
                hits += 1
    return hits > 0


REF_OUTSIDE = {"SITE_DIRS": "/site/%s/a;/site/%s/b", "EXTRA_BIN": "/x/%s/bin:/y/%s/bin", "ONE_DIR": "/opt/%s/one", "SITE_ONE": "/site/%s/only"}


def gen_scenario_refs(rng, shape="plain"):
    """tables whose values refer to OTHER variables than the product's own directory:
      - the directory variable of a dependency the same table sets up on an earlier line (envSet(TOP_PLUGINS,
        ${DEP_DIR}/plugins), a pair of directories in one envSet value; a modest share of path commands of that kind:
        findings D60 / D61)
      - variables of the user's environment: one directory, or a LIST in the delimiter of the command
        (envAppend(PLUGIN_PATH, ${SITE_DIRS}, ";") with SITE_DIRS=/site/a;/site/b), in the forms ${V}, $?{V} (defined or
        not), ${V-default}, alone or next to an element of the product's own
    dep p1 (2-3 versions), top p3 (one line per version naming a version of p1), a bystander p2 with references of
    its own.  shape plain: setup top v, then setup top (bare or another version) - the version of top and of p1 is
    replaced; inverse: setup top, unsetup top; options: the last request carries --keep / --just / --max-depth or is
    an unsetup.  The owner of a referring line is always the product requested (a line is only taken back when its
    owner is unset up)"""
    dep, by, top = "p1", "p2", "p3"
    env0 = {"PATH": "/usr/bin:/bin"}
    # every product refers to variables of its own (SITE_DIRS_P3 ...): the elements different products contribute
    # stay apart
    defined = [(k, n) for k in sorted(REF_OUTSIDE) for n in (dep, by, top) if rng.random() < 0.75]
    for k, n in defined:
        env0["%s_%s" % (k, n.upper())] = REF_OUTSIDE[k].replace("%s", n)
    if rng.random() < 0.3:
        env0["PLUGIN_PATH"] = rng.choice(["/pre/p", "/pre/p;/site/a", ""])

    def own(n):
        up = n.upper()
        out = ["envPrepend(PATH, ${PRODUCT_DIR}/bin)"]
        if rng.random() < 0.5:
            out.append("envAppend(LD_LIBRARY_PATH, ${PRODUCT_DIR}/lib)")
        if rng.random() < 0.5:
            out.append("envSet(%s_HOME, ${PRODUCT_DIR}/home)" % up)
        if rng.random() < 0.25:
            out.append("addAlias(run_%s, echo %s)" % (n, n))
        return out

    def outside(n):
        """lines that refer to variables of the user's environment (every non-optional reference is to a defined one)"""
        up = n.upper()
        q = lambda k: ("${%s_%s}" % (k, up)) if (k, n) in defined and rng.random() < 0.6 else \
            rng.choice(["$?{%s_%s}" % (k, up), "${%s_%s-/dflt/%s/%s}" % (k, up, n, k.lower())])
        pool = ['envAppend(PLUGIN_PATH, %s, ";")' % q("SITE_DIRS"),
                "envPrepend(PATH, %s)" % q("EXTRA_BIN"),
                'envPrepend(PLUGIN_PATH, %s, ";")' % q("SITE_ONE"),
                "envAppend(%s_PATH, %s/share:${PRODUCT_DIR}/share)" % (up, q("ONE_DIR")),
                "envSet(%s_SITE, %s/cfg)" % (up, q("ONE_DIR")),
                "envSet(%s_LIST, %s)" % (up, q("SITE_DIRS")),
                "envSet(%s_OPT, $?{NOT_DEFINED_ANYWHERE}/x)" % up,
                "envPrepend(PATH, $?{NOT_DEFINED_ANYWHERE}/bin)"]
        return [l for l in pool if rng.random() < 0.35]

    dvs = sorted(rng.sample(VERSIONS, rng.choice([2, 2, 3])))
    prods = {dep: {v: own(dep) + (outside(dep) if rng.random() < 0.3 else []) for v in dvs},
             by: {"1.0": own(by) + outside(by)}}
    tvs = sorted(rng.sample(VERSIONS, 2))
    prods[top] = {}
    for v in tvs:
        dv = rng.choice(dvs)
        kind = "setupRequired"
        depline = "%s(%s %s)" % (kind, dep, dv) if rng.random() < 0.8 else "%s(%s)" % (kind, dep)
        D = "${%s_DIR}" % dep.upper()
        after = [l for l in ["envSet(%s_PLUGINS, %s/plugins)" % (top.upper(), D),
                             "envSet(%s_PAIR, %s/etc:${PRODUCT_DIR}/etc)" % (top.upper(), D),
                             "envSet(%s_DEPSETUP, ${SETUP_%s})" % (top.upper(), dep.upper())] if rng.random() < 0.45]
        if rng.random() < 0.12:
            # findings D60 / D61: a path command of this kind is not taken back (the dependency is unset first)
            after.append(rng.choice(["envPrepend(PATH, %s/tools)" % D, 'envAppend(%s_PATH, %s/share)' % (top.upper(), D)]))
        rng.shuffle(after)
        before = own(top)
        k = rng.randrange(len(before) + 1)
        lines = before[:k] + [depline] + before[k:]
        for l in after + outside(top):
            lines.insert(rng.randrange(lines.index(depline) + 1, len(lines) + 1), l)
        prods[top][v] = lines
    w = {"root": rng.choice(["stack", "stack", "stack dir"]), "products": prods,
         "current": {dep: rng.choice(dvs), by: "1.0", top: rng.choice(tvs)}, "generic": [], "family": "refs"}
    first = {"name": top, "fwd": True, "version": rng.choice(tvs)}
    cli = rng.random() < 0.4
    if shape == "inverse":
        if rng.random() < 0.3:
            first.pop("version")
        reqs = [first, {"name": top, "fwd": False}]
    else:
        pre = [{"name": by, "fwd": True}] if rng.random() < 0.5 else []
        last = {"name": top, "fwd": True}
        if rng.random() < 0.6:
            last["version"] = rng.choice([v for v in tvs if v != first["version"]] or tvs)
        if shape == "options":
            r = rng.random()
            if r < 0.3:
                last["keep"] = True
            elif r < 0.45:
                last["just"] = True
            elif r < 0.65:
                last["max_depth"] = rng.choice([0, 1, 2])
            elif r < 0.85:
                last = {"name": top, "fwd": False}
        reqs = pre + [first, last]
    if cli:
        for q in reqs:
            q["cli"] = True
    return {"world": w, "requests": reqs, "env0": env0}


# ------------------------------------------------------------------ neighbours: names in a prefix relation, -j on table lines
NAME_PAIRS = [("afw", "afwdata"), ("base", "base_utils"), ("lib", "libx"), ("p1", "p10"), ("sci", "scipipe")]


def gen_scenario_neighbours(rng, shape=None):
    """a small graph around two products whose NAMES are in a prefix relation (afw / afwdata): one of the two (either) is
    below the requested product, the other is a bystander set up beforehand; the product below also has a dependency
    of its own (dd) that the requested product's table may or may not list; the requested product's lines are plain,
    carry -j (name -j version / -j name version), or form the block of an expanded table (if (type == exact) with
    one -j line per product, dependencies first).  Sequences (shape):
      replace    bystander, top 1.0, top 2.0 (the product below is replaced by another version)
      unsetup    bystander, top 1.0, unsetup top
      just       bystander, the product below on its own (with dd), setup -j of another version of it
      own-dep    dd on its own, top (whose line says: just the product below), then unsetup top / top in another version
      exact      the product below on its own (with dd), then top, whose exact block lists dd -j and the product below -j
                 in another version"""
    a, b = rng.choice(NAME_PAIRS)
    s, l = (a, b) if rng.random() < 0.7 else (b, a)       # s is below the requested product, l is the bystander
    dd, top = "dd", "top"
    shape = shape or rng.choice(["replace", "unsetup", "just", "own-dep", "exact"])

    def own(n, v):
        up = n.upper()
        out = ["envPrepend(PATH, ${PRODUCT_DIR}/bin)"]
        if rng.random() < 0.6:
            out.append("envSet(%s_HOME, ${PRODUCT_DIR}/home)" % up)
        if rng.random() < 0.4:
            out.append("envAppend(LD_LIBRARY_PATH, ${PRODUCT_DIR}/lib)")
        if rng.random() < 0.3:
            out.append("envSet(%s_DIRS, ${PRODUCT_DIR}/a:${PRODUCT_DIR}/b)" % up)     # a variable named <P>_DIRS
        return out
    prods = {dd: {v: own(dd, v) for v in ("1.0", "2.0")},
             l: {"1.0": own(l, "1.0")},
             s: {v: own(s, v) + (["setupRequired(%s)" % dd] if (v == "1.0" or rng.random() < 0.6) else []) for v in ("1.0", "2.0")}}

    def line(v, j):
        if not j:
            return "setupRequired(%s %s)" % (s, v)
        return rng.choice(["setupRequired(%s -j %s)", "setupRequired(-j %s %s)", "setupRequired(%s %s -j)"]) % (s, v)
    jline = shape in ("own-dep",) or (shape in ("replace", "unsetup") and rng.random() < 0.4)
    prods[top] = {}
    for v in ("1.0", "2.0"):
        if shape == "exact":
            blk = ["setupRequired(%s -j 1.0)" % dd, "setupRequired(%s -j %s)" % (s, v)]
            prods[top][v] = own(top, v) + (["if (type == exact) {"] + blk + ["}"] if rng.random() < 0.6 else blk)
        else:
            prods[top][v] = own(top, v) + [line(v, jline)]
    cur = {dd: "1.0", l: "1.0", s: rng.choice(["1.0", "2.0"]), top: rng.choice(["1.0", "2.0"])}
    w = {"root": "stack", "products": prods, "current": cur, "generic": [], "family": "neighbours"}
    rq = lambda n, v=None, **k: dict({"name": n, "fwd": True}, **(dict(k, version=v) if v else k))
    pre = [rq(l)] if rng.random() < 0.85 else []
    if shape == "replace":
        reqs = pre + [rq(top, "1.0"), rq(top, "2.0")]
    elif shape == "unsetup":
        reqs = pre + [rq(top, rng.choice(["1.0", "2.0"])), {"name": top, "fwd": False}]
    elif shape == "just":
        reqs = pre + [rq(s, "1.0"), rq(s, "2.0", just=True)]
    elif shape == "own-dep":
        last = {"name": top, "fwd": False} if rng.random() < 0.5 else rq(top, "2.0")
        reqs = pre + [rq(dd, "1.0"), rq(top, "1.0"), last]
    else:
        reqs = pre + [rq(s, "1.0"), rq(top, "2.0")]
    if rng.random() < 0.35:
        for q in reqs:
            q["cli"] = True
    env0 = {"PATH": "/usr/bin:/bin"}
    if rng.random() < 0.3:
        env0["LD_LIBRARY_PATH"] = "/usr/lib"
    return {"world": w, "requests": reqs, "env0": env0}


# ------------------------------------------------------------------ several stacks: directed families
# (what the random split of split_world_ms meets only by chance)

def gen_scenario_ms_directed(rng, shape="plain", kind=None):
    """two stacks; kinds
      two-copies       the same version of lib in both stacks, with different tables and directories; the copy of the
                       LATER stack is the one set up (only that copy carries the current tag, or it is asked for with
                       -Z / -z); then the version is replaced (another version of app, of lib) or unset up
      expression       requests by relational expression (a dependency line lib >= 1.0, lib > 1.0, lib [>= 2.0], or
                       the top-level request itself): the newest version that satisfies it is declared only in a
                       stack BEHIND another stack that has an older satisfying version
      keep-unselected  --keep while a dependency is set up from a stack that the request does not select (-Z / -z
                       name the other stack), which declares another version that the tables / tags designate
    shape plain (C01) / inverse (C02: setup X, unsetup X) / options (C04: --keep, --just, --max-depth, unsetup)"""
    ra, rb = rng.choice(MS_ROOTS)
    kinds = {"plain": ["two-copies", "expression", "expression"], "inverse": ["expression", "two-copies"],
             "options": ["keep-unselected", "keep-unselected", "two-copies", "expression"]}
    kind = kind or rng.choice(kinds[shape])
    lib, app = "lib", "app"

    def own(n, variant=""):
        up = n.upper()
        out = ["envPrepend(PATH, ${PRODUCT_DIR}/bin%s)" % variant]
        if rng.random() < 0.6:
            out.append("envSet(%s_HOME, ${PRODUCT_DIR}/home%s)" % (up, variant))
        if rng.random() < 0.4:
            out.append("envAppend(LD_LIBRARY_PATH, ${PRODUCT_DIR}/lib%s)" % variant)
        if rng.random() < 0.3:
            out.append("envSet(%s_STACK, ${PRODUCTS}/share)" % up)
        return out
    A = {"root": ra, "products": {}, "current": {}, "generic": []}
    B = {"root": rb, "products": {}, "current": {}, "generic": []}
    Zb = lambda q: dict(q, Z=[1]) if rng.random() < 0.6 else dict(q, z=os.path.basename(rb))
    Za = lambda q: dict(q, Z=[0]) if rng.random() < 0.6 else dict(q, z=os.path.basename(ra))
    rq = lambda n, v=None, **k: dict({"name": n, "fwd": True}, **(dict(k, version=v) if v else k))
    if kind == "two-copies":
        v1, v2 = rng.choice([("1.0", "2.0"), ("2.0", "3.0"), ("2.0", "1.0")])
        A["products"][lib] = {v1: own(lib)}
        B["products"][lib] = {v1: own(lib, "2")}
        for st in rng.choice([[A], [B], [A, B]]):
            st["products"][lib][v2] = own(lib, "3")
        B["current"][lib] = v1
        if rng.random() < 0.3:
            A["current"][lib] = v1
        home = rng.choice([A, B])
        home["products"][app] = {"1.0": own(app) + [rng.choice(["setupRequired(%s)" % lib, "setupRequired(%s %s)" % (lib, v1)])],
                                 "2.0": own(app) + ["setupRequired(%s %s)" % (lib, v2)]}
        home["current"][app] = "1.0"
        first = rng.choice([Zb(rq(lib, v1)), rq(app, "1.0"), Zb(rq(app, "1.0")) if home is B else rq(app, "1.0")])
        if shape == "inverse":
            reqs = [first, {"name": first["name"], "fwd": False}]
        else:
            last = rng.choice([rq(app, "2.0"), rq(lib, v2), rq(app, "2.0")])
            if shape == "options":
                last = rng.choice([dict(last, keep=True), dict(last, max_depth=1), {"name": first["name"], "fwd": False},
                                   rq(lib, v2, just=True)])
            reqs = [first, last]
    elif kind == "expression":
        lo = rng.choice(["1.0", "2.0"])
        his = [v for v in VERSIONS if v > lo]
        A["products"][lib] = {lo: own(lib)}
        if rng.random() < 0.3:
            A["products"][lib]["1.0"] = own(lib)
        hi = rng.choice(his)
        B["products"][lib] = {hi: own(lib, "2")}
        if rng.random() < 0.4:
            B["products"][lib][lo] = own(lib, "3")
        A["current"][lib] = lo
        if rng.random() < 0.5:
            B["current"][lib] = rng.choice(sorted(B["products"][lib]))
        bound = rng.choice(["1.0", lo])
        ex = rng.choice([">= %s" % bound, ">= %s" % bound, "> %s" % ("1.0" if lo != "1.0" else "0.9"), "[>= %s]" % bound,
                         ">= %s || == 9.9" % bound])
        home = rng.choice([A, A, B])
        kindw = rng.choice(["setupRequired", "setupRequired", "setupOptional"])
        home["products"][app] = {"1.0": own(app) + ["%s(%s %s)" % (kindw, lib, ex)]}
        home["current"][app] = "1.0"
        top = rng.choice([rq(app), rq(app), rq(lib, ex.strip("[]") if ex.startswith("[") else ex)])
        if rng.random() < 0.25:
            top["Z"] = [1, 0]                  # the path the other way round: the newest version is in the first stack searched
        if shape == "inverse":
            reqs = [top, {"name": top["name"], "fwd": False}]
        elif shape == "options":
            reqs = [rq(lib, lo), rng.choice([dict(top, keep=True), dict(top, max_depth=rng.choice([0, 1])), dict(top)])]
        else:
            reqs = [top] if rng.random() < 0.7 else [rq(app), top]
    else:
        A["products"][lib] = {"1.0": own(lib)}
        B["products"][lib] = {"2.0": own(lib, "2")}
        if rng.random() < 0.5:
            B["products"][lib]["1.0"] = own(lib, "3")
        if rng.random() < 0.3:
            A["products"][lib]["3.0"] = own(lib)
        A["current"][lib] = rng.choice(sorted(A["products"][lib]))
        B["current"][lib] = "2.0"
        A["products"][app] = {"1.0": own(app) + [rng.choice(["setupRequired(%s)", "setupRequired(%s -t current)", "setupRequired(%s >= 1.0)",
                                                             "setupOptional(%s)", "setupRequired(%s 1.0)"]) % lib]}
        A["current"][app] = "1.0"
        reqs = [Zb(rq(lib, rng.choice(["2.0", None]))), Za(rq(app, keep=True))]
    if rng.random() < 0.35:
        for q in reqs:
            q["cli"] = True
    return {"world": {"stacks": [A, B], "family": "ms-" + kind}, "requests": reqs, "env0": {"PATH": "/usr/bin:/bin"}}


# ---- the version a relational expression designates, over the selected stacks (stated independently of
# Eups._findProductsByExpr / _selectPreferredProduct): the newest declared version that satisfies it, the flavors
# being tried in fall-back order

def parse_relational(text):
    """[(op, version), ...] of  op v || op v ...;  None when the text is not of that shape"""
    import re
    out = []
    for alt in text.split("||"):
        m = re.match(r"\s*(>=|<=|==|>|<)\s*(\S+)\s*$", alt)
        if not m:
            return None
        out.append((m.group(1), m.group(2)))
    return out or None


def dotted_key(v):
    try:
        return tuple(int(x) for x in v.split("."))
    except ValueError:
        return None


def satisfies(v, alts):
    import operator
    ops = {">=": operator.ge, "<=": operator.le, "==": operator.eq, ">": operator.gt, "<": operator.lt}
    return any(dotted_key(x) is not None and ops[op](dotted_key(v), dotted_key(x)) for op, x in alts)


def designated_by_expression(res, roots, name, alts):
    """the version the expression designates in the stacks roots; None when no declared version satisfies it"""
    for fl in FLAVORS:
        ok = [i["version"] for i in res["parsed"] if i["name"] == name and i["root"] in roots and (i.get("flavor") or FLAVOR) == fl
              and dotted_key(i["version"]) is not None and satisfies(i["version"], alts)]
        if ok:
            return max(ok, key=dotted_key)
    return None


def ms_expression_requests(res, rec):
    """[(product name, alternatives, decision)] for the look-ups by pure relational expression made during a plain
    successful request whose decision can be attributed: the top-level request itself, and the lines (no other
    option than -j) of the tables of the products the request set up, for a product that was not set up before, was
    decided once during the request and is named by one such line only"""
    rq = rec["request"]
    if not rec["ok"] or not rq.get("fwd", True) or rq.get("keep") or rq.get("just") or rq.get("max_depth") is not None:
        return []
    if any(dotted_key(i["version"]) is None for i in res["parsed"]):
        return []
    sb, sa = ms_records(rec["before"]), ms_records(rec["after"])
    names, ds = rec["decision_names"], rec["decisions"]
    out = []
    if rq.get("version") and parse_relational(rq["version"]) and rq["name"] not in sb and ds:
        out.append((rq["name"], parse_relational(rq["version"]), ds[0]))
    cands = {}
    for n, (v, root, fl) in sa.items():
        if sb.get(n) == sa[n]:
            continue
        info = ms_entry(res, n, v, root)
        if info is None:
            continue
        for a, li in zip(info["actions"], info["lines"]):
            if not a.startswith("S,"):
                continue
            m = common.dec(a.split(",")[2])
            cands.setdefault(m, []).append(li)
    for m, lis in cands.items():
        if len(lis) != 1 or lis[0].startswith("!") or m in sb or names.count(m) != 1 or m == rq["name"]:
            continue
        vers, vexpr = lis[0].split("~")
        # (a line  name [expr]  without a version is not a look-up by expression: no version, so the version entries of
        # the VRO are passed over and a tag decides)
        text = common.dec(vers[1:]) if vers != "-" and vexpr == "-" else None
        alts = parse_relational(text) if text else None
        if alts:
            out.append((m, alts, ds[names.index(m)]))
    return out


# ------------------------------------------------------------------ products set up from a DIRECTORY (setup -r dir: version LOCAL:dir,
# stack (none)).  The setup models do not have them: these scenarios are run on the real code only and judged by the
# oracle alone (counted under real-code-only:...)

def run_scenario_local(world, requests, env0, locals_, tables=None):
    """child: as run_scenario, every request through the command-line front end; a request with "dir": NAME is
    setup -r <scratch>/local/NAME; locals_: NAME -> table lines of the undeclared product living there (None: the
    directory has no ups/NAME.table); a request with "table": T adds -m <scratch>/tables/T.table (tables: T -> lines)"""
    common.import_eups()
    import contextlib
    import io
    work = common.scratch_dir("setuploc.")
    try:
        stack, userdata = materialise(work, world)
        for name, lines in locals_.items():
            d = os.path.join(work, "local", name)
            os.makedirs(os.path.join(d, "ups") if lines is not None else d)
            if lines is not None:
                with open(os.path.join(d, "ups", name + ".table"), "w") as f:
                    f.write("\n".join(lines) + "\n")
        for tname, lines in (tables or {}).items():
            os.makedirs(os.path.join(work, "tables"), exist_ok=True)
            with open(os.path.join(work, "tables", tname + ".table"), "w") as f:
                f.write("\n".join(lines) + "\n")
        import eups.setupcmd
        base = {"EUPS_PATH": stack, "EUPS_USERDATA": userdata, "EUPS_FLAVOR": FLAVOR, "EUPS_SHELL": "sh", "HOME": "/root"}
        env = dict(base)
        env.update(env0)
        records = []
        for rq in requests:
            sys.modules["eups.db.Database"]._databases.clear()
            os.environ.clear()
            os.environ.update(env)
            before = dict(env)
            args = cli_args(rq)
            if rq.get("dir"):
                args = args[:2] + ["-r", os.path.join(work, "local", rq["dir"])] + args[2:]
            if rq.get("table"):
                args = args[:2] + ["-m", os.path.join(work, "tables", rq["table"] + ".table")] + args[2:]
            out, err = io.StringIO(), io.StringIO()
            try:
                with contextlib.redirect_stdout(out), contextlib.redirect_stderr(err):
                    status = eups.setupcmd.EupsSetup(args=args, toolname="eups_setup").run()
                ok = status == 0 and out.getvalue().strip() != "false"
            except SystemExit:
                ok = False
            except Exception:  # noqa
                ok = False
            after = dict(os.environ)
            records.append({"request": rq, "before": before, "after": after if ok else before, "ok": bool(ok)})
            if ok:
                env = after
        text = json.dumps(records).replace(json.dumps(work)[1:-1], "@WORK@")
        return {"records": json.loads(text)}
    finally:
        shutil.rmtree(work, ignore_errors=True)


def gen_scenario_local(rng):
    """lib is declared (two versions, one current) and also lives, undeclared, in a directory; app requires lib (bare,
    by version, by tag, by expression); a bystander z.  Sequence: setup -r dir lib (or the declared lib), the bystander,
    then app with --keep (lib must stay what it was, the directory version included), plain, or unsetup of app"""
    own = lambda n, s="": ["envPrepend(PATH, ${PRODUCT_DIR}/bin%s)" % s] + \
        (["envSet(%s_HOME, ${PRODUCT_DIR}/home%s)" % (n.upper(), s)] if rng.random() < 0.5 else [])
    line = rng.choice(["setupRequired(lib)", "setupRequired(lib 1.0)", "setupRequired(lib -t current)", "setupRequired(lib >= 1.0)",
                       "setupOptional(lib)"])
    w = {"root": "stack", "products": {"lib": {"1.0": own("lib"), "2.0": own("lib")}, "z": {"1.0": own("z")},
                                       "app": {"1.0": own("app") + [line]}},
         "current": {"lib": rng.choice(["1.0", "2.0"]), "z": "1.0", "app": "1.0"}, "generic": [], "family": "local-directory"}
    first = {"name": "lib", "fwd": True, "dir": "lib"} if rng.random() < 0.75 else {"name": "lib", "fwd": True, "version": "2.0"}
    r = rng.random()
    last = {"name": "app", "fwd": True, "keep": True} if r < 0.7 else {"name": "app", "fwd": True} if r < 0.85 else \
        {"name": "z", "fwd": True, "keep": True}
    reqs = [first] + ([{"name": "z", "fwd": True}] if rng.random() < 0.5 else []) + [last]
    return {"world": w, "requests": reqs, "env0": {"PATH": "/usr/bin:/bin"}, "locals": {"lib": own("lib", "L")}}


def run_scenarios_local(ctx, scenarios, oracle, nproc=14):
    results = common.par_map(run_scenario_local, [(s["world"], s["requests"], s["env0"], s["locals"], s.get("tables"))
                                                  for s in scenarios], nproc=nproc)
    for s, r in zip(scenarios, results):
        if r[0] != "ok":
            raise RuntimeError("local scenario child failed: %r" % (str(r)[-1500:],))
        ctx.bump("real-code-only:product-set-up-from-a-directory")
        oracle(ctx, s, r[1])
    return results


# ------------------------------------------------------------------ round 6: sessions on one instance, versions named like
# tags, one table file for several versions, option words of dependency lines under --keep, csh command lists

def run_scenario_session(world, requests, env0):
    return run_scenario(world, requests, env0, session=True)


def run_scenarios_basic(ctx, scenarios, oracle, runner=None, nproc=14):
    """real runs, every request compared with the decision-fed model (coq/Model/Setup.v: a function of the environment
    before and the decisions - it has no memory of earlier requests), then the oracle; for families whose worlds are
    outside the composed and the text-fed models (version names that are tag names, sessions on one instance)"""
    results = common.par_map(runner or run_scenario, [(s["world"], s["requests"], s["env0"]) for s in scenarios], nproc=nproc)
    lines, meta = [], []
    for s, r in zip(scenarios, results):
        if r[0] != "ok":
            raise RuntimeError("scenario child failed: %r" % (str(r)[-1500:],))
        for rec in r[1]["records"]:
            lines.append(model_line(s["world"], r[1], rec))
            meta.append((s, r[1], rec))
    for out, (s, r, rec) in zip(ctx.model(lines, pid="C01"), meta):
        m = model_result(out)
        if "aliases_all" in rec and m.get("ok"):
            # a session: the aliases the model defines for the request are among the instance's, with the same values,
            # and the ones the instance's table gained are among the model's
            if all(rec["aliases_all"].get(k) == v for k, v in m["aliases"].items()) and \
                    all(m["aliases"].get(k) == v for k, v in rec["aliases"].items()):
                m["aliases"] = rec["aliases"]
        compare(ctx, s["world"], r, rec, m)
        ctx.traces_validated += 1
    for s, r in zip(scenarios, results):
        oracle(ctx, s, r[1])
    return [r[1] for r in results]


def run_scenarios_session(ctx, scenarios, oracle, nproc=14):
    """every scenario twice: all its requests on ONE Eups instance (the session), and one instance per request (what the
    command line does); oracle(ctx, scenario, session result, per-request result)"""
    fresh = common.par_map(run_scenario, [(s["world"], s["requests"], s["env0"]) for s in scenarios], nproc=nproc)
    for r in fresh:
        if r[0] != "ok":
            raise RuntimeError("scenario child failed: %r" % (str(r)[-1500:],))
    it = iter(fresh)
    return run_scenarios_basic(ctx, scenarios, lambda c, s, res: oracle(c, s, res, next(it)[1]), runner=run_scenario_session,
                               nproc=nproc)


def small_own(rng, n, rich=True):
    up = n.upper()
    out = ["envPrepend(PATH, ${PRODUCT_DIR}/bin)"]
    if rng.random() < 0.6:
        out.append("envSet(%s_HOME, ${PRODUCT_DIR}/home)" % up)
    if rich and rng.random() < 0.4:
        out.append("envAppend(LD_LIBRARY_PATH, ${PRODUCT_DIR}/lib)")
    if rich and rng.random() < 0.3:
        out.append("addAlias(run_%s, echo %s)" % (n, n))
    return out


def gen_scenario_session(rng, shape=None):
    """2-4 requests served by ONE long-lived Eups instance (selectVRO + Eups.setup per request).  Shapes:
      random             a world of gen_world; setups (bare / explicit version), unsetups of what an earlier request set
                         up, a setup at the end
      explicit-unsetup   setup lo <v> (version named; v is not the current one), unsetup lo, setup top - whose table (or
                         the table of a product in between) asks for lo with a bare line
      explicit-replace   setup lo <v>, setup lo <v'>, unsetup lo, setup top
      explicit-bare      setup lo <v>, [unsetup lo,] setup lo (no version: the current one), [setup top]
      dependent-first    setup top (lo comes in as current), unsetup top, setup lo <v> explicitly, setup top again"""
    shape = shape or rng.choice(["random", "random", "explicit-unsetup", "explicit-unsetup", "explicit-replace", "dependent-first",
                                 "explicit-bare"])
    rq = lambda n, v=None, **k: dict({"name": n, "fwd": True}, **(dict(k, version=v) if v else k))
    env0 = {"PATH": "/usr/bin:/bin"}
    if rng.random() < 0.3:
        env0["LD_LIBRARY_PATH"] = "/usr/lib"
    if shape == "random":
        w = gen_world(rng)
        reqs, up = [], []
        for _ in range(rng.choice([1, 2, 3])):
            if up and rng.random() < 0.4:
                reqs.append({"name": up.pop(rng.randrange(len(up))), "fwd": False})
            else:
                q = gen_request(rng, w, allow_fail=0.0)
                reqs.append(q)
                if q["name"] not in up:
                    up.append(q["name"])
        reqs.append(gen_request(rng, w, allow_fail=0.0))
        w["family"] = "session:random"
        return {"world": w, "requests": reqs, "env0": env0}
    lo, mid, top = "p1", "p2", "p3"
    vs = sorted(rng.sample(VERSIONS, rng.choice([2, 3])))
    cur = rng.choice(vs)
    others = [v for v in vs if v != cur]
    prods = {lo: {v: small_own(rng, lo) for v in vs}}
    via_mid = rng.random() < 0.4
    kind = rng.choice(["setupRequired", "setupRequired", "setupOptional"])
    if via_mid:
        prods[mid] = {"1.0": small_own(rng, mid) + ["%s(%s)" % (kind, lo)]}
        prods[top] = {"1.0": small_own(rng, top) + ["setupRequired(%s)" % mid]}
    else:
        prods[mid] = {"1.0": small_own(rng, mid)}
        prods[top] = {"1.0": small_own(rng, top) + ["%s(%s)" % (kind, lo)] + (["setupRequired(%s)" % mid] if rng.random() < 0.5 else [])}
    for n in (mid, top):
        rng.shuffle(prods[n]["1.0"])
    w = {"root": rng.choice(["stack", "stack", "stack dir"]), "products": prods, "current": {lo: cur, mid: "1.0", top: "1.0"},
         "generic": [], "family": "session:" + shape}
    v = rng.choice(others)
    if shape == "explicit-unsetup":
        reqs = [rq(lo, v), {"name": lo, "fwd": False}, rq(top)]
    elif shape == "explicit-bare":
        # the same product again at the top level, without a version (finding D63: the top-level product was resolved
        # before the table of the previous request was forgotten)
        reqs = [rq(lo, v)] + ([{"name": lo, "fwd": False}] if rng.random() < 0.6 else []) + [rq(lo)] + ([rq(top)] if rng.random() < 0.4 else [])
    elif shape == "explicit-replace":
        reqs = [rq(lo, v), rq(lo, rng.choice(vs)), {"name": lo, "fwd": False}, rq(top)]
    else:
        reqs = [rq(top), {"name": top, "fwd": False}, rq(lo, v), rq(top)]
        if rng.random() < 0.5:
            reqs.insert(3, {"name": lo, "fwd": False})
            reqs = reqs[1:] if rng.random() < 0.3 else reqs
            if not reqs[0].get("fwd", True):
                reqs = reqs[1:]
    return {"world": w, "requests": reqs, "env0": env0}


def bare_only(res, name):
    """is every dependency line that names the product a bare one (no version, no expression, no option word)?"""
    for info in res["parsed"].values():
        for a, li in zip(info["actions"], info.get("lines", [])):
            if a.startswith("S,") and common.dec(a.split(",")[2]) == name and li != "-~-":
                return False
    return True


TAG_NAMES = ["stable", "current", "latest"]


def gen_scenario_tagnamed(rng, shape=None):
    """a product one of whose versions is NAMED like a recognised tag (a version called stable / current / latest) while
    that tag is assigned to ANOTHER version of the product; the versions have different dependencies (da / db); one of
    the dependencies is also set up on its own.  Sequences (shape):
      replace-below   [the dependency of the tagged version], foo <tag-named>, top (whose table asks for foo 3.0)
      replace-top     the same, the last request being foo 3.0 itself
      unsetup         ..., foo <tag-named>, unsetup foo
      keep            ..., foo <tag-named>, top --keep"""
    shape = shape or rng.choice(["replace-below", "replace-below", "replace-top", "unsetup", "keep"])
    t = rng.choice(TAG_NAMES[:2] if rng.random() < 0.85 else TAG_NAMES)
    foo, da, db, top = rng.choice(["foo", "p2"]), "da", "db", "top"
    tagged = rng.choice(["2.0", "1.0"])
    third = "3.0"
    deps = {t: da, tagged: db, third: rng.choice([da, da, db])}
    prods = {da: {"1.0": small_own(rng, da)}, db: {"1.0": small_own(rng, db)},
             foo: {v: small_own(rng, foo, rich=False) + ["setupRequired(%s%s)" % (deps[v], rng.choice(["", " 1.0"]))] for v in (t, tagged, third)},
             top: {"1.0": small_own(rng, top) + ["setupRequired(%s %s)" % (foo, third)]}}
    cur = {da: "1.0", db: "1.0", top: "1.0"}
    tags = {}
    if t == "current":
        cur[foo] = tagged
    else:
        tags[foo] = {t: tagged}
        if t == "stable" and rng.random() < 0.5:
            cur[foo] = third
    w = {"root": rng.choice(["stack", "stack", "stack dir"]), "products": prods, "current": cur, "generic": [],
         "tags": tags, "family": "tag-named-version:" + shape}
    rq = lambda n, v=None, **k: dict({"name": n, "fwd": True}, **(dict(k, version=v) if v else k))
    pre = [rq(db)] if rng.random() < 0.8 else []
    if rng.random() < 0.3:
        pre.append(rq(da))
    reqs = pre + [rq(foo, t)]
    if shape == "replace-below":
        reqs.append(rq(top))
    elif shape == "replace-top":
        reqs.append(rq(foo, third))
    elif shape == "unsetup":
        reqs.append({"name": foo, "fwd": False})
    else:
        reqs.append(rq(top, keep=True))
    if rng.random() < 0.3:
        for q in reqs:
            q["cli"] = True
    return {"world": w, "requests": reqs, "env0": {"PATH": "/usr/bin:/bin"}}


def reach_by_versions(res, rec):
    """the products a request can reach, read off the versions that matter: the requested product; below a product, the
    dependency lines of the versions of it that the request DECIDED on (successful branches and failed ones alike) and
    of the version that was set up before the request (the one an unsetup or a replacement undoes).  A version that is
    neither set up nor asked for contributes nothing: its table is not read.  (setupsim.touched_names takes the lines of
    every declared version; this is the same walk over fewer tables.)"""
    rq = rec["request"]
    md, just = model_opts(rq)
    budget = 0 if just else (None if md is None or md < 0 else md)
    before = setup_records(rec["before"])
    decided = {}
    for n, v in zip(rec["decision_names"], rec["decisions"]):
        if v is not None:
            decided.setdefault(n, set()).add(v)
    reached, expand, todo = set([rq["name"]]), {rq["name"]: 0}, [rq["name"]]
    while todo:
        n = todo.pop()
        d = expand[n]
        if budget is not None and d >= budget:
            continue
        vs = set(decided.get(n, ()))
        if n in before:
            vs.add(before[n])
        for v in vs:
            info = res["parsed"].get("%s %s" % (n, v))
            for a in (info["actions"] if info else ()):
                if a.startswith("S,"):
                    f = a.split(",")
                    m, j = common.dec(f[2]), f[3] == "1"
                    reached.add(m)
                    if not j and (m not in expand or expand[m] > d + 1):
                        expand[m] = d + 1
                        todo.append(m)
    return reached


def gen_scenario_shared_table(rng, shape=None):
    """a product whose versions are all declared with ONE table file, kept outside the product directories and named by
    its absolute path (eups declare -m /abs/tables/c.table): the table is expanded per product (PRODUCT_DIR,
    PRODUCT_VERSION, the directory variable spelled out).  One version is set up, then replaced by another - directly,
    or as the dependency of another product - or unset up; both versions may be met in one request (diamond)."""
    shape = shape or rng.choice(["replace-direct", "replace-below", "replace-below", "unsetup", "diamond"])
    c, a, b = "p1", "p2", "p3"
    up = c.upper()
    vs = sorted(rng.sample(VERSIONS, rng.choice([2, 3])))
    pd = "${PRODUCT_DIR}" if rng.random() < 0.7 else "${%s_DIR}" % up
    lines = ["envPrepend(PATH, %s/bin)" % pd]
    if rng.random() < 0.6:
        lines.append("envSet(%s_DATA, %s/data/${PRODUCT_VERSION})" % (up, pd))
    if rng.random() < 0.4:
        lines.append("envSet(%s_VERSION_SEEN, ${PRODUCT_VERSION})" % up)
    if rng.random() < 0.4:
        lines.append("envAppend(LD_LIBRARY_PATH, ${PRODUCT_DIR}/lib)")
    if rng.random() < 0.3:
        lines.append("addAlias(run_%s, echo %s ${PRODUCT_VERSION})" % (c, c))
    rng.shuffle(lines)
    cur = rng.choice(vs)
    v0 = rng.choice([v for v in vs if v != cur])
    prods = {c: {v: list(lines) for v in vs},
             a: {"1.0": small_own(rng, a) + ["setupRequired(%s)" % c]},
             b: {"1.0": small_own(rng, b) + ["setupRequired(%s %s)" % (c, v0), "setupRequired(%s)" % a]}}
    w = {"root": rng.choice(["stack", "stack", "stack dir"]), "products": prods, "current": {c: cur, a: "1.0", b: "1.0"},
         "generic": [], "shared_tables": [c], "family": "shared-table:" + shape}
    rq = lambda n, v=None, **k: dict({"name": n, "fwd": True}, **(dict(k, version=v) if v else k))
    if shape == "replace-direct":
        reqs = [rq(c, v0), rq(c, cur) if rng.random() < 0.5 else rq(c)]
    elif shape == "replace-below":
        reqs = [rq(c, v0), rq(a)]
    elif shape == "unsetup":
        reqs = [rq(c, v0), rq(c, cur), {"name": c, "fwd": False}]
    else:
        reqs = [rq(b)] if rng.random() < 0.5 else [rq(c, cur), rq(b)]
    if rng.random() < 0.3:
        for q in reqs:
            q["cli"] = True
    return {"world": w, "requests": reqs, "env0": {"PATH": "/usr/bin:/bin"}}


def expand_shared_line_value(val, name, version, d):
    """what a value of the generator's table text stands for in the product (name, version) installed in d: the
    variables Table.expandEupsVariables replaces, substituted by hand"""
    return val.replace("${PRODUCT_DIR}", d).replace("${%s_DIR}" % name.upper(), d).replace("${PRODUCT_VERSION}", version)


def shared_table_contributions(world, name, version, d):
    """(path elements [(var, elem)], variables {var: value}) that the generator's text of the shared table gives the
    product version - independent of the table parser and of any table the code keeps in memory"""
    import re
    paths, sets = [], {}
    for l in world["products"][name][version]:
        m = re.match(r"(envPrepend|envAppend)\((\w+), ([^,)]+)", l)
        if m:
            paths.append((m.group(2), expand_shared_line_value(m.group(3).strip(), name, version, d)))
        m = re.match(r"envSet\((\w+), ([^,)]+)\)", l)
        if m:
            sets[m.group(1)] = expand_shared_line_value(m.group(2).strip(), name, version, d)
    return paths, sets


# ---- the csh dialect of the command list (EUPS_SHELL = csh / tcsh): setenv N V, unsetenv N, alias N 'body', unalias N;
# variables and aliases are separate name spaces

def csh_apply(text, env, aliases):
    """the environment (and alias table) of a csh that starts with env / aliases and sources text; None when a command is
    not one of the forms above"""
    import re
    env = dict(env)
    for cmd in text.split(";\n"):
        cmd = cmd.strip()
        if not cmd:
            continue
        if cmd == "false":
            return env
        m = re.match(r"setenv ([A-Za-z_][A-Za-z_0-9]*) (.*)$", cmd, re.S)
        if m:
            env[m.group(1)] = shell_word(m.group(2))
            continue
        m = re.match(r"setenv ([A-Za-z_][A-Za-z_0-9]*) ?$", cmd)
        if m:
            env[m.group(1)] = ""
            continue
        m = re.match(r"unsetenv ([A-Za-z_][A-Za-z_0-9]*)$", cmd)
        if m:
            env.pop(m.group(1), None)          # (of a name that is no environment variable: nothing happens)
            continue
        m = re.match(r"unalias ([A-Za-z_][A-Za-z_0-9]*)$", cmd)
        if m:
            aliases.pop(m.group(1), None)
            continue
        m = re.match(r"alias ([A-Za-z_][A-Za-z_0-9]*) '(.*)'$", cmd, re.S)
        if m:
            aliases[m.group(1)] = m.group(2)
            continue
        return None
    return env
