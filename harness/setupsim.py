"""Shared machinery of the setup properties C01, C02, C04 (model: coq/Model/Setup.v, driver build/c01/run).

A *world* is one stack with declared products (name, version) whose table files hold path/envSet/alias commands
and setupRequired/setupOptional lines.  A *scenario* is a list of requests run one after the other, each in a
fresh Eups instance, the environment of one being the starting environment of the next (as a shell would).
For every request the real run records: the environment before and after, the aliases, whether it succeeded, the
list of version decisions taken by the real resolver (one per forward call of Eups.setup, in call order), and the
actions the real table parser derived for every declared product.  The model is then run on (world as parsed by the
real parser, environment before, decisions) and must produce the same environment and aliases.
"""
import json
import os
import shutil
import sys

import common
from common import enc

FLAVOR = "Linux64"
NAMES = ["p1", "p2", "p3", "p4", "p5"]
VERSIONS = ["1.0", "2.0", "3.0"]


# ------------------------------------------------------------------ world generation

def gen_world(rng, nprod=None, spaces=None):
    """products p1..pn; pi depends only on pj with j < i (acyclic)"""
    n = nprod or rng.choice([3, 4, 5])
    names = NAMES[:n]
    prods = {}
    for i, name in enumerate(names):
        vs = sorted(rng.sample(VERSIONS, rng.choice([1, 2, 2, 3])))
        for v in vs:
            lines = []
            # the table's own directory: ${PRODUCT_DIR}, or spelled out as ${<NAME>_DIR} (both are replaced by the
            # directory when the table is loaded: Table.expandEupsVariables)
            pd = "${PRODUCT_DIR}" if rng.random() < 0.8 else "${%s_DIR}" % name.upper()
            r0 = rng.random()
            if r0 < 0.12:
                # one command contributing two elements
                lines.append("envPrepend(PATH, %s/bin:%s/scripts)" % (pd, pd))
            elif r0 < 0.85:
                lines.append("envPrepend(PATH, %s/bin)" % pd)
            if rng.random() < 0.5:
                lines.append("envAppend(LD_LIBRARY_PATH, %s/lib)" % pd)
            if rng.random() < 0.35:
                lines.append("envPrepend(%s_PATH, %s/share, \";\")" % (name.upper(), pd))
            if rng.random() < 0.3:
                # a custom-delimited list shared by several products
                lines.append("%s(XLIST, %s/x, \";\")" % (rng.choice(["envPrepend", "envAppend"]), pd))
            if rng.random() < 0.5:
                lines.append("envSet(%s_HOME, %s/home)" % (name.upper(), pd))
            if rng.random() < 0.3:
                lines.append("addAlias(run_%s, echo %s %s)" % (name, name, v))
            deps = []
            for j in range(i):
                if rng.random() < 0.55:
                    dep = names[j]
                    form = rng.random()
                    kind = "setupRequired" if rng.random() < 0.7 else "setupOptional"
                    dvs = VERSIONS
                    if form < 0.40:
                        arg = dep
                    elif form < 0.65:
                        arg = "%s %s" % (dep, rng.choice(dvs))
                    elif form < 0.77:
                        arg = "%s %s [>= %s]" % (dep, rng.choice(dvs), rng.choice(dvs))
                    elif form < 0.86:
                        arg = "%s %s %s" % (dep, rng.choice([">=", ">=", ">", "<=", "<"]), rng.choice(dvs))  # bare expression
                    elif form < 0.93:
                        arg = "%s -t current" % dep         # by tag (outside the composed model, inside Model/Setup.v)
                    else:
                        arg = "%s -j" % dep
                    deps.append("%s(%s)" % (kind, arg))
            rng.shuffle(deps)
            k = rng.randrange(len(lines) + 1)
            lines = lines[:k] + deps + lines[k:]
            prods.setdefault(name, {})[v] = lines
    if n >= 3 and rng.random() < 0.35:
        # a version conflict inside one graph: two products require different explicit versions of p1, whose
        # versions have different dependencies of their own (only for worlds of >= 4 products: p1 needs a p0)
        lo, a, b = names[0], names[-2], names[-1]
        vs = sorted(prods[lo])
        if len(vs) < 2:
            extra = [v for v in VERSIONS if v not in prods[lo]][0]
            prods[lo][extra] = ["envPrepend(PATH, ${PRODUCT_DIR}/bin)"]
            vs = sorted(prods[lo])
        for v in prods[a]:
            prods[a][v] = [l for l in prods[a][v] if "(%s" % lo not in l] + ["setupRequired(%s %s)" % (lo, vs[0])]
        for v in prods[b]:
            prods[b][v] = [l for l in prods[b][v] if "(%s" % lo not in l and "(%s" % a not in l] + \
                          ["setupRequired(%s)" % a, "setupRequired(%s %s)" % (lo, vs[1])]
    if n >= 3 and rng.random() < 0.2:
        # an optional dependency that fails part-way: the top product optionally asks for a version of x whose table
        # first sets up y and then meets a version of y that is not declared / a variable that is not defined
        y, x, top = names[0], names[1], names[-1]
        bad = [v for v in VERSIONS if v not in prods[x]]
        bad = bad[0] if bad else sorted(prods[x])[-1]
        tail = rng.choice(["setupRequired(%s 9.9)" % y, "envPrepend(PATH, ${UNDEFINED_VARIABLE}/bin)",
                           "setupRequired(%s 9.9)" % y])
        prods[x][bad] = ["envPrepend(PATH, ${PRODUCT_DIR}/bin)", "envSet(%s_HOME, ${PRODUCT_DIR}/home)" % x.upper(),
                         "addAlias(run_%s, echo %s %s)" % (x, x, bad), "setupRequired(%s)" % y, tail]
        for v in prods[top]:
            prods[top][v] = [l for l in prods[top][v] if "(%s" % x not in l] + ["setupOptional(%s %s)" % (x, bad)]
    current = {}
    for name in names:
        if rng.random() < 0.9:
            current[name] = rng.choice(sorted(prods[name]))
    if spaces is not None:
        root = "stack dir" if spaces else "stack"
    else:
        # one draw, as before: a blank in the stack path one time in four, two blanks in a row some of those times
        # (utils.encodePath / decodePath must take the path through SETUP_<P> unchanged)
        r = rng.random()
        root = "stack  dir" if r < 0.08 else "stack dir" if r < 0.25 else "stack"
    # some products are declared under the fall-back flavor (all versions of such a product)
    generic = sorted(n for n in names if rng.random() < 0.5) if rng.random() < 0.3 else []
    return {"root": root, "products": prods, "current": current, "generic": generic}


def flavor_of(world, name):
    return "generic" if name in world.get("generic", ()) else FLAVOR


def materialise(work, world):
    """create the stack on disk and declare everything through the real API (runs in a child)"""
    import eups
    stack = os.path.join(work, world["root"])
    userdata = os.path.join(work, "user")
    os.makedirs(os.path.join(stack, "ups_db"))
    os.makedirs(os.path.join(userdata, "ups_db"))
    os.environ["EUPS_PATH"] = stack
    os.environ["EUPS_USERDATA"] = userdata
    os.environ["EUPS_FLAVOR"] = FLAVOR
    os.environ["EUPS_SHELL"] = "sh"
    for name, vs in world["products"].items():
        for v, lines in vs.items():
            d = os.path.join(stack, flavor_of(world, name), name, v)
            os.makedirs(os.path.join(d, "ups"))
            with open(os.path.join(d, "ups", name + ".table"), "w") as f:
                f.write("\n".join(lines) + "\n")
    for name, vs in world["products"].items():
        for v in sorted(vs):
            sys.modules["eups.db.Database"]._databases.clear()
            e = eups.Eups(quiet=1, flavor=flavor_of(world, name))
            e.declare(name, v, os.path.join(stack, flavor_of(world, name), name, v),
                      tag=("current" if world["current"].get(name) == v else None))
            # the first declaration of a product is made current automatically: undo when not wanted
    for name in world["products"]:
        sys.modules["eups.db.Database"]._databases.clear()
        e = eups.Eups(quiet=1, flavor=flavor_of(world, name))
        cur = e.findTaggedProduct(name, "current") if hasattr(e, "findTaggedProduct") else None
        want = world["current"].get(name)
        if cur is not None and cur.version != want:
            e.unassignTag("current", name)
            if want:
                e.assignTag("current", name, want)
    return stack, userdata


# ------------------------------------------------------------------ real runs with decision capture

def model_actions(actions):
    """real Action objects -> model action encodings (strings of the driver protocol)"""
    out = []
    for a in actions:
        cmd, args, extra = a.cmd, list(a.args), a.extra
        if cmd == "setupRequired":
            name, just, i = None, False, 0
            while i < len(args):
                x = args[i]
                if x.startswith("-"):
                    if x in ("-j", "--just"):
                        just = True
                    elif x in ("-f", "--flavor", "-r", "-T", "-t", "--tag", "--vro"):
                        i += 1
                elif name is None:
                    name = x
                i += 1
            out.append("S,%s,%s,%s" % ("1" if extra.get("optional") else "0", enc(name or ""), "1" if just else "0"))
        elif cmd == "envPrepend":
            d = args[2] if len(args) > 2 else ":"
            out.append("P,%s,%s,%s,%s" % ("1" if extra.get("append") else "0", enc(args[0]), enc(args[1]), enc(d)))
        elif cmd == "envSet":
            out.append("E,%s,%s" % (enc(args[0]), enc(args[1])))
        elif cmd == "envUnset":
            out.append("U,%s" % enc(args[0]))
        elif cmd == "addAlias":
            out.append("A,%s,%s" % (enc(args[0]), enc(" ".join(args[1:]))))
        elif cmd == "unsetupRequired":
            raise RuntimeError("unsetupRequired is outside the model")
        else:
            out.append("N")
    return out


LINE_FLAGS_MODELLED = ("-j", "--just")


def line_infos(actions, e):
    """what the real Action.processArgs makes of every dependency line (version words, bracketed expression): the
    request information of the composed model (coq/Model/SetupFull.v), one entry per action; a line with an option
    the composed model does not have (-t, --vro, -k, -f, -r, ...) is marked with a leading '!'"""
    out = []
    for a in actions:
        if a.cmd != "setupRequired":
            out.append("-")
            continue
        requestedVRO, name, productDir, vers, versExpr, extra = a.processArgs(e, True)
        li = "%s~%s" % ("-" if vers is None else "=" + enc(vers), "-" if versExpr is None else "=" + enc(versExpr))
        if any(x.startswith("-") and x not in LINE_FLAGS_MODELLED for x in a.args) or productDir:
            li = "!" + li
        out.append(li)
    return out


def install_decision_spy(log, names=None, holder=None):
    """record, for every forward call of Eups.setup in call order, the version of the product it decided on
    (and, in names, the product name it was asked for)"""
    import eups
    P = sys.modules["eups.Product"]
    E = eups.Eups
    stack = []
    orig_setup = E.setup
    orig_get = P.Product.getTable

    def setup(self, productName, versionName=None, fwd=True, *a, **k):
        if not stack and holder is not None:
            holder["eups"] = self
        frame = {"fwd": fwd, "idx": None, "seen": False}
        if fwd:
            frame["idx"] = len(log)
            log.append(None)
            if names is not None:
                names.append(productName)
        stack.append(frame)
        try:
            return orig_setup(self, productName, versionName, fwd, *a, **k)
        finally:
            stack.pop()

    def getTable(self, *a, **k):
        if stack and stack[-1]["fwd"] and not stack[-1]["seen"]:
            stack[-1]["seen"] = True
            log[stack[-1]["idx"]] = self.version
        return orig_get(self, *a, **k)
    E.setup = setup
    P.Product.getTable = getTable


class _NoEups(object):
    aliases, oldAliases = {}, {}


def cli_args(rq):
    args = ["--nolocks", "-q"]
    if rq.get("just"):
        args.append("--just")
    if not rq.get("fwd", True):
        args.append("--unsetup")
    if rq.get("keep"):
        args.append("--keep")
    if rq.get("max_depth") is not None:
        args += ["--max-depth", str(rq["max_depth"])]
    args.append(rq["name"])
    if rq.get("version"):
        args.append(rq["version"])
    return args


def run_cli(rq, holder):
    import contextlib
    import io
    import eups.setupcmd
    holder.pop("eups", None)
    out, err = io.StringIO(), io.StringIO()
    try:
        with contextlib.redirect_stdout(out), contextlib.redirect_stderr(err):
            status = eups.setupcmd.EupsSetup(args=cli_args(rq), toolname="eups_setup").run()
        text = out.getvalue().strip()
        ok = status == 0 and text != "false"
        outcome = "ok" if ok else "fail"
    except SystemExit as ex:
        ok, outcome = False, "fail"
    except Exception as ex:  # noqa
        ok, outcome = False, "raise:" + type(ex).__name__
    return ok, outcome, holder.get("eups") or _NoEups()


def run_scenario(world, requests, env0):
    """child: materialise the world, run the requests in sequence; returns per-request records"""
    common.import_eups()
    import eups
    work = common.scratch_dir("setup.")
    try:
        stack, userdata = materialise(work, world)
        base = {"EUPS_PATH": stack, "EUPS_USERDATA": userdata, "EUPS_FLAVOR": FLAVOR, "EUPS_SHELL": "sh",
                "HOME": "/root"}
        env = dict(base)
        for k, v in env0.items():
            env[k] = v.replace("@STACK@", stack)
        # what the real parser makes of every table
        sys.modules["eups.db.Database"]._databases.clear()
        os.environ.clear()
        os.environ.update(base)
        e = eups.Eups(quiet=1)
        e.selectVRO(None, None, None, None)
        parsed = {}
        for name, vs in world["products"].items():
            for v in vs:
                p = e.findProduct(name, v, flavor=flavor_of(world, name))
                tbl = p.getTable()
                # for the flavor the product is declared under: the one Eups.setup reads the table for (setupFlavor)
                acts = tbl.actions(p.flavor or FLAVOR, setupType=e.setupType) if tbl else []
                parsed["%s %s" % (name, v)] = {"dir": p.dir, "flavor": p.flavor, "actions": model_actions(acts),
                                               "lines": line_infos(acts, e), "tags": [str(t) for t in p.tags]}
        log, names, holder = [], [], {}
        install_decision_spy(log, names, holder)
        records = []
        for rq in requests:
            sys.modules["eups.db.Database"]._databases.clear()
            os.environ.clear()
            os.environ.update(env)
            del log[:]
            del names[:]
            before = dict(env)
            kw = {}
            if rq.get("keep"):
                kw["keep"] = True
            if rq.get("max_depth") is not None:
                kw["max_depth"] = rq["max_depth"]
            if rq.get("cli"):
                # the request as the shell function hands it to eups_setup: setupcmd.EupsSetup translates the options
                # (--just is --max-depth 0, whether setting up or unsetting up), builds the Eups object and calls
                # eups.setup (app.py); the environment it computed is os.environ afterwards, the printed text is what
                # the shell would source (false for a failure)
                ok, outcome, e = run_cli(rq, holder)
            else:
                e = eups.Eups(quiet=1, **kw)
                e.selectVRO(rq.get("tag"), None, rq.get("version"), None)
                try:
                    ok, version, reason = e.setup(rq["name"], rq.get("version"), fwd=rq.get("fwd", True),
                                                  noRecursion=bool(rq.get("just")))
                    outcome = "ok" if ok else "fail"
                except Exception as ex:  # noqa
                    ok, outcome = False, "raise:" + type(ex).__name__
            after = dict(os.environ)
            rec = {"request": rq, "before": before, "after": after if ok else before,
                   "raw_after": after, "aliases": dict(e.aliases), "old_aliases": sorted(e.oldAliases), "ok": bool(ok),
                   "outcome": outcome,
                   "decisions": list(log), "decision_names": list(names)}
            records.append(rec)
            if ok:
                env = after
        return {"stack": stack, "parsed": parsed, "records": records}
    finally:
        shutil.rmtree(work, ignore_errors=True)


# ------------------------------------------------------------------ model side

def world_field(res):
    """the world as the real parser sees it, in the encoding of the driver (build/c01/run)"""
    prods = []
    for key, info in sorted(res["parsed"].items()):
        name, v = key.split(" ")
        prods.append("%s:%s:%s:%s" % (enc(name), enc(v), enc(info["dir"]), "+".join(info["actions"])))
    return "|".join(prods)


def flavors_field(res):
    """name~version~flavor of every product declared under another flavor than the running one"""
    out = []
    for key, info in sorted(res["parsed"].items()):
        name, v = key.split(" ")
        if info.get("flavor", FLAVOR) != FLAVOR:
            out.append("%s~%s~%s" % (enc(name), enc(v), enc(info["flavor"])))
    return "+".join(out)


def model_opts(rq):
    """(max_depth, just) as the model is given them.  A request made through the command line (cli) reaches Eups with
    what setupcmd.EupsSetup.execute makes of its options: --just becomes max_depth = 0 (for setup and for unsetup
    alike) and noRecursion stays off"""
    md, just = rq.get("max_depth"), bool(rq.get("just"))
    if rq.get("cli") and just:
        md, just = 0, False
    return md, just


def model_line(world, res, rec, fuel=60):
    rq = rec["request"]
    md, just = model_opts(rq)
    cfg = "%s,%s,%s,%s,%s" % (enc(FLAVOR), enc(res["stack"]), "-" if md is None or md < 0 else str(md),
                              "1" if rq.get("keep") else "0", flavors_field(res))
    ds = ",".join("!" if d is None else enc(d) for d in rec["decisions"])
    return "\t".join(["req", world_field(res), cfg, common.enc_env(rec["before"]), "", ds, enc(rq["name"]),
                      "1" if rq.get("fwd", True) else "0", "1" if just else "0", str(fuel)])


FLAVORS = [FLAVOR, "generic"]           # utils.Flavor().getFallbackFlavors("Linux64", includeMe=True)


def full_applicable(res):
    """is the world inside the composed model (no dependency line with an option other than -j)?"""
    return not any(li.startswith("!") for info in res["parsed"].values() for li in info.get("lines", []))


def model_line_full(world, res, rec, fuel=60):
    """the same request for the composed model request_full (coq/Model/SetupFull.v): world, per-line request
    information, chain files, environment before - and NO decisions: the model resolves every version itself"""
    rq = rec["request"]
    md, just = model_opts(rq)
    cfg = "%s,%s,%s,%s,%s" % (enc(FLAVOR), enc(res["stack"]), "-" if md is None or md < 0 else str(md),
                              "1" if rq.get("keep") else "0", flavors_field(res))
    lines, tags = [], []
    for key, info in sorted(res["parsed"].items()):
        name, v = key.split(" ")
        lines.append("%s:%s:%s" % (enc(name), enc(v), "+".join(info["lines"])))
        for t in info["tags"]:
            tags.append("%s~%s~%s" % (enc(name), enc(t), enc(v)))
    version = rq.get("version")
    return "\t".join(["full", world_field(res), "|".join(lines), ",".join(tags), cfg, common.enc_env(rec["before"]), "",
                      enc(rq["name"]), "-" if version is None else "=" + enc(version),
                      "1" if rq.get("fwd", True) else "0", "1" if just else "0", str(fuel),
                      ",".join(enc(f) for f in FLAVORS), ""])


def model_result_full(line):
    f = line.split("\t")
    dec_ds = lambda x: [None if d == "!" else common.dec(d) for d in x.split(",")] if x else []
    if f[0] == "ok":
        return {"ok": True, "env": dict(common.dec_env(f[1])), "aliases": dict(common.dec_env(f[2] if len(f) > 2 else "")),
                "decisions": dec_ds(f[3] if len(f) > 3 else "")}
    if f[0] == "fail":
        return {"ok": False, "kind": "fail", "decisions": dec_ds(f[1] if len(f) > 1 else "")}
    return {"ok": False, "kind": "err:" + "\t".join(f[1:])}


def compare_full(ctx, world, res, rec, mres):
    """composed model (resolver included) vs implementation for one request: success, environment, aliases, and
    the versions decided along the way"""
    case = {"world": world, "request": rec["request"], "before": rec["before"], "composed": True}
    if mres.get("kind", "").startswith("err"):
        ctx.disagree(case, mres, {"ok": rec["ok"], "outcome": rec["outcome"]}, where="composed-model-error")
        return
    if rec["ok"] != mres["ok"]:
        ctx.disagree(case, mres, {"ok": rec["ok"], "outcome": rec["outcome"], "decisions": rec["decisions"]},
                     where="composed-success")
        return
    if mres["decisions"] != rec["decisions"]:
        ctx.disagree(case, {"decisions": mres["decisions"]}, {"decisions": rec["decisions"]}, where="composed-decisions")
        return
    if rec["ok"] and (mres["env"] != rec["after"] or mres["aliases"] != rec["aliases"]):
        diff = {k: (mres["env"].get(k), rec["after"].get(k)) for k in set(mres["env"]) | set(rec["after"])
                if mres["env"].get(k) != rec["after"].get(k)}
        ctx.disagree(case, {"env_diff(model,impl)": diff, "aliases": mres["aliases"]}, {"aliases": rec["aliases"]},
                     where="composed-environment")


def model_result(line):
    f = line.split("\t")
    if f[0] == "ok":
        return {"ok": True, "env": dict(common.dec_env(f[1])), "aliases": dict(common.dec_env(f[2] if len(f) > 2 else "")),
                "left": int(f[3]) if len(f) > 3 else 0}
    if f[0] in ("fail", "raise"):
        return {"ok": False, "kind": f[0]}
    return {"ok": False, "kind": "err:" + "\t".join(f[1:])}


def compare(ctx, world, res, rec, mres):
    """model vs implementation for one request"""
    if rec["ok"] != mres["ok"]:
        ctx.disagree({"world": world, "request": rec["request"], "before": rec["before"], "decisions": rec["decisions"]},
                     mres, {"ok": rec["ok"], "outcome": rec["outcome"]}, where="success")
        return
    if rec["ok"]:
        if mres["env"] != rec["after"] or mres["aliases"] != rec["aliases"] or mres.get("left"):
            diff = {k: (mres["env"].get(k), rec["after"].get(k)) for k in set(mres["env"]) | set(rec["after"])
                    if mres["env"].get(k) != rec["after"].get(k)}
            ctx.disagree({"world": world, "request": rec["request"], "before": rec["before"], "decisions": rec["decisions"]},
                         {"env_diff(model,impl)": diff, "aliases": mres["aliases"], "left": mres.get("left")},
                         {"aliases": rec["aliases"]}, where="environment")


# ------------------------------------------------------------------ helpers for the oracles

def setup_records(env):
    """{product name (lower case as declared): version} from SETUP_* variables"""
    out = {}
    for k, v in env.items():
        if k.startswith("SETUP_"):
            w = v.split()
            if len(w) >= 2:
                out[w[0]] = w[1]
    return out


def path_elems(value):
    out = []
    for part in value.replace(";", ":").split(":"):
        if part and part not in out:
            out.append(part)
    return out


def uniq_list(l):
    out = []
    for x in l:
        if x not in out:
            out.append(x)
    return out


def gen_request(rng, world, allow_fail=0.1):
    names = sorted(world["products"])
    name = rng.choice(names)
    rq = {"name": name, "fwd": True}
    r = rng.random()
    if r < 0.35:
        rq["version"] = rng.choice(sorted(world["products"][name]))
    elif r < 0.35 + allow_fail:
        rq["version"] = "9.9"               # unknown version: the request fails
    return rq


# ------------------------------------------------------------------ generic driver for C01 / C02 / C04

def world_graph(res):
    """name -> set of dependency names over ALL declared versions (from the real parser's actions)"""
    g = {}
    for key, info in res["parsed"].items():
        name = key.split(" ")[0]
        g.setdefault(name, set())
        for a in info["actions"]:
            if a.startswith("S,"):
                g[name].add(common.dec(a.split(",")[2]))
    return g


def touched_names(res, name, just=False, max_depth=None):
    g = world_graph(res)
    budget = 0 if just else (None if max_depth is None or max_depth < 0 else max_depth)
    seen = {name: 0}
    todo = [name]
    while todo:
        n = todo.pop()
        d = seen[n]
        if budget is not None and d >= budget:
            continue
        for m in g.get(n, ()):
            if m not in seen or seen[m] > d + 1:
                seen[m] = d + 1
                todo.append(m)
    return set(seen)


def product_dirs(res):
    """(name, version) -> directory"""
    return {tuple(k.split(" ")): v["dir"] for k, v in res["parsed"].items()}


def own_contributions(res, name, version):
    """path elements [(var, elem, delim)] and envSet values {var: value} of one product version"""
    info = res["parsed"]["%s %s" % (name, version)]
    paths, sets, aliases = [], {}, {}
    for a in info["actions"]:
        f = a.split(",")
        if f[0] == "P":
            # a value may hold several elements (the delimiter inside the value): each is a contribution
            d = common.dec(f[4])
            for el in common.dec(f[3]).split(d):
                if el:
                    paths.append((common.dec(f[2]), el, d))
        elif f[0] == "E":
            sets[common.dec(f[1])] = common.dec(f[2])
        elif f[0] == "A":
            aliases[common.dec(f[1])] = common.dec(f[2])
    return paths, sets, aliases


WF2_FIELDS = ["actions", "vars", "rank", "var_apart", "elem_apart", "versions", "set_once", "keys", "words"]


def dependency_order(res):
    """all names the world speaks about (declared names and dependency targets), dependencies first: the
    rank witness handed to the checker (depth-first post-order over the sorted names; for a cyclic graph
    no order exists and the checker's rank field says so)"""
    g = world_graph(res)
    order, seen = [], set()

    def visit(n):
        if n in seen:
            return
        seen.add(n)
        for m in sorted(g.get(n, ())):
            visit(m)
        order.append(n)
    for n in sorted(g):
        visit(n)
    return order


def wf_line(res, op="wff"):
    return "\t".join([op, world_field(res), ",".join(enc(n) for n in dependency_order(res))])


def wf_fraction(ctx, results):
    """how many of the worlds (as parsed by the real parser) satisfy the hypotheses WF2 / WF of the theorems of
    coq/Props/C01.v, C02.v, C04.v: the extracted checker wf2_check (coq/Model/SetupWf.v, sound by
    coq/Proofs/SetupWf.v) is run on every world; counts go to the input distribution"""
    lines = [wf_line(r) for r in results]
    inside = 0
    for out in ctx.model(lines, pid="C01"):
        bits = out.strip()
        if len(bits) != len(WF2_FIELDS) or set(bits) - set("01"):
            raise RuntimeError("bad answer of the WF2 checker: %r" % (out,))
        if "0" not in bits:
            inside += 1
            ctx.bump("world-satisfies-WF2")
        else:
            ctx.bump("world-outside-WF2")
            for name, b in zip(WF2_FIELDS, bits):
                if b == "0":
                    ctx.bump("world-outside-WF2:" + name)
    return inside, len(lines)


def run_scenarios(ctx, scenarios, oracle, nproc=14):
    """scenarios: list of {"world", "requests", "env0"}; oracle(ctx, scenario, result) evaluates the property on
    the real records; every request is also compared with the model"""
    results = common.par_map(run_scenario, [(s["world"], s["requests"], s["env0"]) for s in scenarios], nproc=nproc)
    lines, meta = [], []
    for s, r in zip(scenarios, results):
        if r[0] != "ok":
            raise RuntimeError("scenario child failed: %r" % (str(r)[-1500:],))
        r = r[1]
        for rec in r["records"]:
            lines.append(model_line(s["world"], r, rec))
            meta.append((s, r, rec))
    outs = ctx.model(lines, pid="C01")
    for out, (s, r, rec) in zip(outs, meta):
        compare(ctx, s["world"], r, rec, model_result(out))
        ctx.traces_validated += 1
    # the composed model (setup + resolver, coq/Model/SetupFull.v): same requests, no decisions fed
    fmeta = [(s, r, rec) for (s, r, rec) in meta if full_applicable(r)]
    ctx.bump("composed-model-outside-restrictions", len(meta) - len(fmeta))
    # (its dotted-numeric comparator reads 1.0 2.0 3.0 9.9 only: worlds with other version names go to real_pass alone)
    smeta = [(s, r, rec) for (s, r, rec) in fmeta if not nontrivial_versions(s["world"])]
    ctx.bump("composed-model-outside-dotted-numeric-names", len(fmeta) - len(smeta))
    fouts = ctx.model([model_line_full(s["world"], r, rec) for (s, r, rec) in smeta], pid="C01")
    for out, (s, r, rec) in zip(fouts, smeta):
        compare_full(ctx, s["world"], r, rec, model_result_full(out))
        ctx.bump("composed-model-comparisons")
        if len(rec["decisions"]) > 1:
            ctx.bump("composed-model-comparisons-with-dependencies")
    # the composed model with the comparator and the matcher of C10 (coq/Model/ResolveReal.v): same requests
    real_pass(ctx, fmeta)
    # the text-fed model (C11's parser + expandEupsVariables + command kinds + setup, coq/Model/SetupText.v): same
    # requests and decisions, the world given by the table texts the generator wrote
    text_pass(ctx, meta)
    for s, r in zip(scenarios, results):
        if any(" -f generic " in v for rec in r[1]["records"] for k, v in rec["after"].items() if k.startswith("SETUP_")):
            ctx.bump("scenario-sets-up-a-fallback-flavor-product")
    wf_fraction(ctx, [r[1] for r in results])
    for s, r in zip(scenarios, results):
        oracle(ctx, s, r[1])
    return results


def corpus(pid):
    d = os.path.join(common.ROOT, "corpus", pid)
    out = []
    if os.path.isdir(d):
        for f in sorted(os.listdir(d)):
            if f.endswith(".json"):
                out.append(json.load(open(os.path.join(d, f)))["input"])
    return out


def strip_stack(res, text):
    return text.replace(res["stack"], "@STACK@") if isinstance(text, str) else text


# ------------------------------------------------------------------ the text-fed model (coq/Model/SetupText.v)

SETUP_TYPES = ["exact"]                 # Eups.setupType after selectVRO with the shipped VRO (it starts with type:exact)
IMPLICIT_WORDS = ["implicitProducts"]   # hooks.config.Eups.defaultProduct: name, no version, no tag


def table_text(world, name, version):
    """the text of the table file as materialise() wrote it"""
    return "\n".join(world["products"][name][version]) + "\n"


def tworld_field(world, res):
    """the world as TEXTS: name:version:dir:flavor:table text; directory and flavor as declared (read back through the
    real findProduct), the text is the generator's - the real parser is not consulted"""
    prods = []
    for key, info in sorted(res["parsed"].items()):
        name, v = key.split(" ")
        prods.append("%s:%s:%s:%s:%s" % (enc(name), enc(v), enc(info["dir"]), enc(info.get("flavor", FLAVOR)),
                                         enc(table_text(world, name, v))))
    return "|".join(prods)


def model_line_text(world, res, rec, fuel=60):
    """the request of model_line for the model that starts from the table texts (op text of build/c01/run):
    table_actions of C11, Table.expandEupsVariables, the command kinds and processArgs are all on the model side"""
    rq = rec["request"]
    md, just = model_opts(rq)
    cfg = "%s,%s,%s,%s," % (enc(FLAVOR), enc(res["stack"]), "-" if md is None or md < 0 else str(md),
                            "1" if rq.get("keep") else "0")
    ds = ",".join("!" if d is None else enc(d) for d in rec["decisions"])
    return "\t".join(["text", tworld_field(world, res), cfg, common.enc_env(rec["before"]), "", ds, enc(rq["name"]),
                      "1" if rq.get("fwd", True) else "0", "1" if just else "0", str(fuel),
                      ",".join(enc(t) for t in SETUP_TYPES), ",".join(enc(w) for w in IMPLICIT_WORDS)])


def compare_text(ctx, world, res, rec, mres):
    """text-fed model vs implementation for one request: success, environment, aliases (as compare)"""
    case = {"world": world, "request": rec["request"], "before": rec["before"], "decisions": rec["decisions"],
            "text_model": True}
    if mres.get("kind", "").startswith("err"):
        ctx.disagree(case, mres, {"ok": rec["ok"], "outcome": rec["outcome"]}, where="text-model-error")
        return
    if rec["ok"] != mres["ok"]:
        ctx.disagree(case, mres, {"ok": rec["ok"], "outcome": rec["outcome"]}, where="text-success")
        return
    if rec["ok"]:
        if mres["env"] != rec["after"] or mres["aliases"] != rec["aliases"] or mres.get("left"):
            diff = {k: (mres["env"].get(k), rec["after"].get(k)) for k in set(mres["env"]) | set(rec["after"])
                    if mres["env"].get(k) != rec["after"].get(k)}
            ctx.disagree(case, {"env_diff(model,impl)": diff, "aliases": mres["aliases"], "left": mres.get("left")},
                         {"aliases": rec["aliases"]}, where="text-environment")


def table_pass(ctx, pairs):
    """every table of every world: the actions the model derives from the TEXT (C11's parser, the implicit product
    line, expandEupsVariables, command kinds, processArgs) against the actions the real parser and the real
    expandEupsVariables gave (res["parsed"], in the same encoding)"""
    lines, keys = [], []
    for world, res in pairs:
        cfg = "%s,%s,-,0," % (enc(FLAVOR), enc(res["stack"]))
        for key, info in sorted(res["parsed"].items()):
            name, v = key.split(" ")
            tp = "%s:%s:%s:%s:%s" % (enc(name), enc(v), enc(info["dir"]), enc(info.get("flavor", FLAVOR)),
                                     enc(table_text(world, name, v)))
            lines.append("\t".join(["ttable", tp, cfg, ",".join(enc(t) for t in SETUP_TYPES),
                                    ",".join(enc(w) for w in IMPLICIT_WORDS)]))
            keys.append((world, res, key))
    for out, (world, res, key) in zip(ctx.model(lines, pid="C01"), keys):
        f = out.split("\t")
        if f[0] == "outside":
            ctx.bump("text-table-outside")
            ctx.bump("text-table-outside:" + (f[1] if len(f) > 1 else "?"))
            continue
        macts = f[1].split("+") if len(f) > 1 and f[1] else []
        ctx.bump("text-table-comparisons")
        if macts != res["parsed"][key]["actions"]:
            name, v = key.split(" ")
            ctx.disagree({"product": key, "table": world["products"][name][v], "dir": strip_stack(res, res["parsed"][key]["dir"]),
                          "text_model": True},
                         [strip_stack(res, common.dec(a)) for a in macts],
                         [strip_stack(res, common.dec(a)) for a in res["parsed"][key]["actions"]], where="text-table-actions")


def text_pass(ctx, meta):
    """every request once more through the model, this time from the table texts; a world with a construct outside
    coq/Model/SetupText.v (answer outside) is counted, not compared"""
    seen, pairs = set(), []
    for (s, r, rec) in meta:
        if id(r) not in seen:
            seen.add(id(r))
            pairs.append((s["world"], r))
    table_pass(ctx, pairs)
    outs = ctx.model([model_line_text(s["world"], r, rec) for (s, r, rec) in meta], pid="C01")
    for out, (s, r, rec) in zip(outs, meta):
        f = out.split("\t")
        if f[0] == "outside":
            ctx.bump("text-model-outside")
            ctx.bump("text-model-outside:" + (f[1] if len(f) > 1 else "?"))
            continue
        compare_text(ctx, s["world"], r, rec, model_result(out))
        ctx.bump("text-model-comparisons")
        if len(rec["decisions"]) > 1:
            ctx.bump("text-model-comparisons-with-dependencies")


# ------------------------------------------------------------------ worlds whose TABLE TEXTS vary (for the text-fed model)

SPELLINGS = {
    "envPrepend": ["envPrepend", "pathPrepend", "ENVPREPEND", "PathPrepend"],
    "envAppend": ["envAppend", "pathAppend", "EnvAppend", "PATHAPPEND"],
    "envSet": ["envSet", "setenv", "pathSet", "SETENV"],
    "setupRequired": ["setupRequired", "SetupRequired", "SETUPREQUIRED"],
    "setupOptional": ["setupOptional", "setupoptional", "SetupOptional"],
    "addAlias": ["addAlias", "ADDALIAS", "addalias"],
}


def respell_line(rng, line):
    """the same command in another of the spellings the table grammar allows: synonym and letter case of the command
    name, indentation, blanks before the parenthesis, trailing semicolon and comment, the whole argument string of a
    dependency line in quotes, -j before the product name, the older synonyms of ${PRODUCT_DIR}"""
    import re
    m = re.match(r"(\w+)\((.*)\)$", line)
    if not m:
        return line
    cmd, args = m.group(1), m.group(2)
    if cmd in ("setupRequired", "setupOptional"):
        r = rng.random()
        if args.endswith(" -j") and r < 0.5:
            args = "-j " + args[:-3]
        if rng.random() < 0.3:
            args = '"%s"' % args
    elif rng.random() < 0.25:
        args = args.replace("${PRODUCT_DIR}", rng.choice(["${PROD_DIR}", "${UPS_PROD_DIR}"]))
    return "%s%s%s(%s)%s%s" % (rng.choice(["", "", "  ", "\t", "    "]), rng.choice(SPELLINGS.get(cmd, [cmd])),
                               rng.choice(["", "", " "]), args, rng.choice(["", "", ";", " ;"]),
                               rng.choice(["", "", "", "   # a comment"]))


def textual_lines(rng, name, lines):
    """respelled lines, a few commands that use the other variables Table.expandEupsVariables replaces, and if / else
    if / else blocks around runs of lines (conditions on the setup type and on the flavor) that leave the selected
    commands the same for the flavors Linux64 and generic - except the last form, which tells the two apart"""
    up = name.upper()
    out = [respell_line(rng, l) for l in lines]
    extra = []
    if rng.random() < 0.4:
        extra.append('envSet(%s_INFO, "${PRODUCT_NAME} ${PRODUCT_VERSION} ${PRODUCT_FLAVOR}")' % up)
    if rng.random() < 0.3:
        extra.append("envSet(%s_UPS, %s)" % (up, rng.choice(["${UPS_DIR}", "${UPS_UPS_DIR}/x"])))
    if rng.random() < 0.3:
        extra.append("setenv(%s_DB, %s/ups_db/${PRODUCT_VERSION})" % (up, rng.choice(["${PRODUCTS}", "${UPS_DB}"])))
    if rng.random() < 0.1:
        extra.append("envAppend(%s_XTRA, ${PRODUCT_DIR_EXTRA}/x)" % up)
    if rng.random() < 0.1:
        extra.append(rng.choice(["prodDir()", "setupEnv()"]))
    for l in extra:
        out.insert(rng.randrange(len(out) + 1), l)
    junk = lambda: "envSet(%s_JUNK, never%d)" % (up, rng.randrange(100))
    for _ in range(rng.choice([0, 1, 1, 2])):
        i = rng.randrange(len(out) + 1)
        j = rng.randrange(i, min(len(out), i + 3) + 1)
        body = out[i:j]
        depth = 0                       # blocks do not nest in the table grammar
        for l in out[:i]:
            t = l.lstrip()
            if t.startswith("if"):
                depth = 1
            elif t.startswith("}") and "else" not in t.lower():
                depth = 0
        if depth or any(l.lstrip().startswith(("if", "}")) for l in body):
            continue
        form = rng.randrange(7)
        if form == 0:
            blk = ["if (type == exact) {"] + body + ["}"]
        elif form == 1:
            blk = ["if (TYPE != exact) {", junk(), "} else {"] + body + ["}   # back"]
        elif form == 2:
            blk = ["if (flavor == Linux64 || flavor == generic) {"] + body + ["}"]
        elif form == 3:
            blk = ["if (flavor == DarwinX86) {", junk(), "} else if (FLAVOR == Linux64 || FLAVOR == generic) {"] + body + \
                  ["} else {", junk(), "}"]
        elif form == 4:
            blk = ["if ((flavor != Linux64 && flavor != generic) || type != exact) {", junk(), "} else {"] + body + ["}"]
        elif form == 5:
            # a branch without any command (the selected one when body is empty)
            blk = ["if (type == exact) {"] + body + ["} else {", junk(), "}"]
        else:
            # tells Linux64 and generic apart: a product declared under generic is read with flavor generic
            blk = ["if (flavor == Linux64) {"] + body + ["} else {"] + \
                  [l.replace("/bin)", "/gbin)").replace("/home)", "/ghome)") for l in body] + ["}"]
        out[i:j] = blk
    return out


def gen_world_text(rng):
    w = gen_world(rng)
    for name, vs in w["products"].items():
        for v in list(vs):
            vs[v] = textual_lines(rng, name, vs[v])
    return w


def gen_scenario_text(rng, inverse=False):
    """scenarios aimed at the text-fed model: worlds of gen_world whose table texts were varied by textual_lines;
    inverse: setup X then unsetup X (the shape C02 evaluates); otherwise some setups, possibly an unsetup among them,
    and a final setup"""
    w = gen_world_text(rng)
    env0 = {"PATH": "/usr/bin:/bin"}
    if rng.random() < 0.3:
        env0["XLIST"] = "/pre/x;/pre/y"
    if inverse:
        first = gen_request(rng, w, allow_fail=0.05)
        return {"world": w, "requests": [first, {"name": first["name"], "fwd": False}], "env0": env0}
    reqs = []
    for _ in range(rng.choice([1, 2, 3])):
        rq = gen_request(rng, w, allow_fail=0.0)
        reqs.append(rq)
        if rng.random() < 0.3:
            reqs.append({"name": rq["name"], "fwd": False})
    return {"world": w, "requests": reqs + [gen_request(rng, w, allow_fail=0.05)], "env0": env0}


def directed_text_scenarios():
    """tables with the constructs the random families leave out, declared next to a plain product; every table is
    compared action by action (table_pass), the executable ones are also set up and unset up:
    odd 1.0  the spellings of PRODUCT_DIR: only the FIRST spelling re.search meets is replaced (all its occurrences),
             the others stay, so the line raises when executed (the request fails); PRODUCT_DIR_EXTRA
    odd 2.0  PRODUCT_NAME / VERSION / FLAVOR, the spelled-out ODD_DIR, UPS_DIR, PRODUCTS in one quoted value; a
             replacement inside the FIRST argument (the variable name, the alias name)
    odd 3.0  option words of a dependency line: -j before the name, -T with its value between name and version, -t and
             -k behind the name, the whole argument string quoted
    second scenario: a dependency line with -r (a directory), which the setup model does not have: the world is
    counted as outside the text-fed model"""
    plain = ["envPrepend(PATH, ${PRODUCT_DIR}/bin)"]
    odd = {"1.0": ["envSet(ODD_X, ${PRODUCT_DIR_EXTRA}/y:${PRODUCT_DIR}/z)",
                   "envPrepend(ODD_MIX, $?{PRODUCT_DIR}/a:${PRODUCT_DIR}/b)",
                   "envPrepend(ODD_MIX2, ${PRODUCT_DIR}/a:$?{PRODUCT_DIR}/b:${PRODUCT_DIR}/c)"],
           "2.0": ['envSet(ODD_N, "${PRODUCT_NAME}-${PRODUCT_VERSION} ${PRODUCT_FLAVOR}, ${ODD_DIR} ${UPS_DIR} ${PRODUCTS} ${UPS_DB}")',
                   "envSet(${PRODUCT_NAME}_VAR, x)", "addAlias(odd_${PRODUCT_VERSION}, echo ${PRODUCT_DIR} ${UPS_PROD_VERSION})",
                   "pathAppend(ODD_PATH, ${PROD_DIR}/lib)"],
           "3.0": ["setupRequired(-j p0)", "setupOptional(p0 -T build 1.0)", "SetupRequired(p0 -t current -k)",
                   'setupRequired("p0 1.0")', "envPrepend(PATH, ${PRODUCT_DIR}/bin);"]}
    w1 = {"root": "stack", "products": {"p0": {"1.0": list(plain)}, "odd": odd}, "current": {"p0": "1.0"}, "generic": []}
    s1 = {"world": w1, "env0": {"PATH": "/usr/bin:/bin"},
          "requests": [{"name": "odd", "version": "1.0", "fwd": True}, {"name": "odd", "version": "2.0", "fwd": True},
                       {"name": "odd", "fwd": False}, {"name": "odd", "version": "3.0", "fwd": True},
                       {"name": "p0", "fwd": True}]}
    w2 = {"root": "stack", "products": {"p0": {"1.0": list(plain)},
                                        "loc": {"1.0": ["setupOptional(-r ${PRODUCT_DIR}/sub p0)"]}},
          "current": {"p0": "1.0"}, "generic": []}
    s2 = {"world": w2, "env0": {"PATH": "/usr/bin:/bin"}, "requests": [{"name": "p0", "fwd": True}]}
    # the same odd tables for a product declared under the fall-back flavor
    import copy
    w3 = copy.deepcopy(w1)
    w3["generic"] = ["odd"]
    w3["products"]["odd"]["2.0"].append("if (flavor == generic) {")
    w3["products"]["odd"]["2.0"].append("   envPrepend(ODD_PATH, ${PRODUCT_DIR}/glib)")
    w3["products"]["odd"]["2.0"].append("}")
    s3 = {"world": w3, "env0": dict(s1["env0"]), "requests": copy.deepcopy(s1["requests"])}
    return [s1, s2, s3]


# ------------------------------------------------------------------ version names of C10's grammar (coq/Model/ResolveReal.v)
# The composed model once more, with the comparator and the matcher of C10 in the place of the dotted-numeric ones
# (op fullv of build/c01/run = request_full_real): every request of every scenario goes through it, and the worlds of
# gen_world_versions give it version names on which the two comparators differ (1.0 1.0.1 1.0+1 1.0-rc1 1.10 1.9 v1_2,
# spellings of one key such as 1.0 / 1_0 / 1.00) and relational expressions over them.

VN_NEIGHBOURS = ["1.0", "1.0.1", "1.0+1", "1.0-rc1", "1.0-rc2", "1.10", "1.9", "1.9.1", "2", "10", "1.1", "1.0+a1",
                 "0.9", "1.0.0", "1.10-rc1", "1.10+1", "2.0", "1_1", "1.01"]


def respell_version(rng, v):
    """another spelling of the same key: the other separator, or a zero in front of a numeric component"""
    import re
    seps = [k for k, ch in enumerate(v) if ch in "._"]
    if seps and rng.random() < 0.5:
        i = rng.choice(seps)
        return v[:i] + ("_" if v[i] == "." else ".") + v[i + 1:]
    k = rng.choice(list(re.finditer(r"\d+", v)))
    return v[:k.start()] + "0" + v[k.start():]


def version_names(rng, k):
    """k distinct version names for one product: neighbours in the order of C10 (one letter prefix per product), a
    sample of harness/c10.py's bounded grammar, sometimes two spellings of one key"""
    import c10
    pre = "v" if rng.random() < 0.12 else ""
    pool = [pre + v for v in rng.sample(VN_NEIGHBOURS, k)]
    if rng.random() < 0.3:
        g = [v for v in rng.sample(c10.big_grammar(), 6) if (v[:1] == "v") == bool(pre) and v not in pool]
        if g:
            pool[rng.randrange(k)] = g[0]
    if k >= 2 and rng.random() < 0.25:
        alt = respell_version(rng, pool[0])
        if alt not in pool:
            pool[-1] = alt
    return pool


def gen_world_versions(rng):
    """a world of gen_world (same tables, same directed sub-families) whose version names are drawn from C10's grammar
    and whose dependency lines name them: explicit versions, relational expressions (dep >= 1.0.1, dep < 1.10),
    bracketed expressions ([>= 1.0+1], version [expr]), alternatives (>= 1.9 || == 1.0-rc1)"""
    import re
    w = gen_world(rng)
    ren = {}
    for name, vs in w["products"].items():
        ren[name] = dict(zip(sorted(vs), version_names(rng, len(vs))))

    def expr(names):
        def term():
            op = rng.choice([">=", ">=", ">", "<=", "<", "=="])
            return "%s %s" % (op, rng.choice(names) if rng.random() < 0.8 else rng.choice(VN_NEIGHBOURS))
        return " || ".join(term() for _ in range(rng.choice([1, 1, 1, 2])))

    def rewrite(line):
        m = re.match(r"(setupRequired|setupOptional)\((\w+)(.*)\)$", line)
        if not m or m.group(2) not in ren:
            return line
        kind, dep, rest = m.group(1), m.group(2), m.group(3).strip()
        names = sorted(ren[dep].values())
        if rest in ren[dep] and rng.random() < 0.6:
            return "%s(%s %s)" % (kind, dep, ren[dep][rest])          # the explicit version, renamed
        if rest == "9.9" or rest.startswith("-t") or (rest in ("", "-j") and rng.random() < 0.45):
            return line
        r = rng.random()
        if r < 0.25:
            arg = "%s %s" % (dep, rng.choice(names))
        elif r < 0.6:
            arg = "%s %s" % (dep, expr(names))
        elif r < 0.75:
            arg = "%s [%s]" % (dep, expr(names))
        elif r < 0.92:
            arg = "%s %s [%s]" % (dep, rng.choice(names + [rng.choice(VN_NEIGHBOURS)]), expr(names))
        else:
            arg = "%s -j %s" % (dep, rng.choice(names))
        return "%s(%s)" % (kind, arg)
    prods = {}
    for name, vs in w["products"].items():
        prods[name] = {ren[name][v]: [rewrite(l) for l in lines] for v, lines in vs.items()}
    w["products"] = prods
    w["current"] = {n: ren[n][v] for n, v in w["current"].items()}
    w["family"] = "versions"
    return w


def gen_scenario_versions(rng, shape="plain"):
    """shape plain: 0-2 prior setups and a final one (C01); inverse: setup X then unsetup X (C02); options: the final
    request carries --keep / --just / --max-depth or is an unsetup (C04)"""
    w = gen_world_versions(rng)
    env0 = {"PATH": "/usr/bin:/bin"}
    if rng.random() < 0.3:
        env0["XLIST"] = "/pre/x;/pre/y"
    if shape == "inverse":
        first = gen_request(rng, w, allow_fail=0.05)
        return {"world": w, "requests": [first, {"name": first["name"], "fwd": False}], "env0": env0}
    reqs = [gen_request(rng, w, allow_fail=0.0) for _ in range(rng.choice([0, 1, 2]))]
    last = gen_request(rng, w, allow_fail=0.05)
    if shape == "options":
        r = rng.random()
        if r < 0.45:
            last["keep"] = True
        elif r < 0.6:
            last["just"] = True
        elif r < 0.85:
            last["max_depth"] = rng.choice([0, 1, 1, 2])
        else:
            last = {"name": last["name"], "fwd": False}
        if not reqs:
            reqs = [gen_request(rng, w, allow_fail=0.0)]
    return {"world": w, "requests": reqs + [last], "env0": env0}


def nontrivial_versions(world):
    return any(v not in VERSIONS for vs in world["products"].values() for v in vs)


def compare_full_real(ctx, world, res, rec, mres):
    """composed model with C10's comparator vs implementation for one request (as compare_full)"""
    case = {"world": world, "request": rec["request"], "before": rec["before"], "real_comparator": True}
    if mres.get("kind", "").startswith("err"):
        ctx.disagree(case, mres, {"ok": rec["ok"], "outcome": rec["outcome"]}, where="real-comparator-model-error")
        return
    if rec["ok"] != mres["ok"]:
        ctx.disagree(case, mres, {"ok": rec["ok"], "outcome": rec["outcome"], "decisions": rec["decisions"]},
                     where="real-comparator-success")
        return
    if mres["decisions"] != rec["decisions"]:
        ctx.disagree(case, {"decisions": mres["decisions"]}, {"decisions": rec["decisions"]},
                     where="real-comparator-decisions")
        return
    if rec["ok"] and (mres["env"] != rec["after"] or mres["aliases"] != rec["aliases"]):
        diff = {k: (mres["env"].get(k), rec["after"].get(k)) for k in set(mres["env"]) | set(rec["after"])
                if mres["env"].get(k) != rec["after"].get(k)}
        ctx.disagree(case, {"env_diff(model,impl)": diff, "aliases": mres["aliases"]}, {"aliases": rec["aliases"]},
                     where="real-comparator-environment")


def real_pass(ctx, fmeta):
    """every request the composed model can express, through request_full_real (C10's comparator and matcher; the
    declarations in the listing order of Database.findProducts: version names sorted as strings, which is the order
    of world_field).  A world with a version name C10 does not accept, or an expression that does not evaluate, is
    counted (outside), not compared."""
    lines = ["fullv" + model_line_full(s["world"], r, rec)[len("full"):] for (s, r, rec) in fmeta]
    for out, (s, r, rec) in zip(ctx.model(lines, pid="C01"), fmeta):
        f = out.split("\t")
        if f[0] == "outside":
            ctx.bump("real-comparator-outside-domain")
            continue
        compare_full_real(ctx, s["world"], r, rec, model_result_full(out))
        ctx.bump("real-comparator-comparisons")
        if nontrivial_versions(s["world"]):
            ctx.bump("real-comparator-comparisons:version-names-of-C10's-grammar")
            if len(rec["decisions"]) > 1:
                ctx.bump("real-comparator-comparisons:version-names-of-C10's-grammar-with-dependencies")
            ctx.bump("real-comparator-comparisons:" + ("distinct-keys (fw_real_ok)" if f[-3] == "1" else
                                                       "names-with-equal-keys-or-unconventional"))
            ctx.bump("real-comparator-comparisons:" + ("conventional-names-sorted-listing (fw_conv, db_sorted)"
                                                       if f[-2:] == ["1", "1"] else "outside-fw_conv-or-db_sorted"))


def directed_version_scenarios():
    """worlds on which the comparator of C10 and the dotted-numeric one part ways, requests whose decisions depend on it:
    dep 1.9 1.10-rc1 1.10 1.10+1: numeric components (1.10 above 1.9), pre- and post-release parts around 1.10;
    tie 0.9 1.0 1_0: two spellings of one key - the later listed one (1_0: the listing is sorted as strings) is the
    highest for >= 0.9, == 1.0 and <= 1.0 alike; an explicit 1.0 is still 1.0"""
    plain = ["envPrepend(PATH, ${PRODUCT_DIR}/bin)"]
    home = lambda n: ["envSet(%s_HOME, ${PRODUCT_DIR}/home)" % n.upper()]
    dep = {v: plain + home("dep") for v in ("1.9", "1.10-rc1", "1.10", "1.10+1")}
    tie = {v: plain + home("tie") for v in ("0.9", "1.0", "1_0")}
    tops = {
        "1.0.1": plain + ["setupRequired(dep < 1.10+1)", "setupRequired(tie >= 0.9)"],
        "1.0+1": plain + ["setupRequired(dep >= 1.9.1 || == 1.9)", "setupOptional(tie == 1.0)"],
        "1.0-rc1": plain + ["setupRequired(dep 7 [< 1.10])", "setupRequired(tie 1.0)"],
        "1.0": plain + ["setupRequired(dep [> 1.10])", "setupRequired(tie <= 1.0)"],
        "v2_0": plain + ["setupRequired(dep > 1.10+1)"],
    }
    w = {"root": "stack", "products": {"dep": dep, "tie": tie, "top": tops},
         "current": {"dep": "1.9", "tie": "0.9", "top": "1.0"}, "generic": [], "family": "versions"}
    out = []
    for v in sorted(tops):
        out.append({"world": w, "env0": {"PATH": "/usr/bin:/bin"},
                    "requests": [{"name": "top", "version": v, "fwd": True}, {"name": "top", "fwd": False}]})
    out.append({"world": w, "env0": {"PATH": "/usr/bin:/bin"},
                "requests": [{"name": "tie", "version": "1.0", "fwd": True}, {"name": "top", "version": "1.0.1", "fwd": True, "keep": True},
                             {"name": "top", "version": "1.0", "fwd": True}]})
    return out
