"""Stack materialisation helpers shared by the graph-shaped checks (C13, C14, C01 ...).

A *stack spec* is a JSON-able dict

    {"products": [{"name": "p1", "version": "1", "current": true,
                   "deps": [{"name": "p2", "version": "1" | null, "optional": false}, ...]}, ...]}

Each product becomes a directory  <root>/<name>/<version>/ups/<name>.table  holding one
setupRequired(...) / setupOptional(...) line per dependency (in list order; version null means a bare
name, i.e. "whatever is tagged current"), declared through the real API (Eups.declare) into
<root>/ups_db.  The tag current is moved/removed afterwards so that exactly the products with
"current": true carry it (eups tags the first declared version of a product current by itself).

Everything that imports eups must run in a forked child (common.in_child): use  with_stack(spec, fn)
or call  enter_stack(spec)  yourself inside a child.

Independent reference semantics (pure python, no eups):
    resolve(spec)            {(name, version): [(target, version-or-None, resolved?, optional), ...]}
    closure(spec, root)      set of listing entries reachable from root (stubs included)
"""
import os
import shutil

import common

FLAVOR = "Linux64"


# ------------------------------------------------------------------------ spec helpers

def pkey(p):
    return (p["name"], p["version"])


def declared(spec):
    return set(pkey(p) for p in spec["products"])


def current_of(spec):
    """name -> version tagged current (last one wins, as a tag is on one version only)"""
    cur = {}
    for p in spec["products"]:
        if p.get("current"):
            cur[p["name"]] = p["version"]
    return cur


def normalise(spec):
    """at most one current per name (the last mentioned keeps it); returns the spec"""
    cur = current_of(spec)
    for p in spec["products"]:
        p["current"] = bool(p.get("current")) and cur.get(p["name"]) == p["version"]
    return spec


def resolve_dep(spec, dep, decl=None, cur=None):
    """Which product a table line  setupRequired(name [version])  denotes under the default VRO when the
    only tag in use is current:  explicit version -> that version if declared; bare name -> the current
    version.  Returns (name, version, resolved?) - unresolved dependencies keep the version text of the
    line (None for a bare name), which is what Table.dependencies lists as a stub."""
    decl = declared(spec) if decl is None else decl
    cur = current_of(spec) if cur is None else cur
    n, v = dep["name"], dep.get("version")
    if v is None:
        if n in cur:
            return (n, cur[n], True)
        return (n, None, False)
    if (n, v) in decl:
        return (n, v, True)
    return (n, v, False)


def resolve(spec):
    decl, cur = declared(spec), current_of(spec)
    out = {}
    for p in spec["products"]:
        out[pkey(p)] = [resolve_dep(spec, d, decl, cur) + (bool(d.get("optional")),) for d in p["deps"]]
    return out


def table_text(p):
    lines = []
    for d in p["deps"]:
        cmd = "setupOptional" if d.get("optional") else "setupRequired"
        arg = d["name"] if d.get("version") is None else "%s %s" % (d["name"], d["version"])
        lines.append("%s(%s)" % (cmd, arg))
    lines.append("envSet(%s_MARK, %s)" % (p["name"].upper(), p["version"]))
    return "\n".join(lines) + "\n"


# ------------------------------------------------------------------------ materialisation

def stack_environ(root, userdata, flavor=FLAVOR):
    return common.scrubbed_environ({"EUPS_PATH": root, "EUPS_USERDATA": userdata, "EUPS_FLAVOR": flavor})


def reset_singletons():
    import sys
    m = sys.modules.get("eups.db.Database")
    if m is not None and hasattr(m, "_databases"):
        m._databases.clear()


def new_eups(**kw):
    """An Eups built the way the command line builds it: constructor, then selectVRO."""
    eups = common.import_eups()
    kw.setdefault("quiet", 1)
    e = eups.Eups(**kw)
    e.selectVRO(None, None, None, None)
    return e


def write_product_dirs(spec, root):
    """only the directories and table files; returns {(name, version): product dir}"""
    dirs = {}
    for p in spec["products"]:
        d = os.path.join(root, p["name"], p["version"])
        os.makedirs(os.path.join(d, "ups"), exist_ok=True)
        with open(os.path.join(d, "ups", p["name"] + ".table"), "w") as f:
            f.write(table_text(p))
        dirs[pkey(p)] = d
    return dirs


def materialise(spec, root):
    """Create <root>/ups_db and the product directories, declare every product through the real API and
    arrange the current tags.  Must run with the environment of stack_environ() (see enter_stack)."""
    os.makedirs(os.path.join(root, "ups_db"), exist_ok=True)
    dirs = write_product_dirs(spec, root)
    e = new_eups()
    for p in spec["products"]:
        e.declare(p["name"], p["version"], dirs[pkey(p)], eupsPathDir=root,
                  tablefile=os.path.join(dirs[pkey(p)], "ups", p["name"] + ".table"),
                  tag="current" if p.get("current") else None)
    # eups gives the first declared version of a product the tag current unasked; take it away again
    cur = current_of(spec)
    for p in spec["products"]:
        if cur.get(p["name"]) != p["version"]:
            prod = e.findProduct(p["name"], p["version"])
            if prod is not None and prod.isTagged("current"):
                e.unassignTag("current", p["name"], p["version"], eupsPathDir=root)
    return dirs


def enter_stack(spec, base=None):
    """(inside a child) make a scratch stack for spec, point the environment at it; returns (base, root)."""
    base = base or common.scratch_dir()
    root = os.path.join(base, "stack")
    userdata = os.path.join(base, "userdata")
    os.makedirs(os.path.join(userdata, "ups_db"), exist_ok=True)
    os.makedirs(root, exist_ok=True)
    os.environ.clear()
    os.environ.update(stack_environ(root, userdata))
    reset_singletons()
    materialise(spec, root)
    reset_singletons()
    return base, root


def with_stack(spec, fn, *args):
    """(inside a child) fn(eups_instance, spec, root, *args) on a freshly materialised stack; the scratch
    directory is removed afterwards."""
    base = common.scratch_dir()
    try:
        _, root = enter_stack(spec, base)
        return fn(new_eups(), spec, root, *args)
    finally:
        shutil.rmtree(base, ignore_errors=True)


# ------------------------------------------------------------------------ random graphs

def gen_spec(rng, nprod=None, shape=None):
    """A random product graph of 4-9 product names.  Shapes: chain, diamond, tree (shared sub-trees),
    dag, twover (some product has two versions and somebody reaches both), cycle, stubby (dependencies
    that do not resolve: undeclared product, undeclared version, bare name without a current version),
    prefix (gen_prefix_spec: version names that are prefixes of one another).  Three graphs in ten of the other
    shapes are respelled with such version names too (rename_versions).
    Returns the spec with spec["shape"] set."""
    shape = shape or rng.choice(["chain", "diamond", "tree", "dag", "dag", "twover", "twover", "cycle",
                                 "cycle", "stubby", "mixed", "mixed", "prefix", "prefix"])
    if shape == "prefix":
        return gen_prefix_spec(rng)
    n = nprod or rng.randint(4, 9)
    names = ["p%d" % i for i in range(1, n + 1)]
    two = set()
    if shape in ("twover", "mixed", "stubby") or rng.random() < 0.15:
        two = set(rng.sample(names[1:], rng.choice([1, 1, 2]) if n > 4 else 1))
    versions = {nm: (["1", "2"] if nm in two else ["1"]) for nm in names}
    if rng.random() < 0.2:
        nm = rng.choice(names)
        versions[nm] = versions[nm] + ["3"]
    prods = []
    for nm in names:
        for v in versions[nm]:
            prods.append({"name": nm, "version": v, "current": False, "deps": []})
    # which version is current: usually one per name; sometimes none (bare requests then fail)
    for nm in names:
        if rng.random() < (0.25 if shape in ("stubby", "mixed") else 0.05):
            continue
        v = rng.choice(versions[nm])
        for p in prods:
            if p["name"] == nm and p["version"] == v:
                p["current"] = True
    idx = {nm: i for i, nm in enumerate(names)}

    def dep(target, opt=None):
        vs = versions[target]
        r = rng.random()
        if r < 0.45:
            v = rng.choice(vs)
        elif r < 0.9:
            v = None
        elif shape in ("stubby", "mixed"):
            v = "9"                                     # undeclared version
        else:
            v = rng.choice(vs)
        if opt is None:
            opt = rng.random() < 0.25
        return {"name": target, "version": v, "optional": opt}

    def add(p, target, opt=None):
        if len(p["deps"]) < 4:
            p["deps"].append(dep(target, opt))

    for p in prods:
        i = idx[p["name"]]
        later = names[i + 1:]
        if shape == "chain":
            if later:
                add(p, later[0])
            if later[1:] and rng.random() < 0.2:
                add(p, rng.choice(later[1:]))
        elif shape == "diamond":
            # p1 -> p2, p3 ... -> last; middle products all meet in the last one
            if i == 0:
                for t in later[:-1]:
                    add(p, t)
            elif later:
                add(p, names[-1])
                if rng.random() < 0.3:
                    add(p, rng.choice(later))
        elif shape == "tree":
            for t in later:
                if rng.random() < 1.5 / max(1, len(later)) + 0.1:
                    add(p, t)
        else:
            k = rng.choice([0, 1, 1, 2, 2, 3])
            for t in rng.sample(later, min(k, len(later))):
                add(p, t)
    if shape in ("cycle", "mixed") or rng.random() < 0.08:
        for _ in range(rng.choice([1, 1, 2])):
            a, b = rng.sample(range(n), 2)
            lo, hi = min(a, b), max(a, b)
            cands = [p for p in prods if p["name"] == names[hi]]
            add(rng.choice(cands), names[lo])           # a back edge
        if rng.random() < 0.15:
            p = rng.choice(prods)
            add(p, p["name"])                           # self dependency
    if shape in ("twover", "mixed"):
        # make somebody reach two versions of one product, directly or through different children
        for nm in sorted(two):
            i = idx[nm]
            earlier = [p for p in prods if idx[p["name"]] < i]
            if len(earlier) >= 1:
                a = rng.choice(earlier)
                b = rng.choice(earlier)
                a["deps"].append({"name": nm, "version": "1", "optional": rng.random() < 0.2})
                b["deps"].append({"name": nm, "version": "2", "optional": rng.random() < 0.2})
    if shape in ("stubby", "mixed"):
        for _ in range(rng.choice([1, 2])):
            p = rng.choice(prods)
            r = rng.random()
            if r < 0.4:
                p["deps"].append({"name": "ghost", "version": rng.choice([None, "1"]), "optional": rng.random() < 0.7})
            else:
                t = rng.choice(names)
                p["deps"].append({"name": t, "version": rng.choice([None, "9"]), "optional": rng.random() < 0.5})
    for p in prods:
        # no two lines of one table naming the same (name, version): keeps cases readable
        seen, out = set(), []
        for d in p["deps"]:
            k = (d["name"], d["version"])
            if k not in seen:
                seen.add(k)
                out.append(d)
        p["deps"] = out
        if rng.random() < 0.3:
            rng.shuffle(p["deps"])
    rng.shuffle(prods)                                  # declaration order is not graph order
    spec = {"products": prods, "shape": shape}
    if rng.random() < 0.3:
        rename_versions(spec, rng.choice(PREFIX_FAMILIES))
    return normalise(spec)


# version spellings where one declared version is a proper prefix of another (1.0 / 1.0.1, 1 / 10, ...):
# string keys and regular expressions over name:version must not confuse them
PREFIX_FAMILIES = [
    ("1.0", "1.0.1", "1.0.1.2", "1.0.19"),
    ("1", "10", "101", "19"),
    ("1.0", "1.0-rc1", "1.0+2", "1.0-rc19"),
    ("2.1", "2.10", "2.1+hotfix", "2.19"),
]


def rename_versions(spec, family):
    """respell the generator's versions 1, 2, 3 and the undeclared 9 with a prefix family (in place)"""
    vmap = {"1": family[0], "2": family[1], "3": family[2], "9": family[3]}
    for p in spec["products"]:
        p["version"] = vmap.get(p["version"], p["version"])
        for d in p["deps"]:
            if d.get("version") is not None:
                d["version"] = vmap.get(d["version"], d["version"])
    spec["versions"] = list(family)
    return spec


def gen_prefix_spec(rng):
    """Directed family: one library x declared in two or three versions whose names are prefixes of one another,
    each version with its own users (directly and through an intermediate product), plus a user of two versions
    and sometimes an undeclared version with the same prefix."""
    fam = rng.choice(PREFIX_FAMILIES)
    nver = rng.choice([2, 2, 3])
    vers = list(fam[:nver])
    prods = []
    leaf = {"name": "base", "version": "1", "current": True, "deps": []}
    prods.append(leaf)
    cur = rng.choice(vers + [None])
    for v in vers:
        deps = [{"name": "base", "version": rng.choice([None, "1"]), "optional": False}] if rng.random() < 0.6 else []
        prods.append({"name": "x", "version": v, "current": v == cur, "deps": deps})
    nusers = rng.randint(2, 5)
    users = []
    for i in range(nusers):
        v = vers[i % len(vers)] if i < len(vers) else rng.choice(vers + [None, fam[3]])
        u = {"name": "u%d" % (i + 1), "version": rng.choice(["1", fam[0], fam[1]]), "current": True,
             "deps": [{"name": "x", "version": v, "optional": rng.random() < 0.25}]}
        if users and rng.random() < 0.5:
            t = rng.choice(users)
            u["deps"].append({"name": t["name"], "version": rng.choice([None, t["version"]]), "optional": rng.random() < 0.2})
        if rng.random() < 0.3:
            u["deps"].append({"name": "x", "version": rng.choice([w for w in vers + [fam[3]] if w != v]),
                              "optional": rng.random() < 0.5})
        if rng.random() < 0.3:
            rng.shuffle(u["deps"])
        users.append(u)
    # sometimes a user itself exists in two prefix-related versions
    if rng.random() < 0.4:
        t = rng.choice(users)
        other = fam[1] if t["version"] != fam[1] else fam[0]
        users.append({"name": t["name"], "version": other, "current": False,
                      "deps": [{"name": "x", "version": rng.choice(vers), "optional": False}]})
    prods += users
    rng.shuffle(prods)
    return normalise({"products": prods, "shape": "prefix", "versions": list(fam)})


# ------------------------------------------------------------------------ running many stacks in parallel

def run_parallel(fn, items, nproc=None, timeout=None):
    """fn(chunk_of_items) -> list of results (one per item), evaluated in up to nproc forked children
    (each child may wreck os.environ and the eups singletons).  Returns the results in item order; a
    child that died yields {"child_error": ...} for each of its items."""
    import json
    import traceback
    nproc = max(1, min(nproc or min(16, os.cpu_count() or 4), len(items) or 1))
    chunks = [items[i::nproc] for i in range(nproc)]
    procs = []
    for ch in chunks:
        r, w = os.pipe()
        pid = os.fork()
        if pid == 0:
            code = 0
            try:
                os.close(r)
                for (_, orr) in procs:
                    try:
                        os.close(orr)
                    except OSError:
                        pass
                try:
                    res = ["ok", fn(ch)]
                except BaseException as e:  # noqa
                    res = ["exc", type(e).__name__, str(e)[:1000], traceback.format_exc()[-3000:]]
                with os.fdopen(w, "wb") as f:
                    f.write(json.dumps(res).encode())
            except BaseException:  # noqa
                code = 3
            finally:
                os._exit(code)
        os.close(w)
        procs.append((pid, r))
    outs = []
    for (pid, r), ch in zip(procs, chunks):
        with os.fdopen(r, "rb") as f:
            data = f.read()
        os.waitpid(pid, 0)
        try:
            res = json.loads(data.decode()) if data else ["died"]
        except ValueError:
            res = ["died"]
        if res[0] == "ok" and len(res[1]) == len(ch):
            outs.append(res[1])
        else:
            outs.append([{"child_error": res[:3] + [str(res[3])[-1500:]] if len(res) > 3 else res}] * len(ch))
    merged = [None] * len(items)
    for k, o in enumerate(outs):
        for j, x in enumerate(o):
            merged[k + j * nproc] = x
    return merged
