"""Fail-closed translator: python AST of the mutating Eups methods -> Coq term of Model/Guards.v (C15).

Regenerates coq/Generated/Guards.v from <repo>/python/eups/Eups.py on every run, together with the command-line
front end of the same operations: DeclareCmd / UndeclareCmd / RemoveCmd.execute of cmd.py and the wrappers
declare / undeclare of app.py, whose calls of the Eups methods become calls of the translated methods (the -n option
reaches Eups.noaction through EupsCmd.createEups: checked textually, fail-closed).  Anything outside the
grammar it understands raises TranslationError (the check then fails closed); any call it cannot classify
becomes a write site "unknown".  The classification tables below are part of the trusted base and are
printed into the evidence; the dynamic spy of harness/c15.py cross-checks them against the running code.
"""
import ast
import json
import os

ENTRY = ["declare", "undeclare", "unassignTag", "remove"]
METHODS = ENTRY + ["assignTag", "_remove"]         # translated and callable through SCall
# the front end: (generated name, file, class or None, function)
FRONT = [("app_declare", "app.py", None, "declare"), ("app_undeclare", "app.py", None, "undeclare"),
         ("cmd_declare", "cmd.py", "DeclareCmd", "execute"), ("cmd_undeclare", "cmd.py", "UndeclareCmd", "execute"),
         ("cmd_remove", "cmd.py", "RemoveCmd", "execute")]
COMMAND_ENTRY = ["cmd_declare", "cmd_undeclare", "cmd_remove"]
# how the front end names an Eups instance, and the module-level wrappers it calls
EUPS_RECEIVERS = {"myeups", "eupsenv"}
FRONT_CALLS = {"eups.declare": "app_declare", "eups.undeclare": "app_undeclare"}

# calls that change database records, cache files, or product directories
DB_WRITE_ATTRS = {"declare", "undeclare", "assignTag", "unassignTag"}
CACHE_WRITE_ATTRS = {"addProduct", "removeProduct", "assignTag", "unassignTag", "save", "refreshFromDatabase",
                     "ensureInSync", "reload", "clearCache", "persist"}
WRITE_FUNCS = {"os.makedirs", "os.mkdir", "os.remove", "os.unlink", "os.rmdir", "os.rename", "os.replace",
               "os.chmod", "os.symlink", "os.link", "os.utime", "os.truncate", "shutil.rmtree", "shutil.copy",
               "shutil.copy2", "shutil.copyfile", "shutil.copytree", "shutil.move", "utils.copyfile",
               "os.fdopen", "tempfile.mkstemp", "os.system", "subprocess.call", "subprocess.run"}

# write-like calls that do not touch a stack's records or a product directory: (method, call text) -> reason
NOT_STACK = {
    ("declare", "os.makedirs(ups_db, exist_ok=True)"): "creates the *user data* ups_db (EUPS_USERDATA), not a stack record",
    ("declare", "tempfile.mkstemp(prefix='eups_')"): "temporary copy of a table file given as a stream (system temp dir)",
    ("declare", "os.fdopen(tmpFd, 'w')"): "handle on that temporary file",
    ("declare", "os.chmod(full_tablefile, perms)"): "permissions of that temporary file (full_tablefile is the mkstemp name here)",
    ("declare", "os.unlink(full_tablefile)"): "removal of that temporary file at exit",
}

# calls known not to write (exact dotted names)
PURE_FUNCS = {
    "print", "str", "len", "isinstance", "hasattr", "input", "_set", "list", "dict", "set", "sorted", "repr",
    "bool", "int", "open_ro",
    "re.search", "re.sub", "re.match", "glob.glob", "filecmp.cmp", "zlib.crc32",
    "os.getcwd", "os.walk", "os.umask", "os.fstat", "os.path.join", "os.path.abspath", "os.path.isdir",
    "os.path.isfile", "os.path.exists", "os.path.isabs", "os.path.normpath", "os.path.expanduser",
    "os.path.split", "os.path.samefile", "os.path.dirname", "os.path.basename",
    "atexit.register", "signal.signal",
    "utils.isDbWritable", "utils.findWritableDb", "utils.isSubpath", "utils.isRealFilename",
    "utils.extraDirPath", "utils.guessProduct", "utils.deprecated", "utils.is_string", "utils.Flavor",
    "Product", "Database", "Table", "EupsException", "ProductNotFound", "RuntimeError", "TagNotRecognized",
    "self.findProduct", "self.findProducts", "self._findDeclarations", "self.findTaggedProduct", "self.getProduct", "self.getUpsDB", "self.isUserTag",
    "self.isTag", "self.isSetup", "self.uses", "self._databaseFor", "self._userStackCache",
    "self.tags.getTag", "self.tags.owners.get", "hooks.config.Eups.defaultProduct.get",
}
# the same for the front end (cmd.py / app.py); myeups / eupsenv is the Eups instance
FRONT_PURE_FUNCS = {
    "Eups", "self.createEups", "self.err", "myeups.findProducts", "myeups.tags.getTag", "myeups.isReservedTag",
    "utils.guessProduct", "os.path.isdir", "os.path.exists", "os.path.split", "os.path.join", "os.path.abspath",
    "re.search", "print", "len", "open_ro",
}
# attribute calls considered pure whatever the receiver (string / list / dict / value-object methods)
PURE_ATTRS = {"join", "startswith", "endswith", "split", "get", "append", "items", "keys", "values", "format",
              "lower", "upper", "strip", "rstrip", "read", "readlines", "fileno", "stackRoot", "getTable", "dependencies",
              "users", "getDeclareOptions", "getFallbackFlavors", "getTag", "isGlobal", "__str__", "_getUserTagDb",
              "index", "pop", "copy", "extend", "insert", "sort", "count", "find", "replace", "close"}


class TranslationError(Exception):
    pass


def dotted(node):
    if isinstance(node, ast.Name):
        return node.id
    if isinstance(node, ast.Attribute):
        base = dotted(node.value)
        return None if base is None else base + "." + node.attr
    return None


def find_function(tree, path, cls, name):
    """the one definition of cls.name (or of the module-level function name) in a parsed file"""
    if cls is None:
        scope = tree.body
    else:
        cs = [n for n in tree.body if isinstance(n, ast.ClassDef) and n.name == cls]
        if len(cs) != 1:
            raise TranslationError("%s: class %s not found exactly once" % (path, cls))
        scope = cs[0].body
    fs = [n for n in scope if isinstance(n, ast.FunctionDef) and n.name == name]
    if len(fs) != 1:
        raise TranslationError("%s: %s%s not defined exactly once" % (path, cls + "." if cls else "", name))
    return fs[0]


class Translator:
    def __init__(self, src_path):
        self.src_path = src_path
        self.src = open(src_path).read()
        self.tree = ast.parse(self.src)
        self.sites = []           # (id, method, lineno, text, kind)
        self.ignored = []         # (method, lineno, text, reason)
        self.unknown = []
        self.local_funcs = {}
        self.extra = []           # nested helper functions: (qualified name, body term)
        self.front = False        # translating the front end (cmd.py / app.py)?
        self.front_index = {}     # generated name of a front-end unit -> index in the program
        self.methods = {}
        for m in METHODS:
            self.methods[m] = find_function(self.tree, src_path, "Eups", m)
        # the front end
        d = os.path.dirname(src_path)
        self.front_defs = []
        trees = {}
        for gen, fname, cls, fn in FRONT:
            p = os.path.join(d, fname)
            if p not in trees:
                trees[p] = ast.parse(open(p).read())
            self.front_defs.append((gen, p, find_function(trees[p], p, cls, fn)))
        self.check_noaction_plumbing(trees[os.path.join(d, "cmd.py")], os.path.join(d, "cmd.py"))

    def check_noaction_plumbing(self, tree, path):
        """-n sets opts.noaction, and createEups hands it to the Eups constructor (else fail closed)"""
        create = find_function(tree, path, "EupsCmd", "createEups")
        ctor = [c for c in ast.walk(create) if isinstance(c, ast.Call) and dotted(c.func) == "eups.Eups"]
        if len(ctor) != 1 or not any(k.arg == "noaction" and ast.unparse(k.value) == "opts.noaction"
                                     for k in ctor[0].keywords):
            raise TranslationError("%s: createEups does not build eups.Eups(..., noaction=opts.noaction)" % path)
        if self.noaction_assigned(create):
            raise TranslationError("%s: createEups assigns noaction" % path)
        opt = [c for c in ast.walk(find_function(tree, path, "EupsCmd", "addOptions")) if isinstance(c, ast.Call) and
               any(isinstance(a, ast.Constant) and a.value == "-n" for a in c.args)]
        if len(opt) != 1 or not any(k.arg == "dest" and isinstance(k.value, ast.Constant) and k.value.value ==
                                    "noaction" for k in opt[0].keywords):
            raise TranslationError("%s: the -n option does not set opts.noaction" % path)

    # ---- expressions
    def calls_in(self, node):
        """all Call nodes evaluated when node is evaluated (lambda bodies excluded), inner first"""
        out = []

        def walk(n):
            if isinstance(n, ast.Lambda):
                return
            for c in ast.iter_child_nodes(n):
                walk(c)
            if isinstance(n, ast.Call):
                out.append(n)
        if node is not None:
            walk(node)
        return out

    def noaction_assigned(self, node):
        for n in ast.walk(node):
            if isinstance(n, (ast.Assign, ast.AugAssign, ast.AnnAssign, ast.Delete, ast.For, ast.With, ast.NamedExpr)):
                targets = []
                if isinstance(n, ast.Assign):
                    targets = n.targets
                elif isinstance(n, (ast.AugAssign, ast.AnnAssign, ast.NamedExpr)):
                    targets = [n.target]
                elif isinstance(n, ast.Delete):
                    targets = n.targets
                elif isinstance(n, ast.For):
                    targets = [n.target]
                elif isinstance(n, ast.With):
                    targets = [i.optional_vars for i in n.items if i.optional_vars is not None]
                for t in targets:
                    for s in ast.walk(t):
                        if isinstance(s, ast.Attribute) and s.attr == "noaction":
                            return True
            if isinstance(n, ast.Call):
                d = dotted(n.func)
                if d in ("setattr", "self.__setattr__", "delattr") or (d or "").endswith("__dict__.update"):
                    return True
        return False

    def classify(self, call, method):
        """-> coq term for one call"""
        func = call.func
        text = ast.unparse(call)
        d = dotted(func)
        line = call.lineno
        if (method, text) in NOT_STACK:
            self.ignored.append((method, line, text, NOT_STACK[(method, text)]))
            return "SMayRaise"
        if self.front:
            return self.classify_front(call, method, text, d, line)
        # translated methods
        if d is not None and d.startswith("self.") and d[5:] in METHODS:
            return "(SCall %d)" % METHODS.index(d[5:])
        # local (nested) functions: their bodies are translated in place
        if d in self.local_funcs:
            return "(SCall %d)" % self.local_funcs[d]
        if isinstance(func, ast.Attribute):
            recv = ast.unparse(func.value)
            if func.attr in DB_WRITE_ATTRS and (recv.startswith("self._databaseFor(") or recv.startswith("Database(")
                                                or recv in ("db", "database")):
                return self.site(method, line, text, "database record")
            if func.attr in CACHE_WRITE_ATTRS and recv.startswith("self.versions["):
                return self.site(method, line, text, "product cache")
        if d == "open":
            mode = None
            if len(call.args) > 1 and isinstance(call.args[1], ast.Constant):
                mode = call.args[1].value
            for k in call.keywords:
                if k.arg == "mode" and isinstance(k.value, ast.Constant):
                    mode = k.value.value
            if len(call.args) <= 1 and not any(k.arg == "mode" for k in call.keywords):
                mode = "r"
            if isinstance(mode, str) and not any(c in mode for c in "wax+"):
                return "SMayRaise"
            return self.site(method, line, text, "file opened for writing")
        if d in WRITE_FUNCS:
            return self.site(method, line, text, "file system")
        if d in PURE_FUNCS:
            return "SMayRaise"
        if isinstance(func, ast.Attribute) and func.attr in PURE_ATTRS:
            return "SMayRaise"
        self.unknown.append((method, line, text))
        return self.site(method, line, text, "unknown callee (fail-closed)")

    def classify_front(self, call, method, text, d, line):
        """calls of the front end: the Eups methods and the app wrappers are calls of translated code; a method of
        the Eups instance that is not translated is a write unless listed as pure"""
        func = call.func
        if d in FRONT_CALLS:
            return "(SCall %d)" % self.front_index[FRONT_CALLS[d]]
        if isinstance(func, ast.Attribute) and dotted(func.value) in EUPS_RECEIVERS and func.attr in METHODS:
            return "(SCall %d)" % METHODS.index(func.attr)
        if d == "open":
            mode = "r" if len(call.args) <= 1 and not any(k.arg == "mode" for k in call.keywords) else None
            if len(call.args) > 1 and isinstance(call.args[1], ast.Constant):
                mode = call.args[1].value
            if isinstance(mode, str) and not any(c in mode for c in "wax+"):
                return "SMayRaise"
            return self.site(method, line, text, "file opened for writing")
        if d in WRITE_FUNCS:
            return self.site(method, line, text, "file system")
        if d in FRONT_PURE_FUNCS:
            return "SMayRaise"
        if isinstance(func, ast.Attribute) and func.attr in PURE_ATTRS and dotted(func.value) not in EUPS_RECEIVERS:
            return "SMayRaise"
        self.unknown.append((method, line, text))
        return self.site(method, line, text, "unknown callee (fail-closed)")

    def site(self, method, line, text, kind):
        sid = len(self.sites)
        self.sites.append((sid, method, line, text, kind))
        return "(SWrite %d)" % sid

    def effects(self, node, method):
        terms = [self.classify(c, method) for c in self.calls_in(node)]
        return self.seq(terms)

    @staticmethod
    def seq(terms):
        terms = [t for t in terms if t != "SSkip"]
        if not terms:
            return "SSkip"
        out = terms[-1]
        for t in reversed(terms[:-1]):
            out = "(SSeq %s %s)" % (t, out)
        return out

    def cond(self, test):
        if isinstance(test, ast.Attribute) and dotted(test) == "self.noaction":
            return "CNoaction"
        if isinstance(test, ast.UnaryOp) and isinstance(test.op, ast.Not) and dotted(test.operand) == "self.noaction":
            return "CNotNoaction"
        return "COpaque"

    # ---- statements
    def stmts(self, body, method):
        return self.seq([self.stmt(s, method) for s in body])

    def stmt(self, s, m):
        if isinstance(s, ast.Expr):
            return self.effects(s.value, m)
        if isinstance(s, (ast.Assign, ast.AnnAssign, ast.AugAssign)):
            val = s.value
            tg = s.targets if isinstance(s, ast.Assign) else [s.target]
            return self.seq([self.effects(val, m)] + [self.effects(t, m) for t in tg])
        if isinstance(s, ast.If):
            return self.seq([self.effects(s.test, m),
                             "(SIf %s %s %s)" % (self.cond(s.test), self.stmts(s.body, m), self.stmts(s.orelse, m))])
        if isinstance(s, ast.For):
            return self.seq([self.effects(s.iter, m),
                             "(SLoop %s %s)" % (self.stmts(s.body, m), self.stmts(s.orelse, m))])
        if isinstance(s, ast.While):
            t = self.effects(s.test, m)
            return self.seq([t, "(SLoop %s %s)" % (self.seq([self.stmts(s.body, m), t]), self.stmts(s.orelse, m))])
        if isinstance(s, ast.Try):
            body = self.seq([self.stmts(s.body, m), self.stmts(s.orelse, m)])
            h = "SRaise"
            for hd in reversed(s.handlers):
                h = "(SIf COpaque %s %s)" % (self.stmts(hd.body, m), h)
            return "(STry %s %s %s)" % (body, h, self.stmts(s.finalbody, m))
        if isinstance(s, ast.With):
            return self.seq([self.effects(i.context_expr, m) for i in s.items] + [self.stmts(s.body, m), "SMayRaise"])
        if isinstance(s, ast.Return):
            return self.seq([self.effects(s.value, m), "SReturn"])
        if isinstance(s, ast.Raise):
            return self.seq([self.effects(s.exc, m), "SRaise"])
        if isinstance(s, ast.Assert):
            return self.seq([self.effects(s.test, m), "(SIf COpaque SSkip SRaise)"])
        if isinstance(s, ast.Break):
            return "SBreak"
        if isinstance(s, ast.Continue):
            return "SContinue"
        if isinstance(s, (ast.Pass, ast.Import, ast.ImportFrom, ast.Global, ast.Nonlocal)):
            return "SSkip"
        if isinstance(s, ast.Delete):
            return self.seq([self.effects(t, m) for t in s.targets])
        if isinstance(s, ast.FunctionDef):
            # a nested helper: remember its translated body (default-argument expressions are evaluated now)
            dflt = self.seq([self.effects(d, m) for d in s.args.defaults + [k for k in s.args.kw_defaults if k]])
            idx = len(METHODS) + len(self.extra)
            self.extra.append(("%s.%s" % (m, s.name), None))
            self.local_funcs[s.name] = idx
            body = self.stmts(s.body, m)
            self.extra[idx - len(METHODS)] = ("%s.%s" % (m, s.name), body)
            return dflt
        raise TranslationError("%s:%d: statement %s outside the translator's grammar" %
                               (self.src_path, s.lineno, type(s).__name__))

    def translate(self):
        bodies = {}
        for name in METHODS:
            fn = self.methods[name]
            if self.noaction_assigned(fn):
                raise TranslationError("method %s assigns self.noaction" % name)
            self.local_funcs = {}
            bodies[name] = self.stmts(fn.body, name)
        return bodies

    def translate_front(self, first_index):
        """the front-end units, numbered from first_index on (after the methods and their nested helpers)"""
        self.front = True
        self.front_index = {gen: first_index + i for i, (gen, _, _) in enumerate(self.front_defs)}
        out = []
        for gen, path, fn in self.front_defs:
            if self.noaction_assigned(fn):
                raise TranslationError("%s assigns noaction" % gen)
            self.local_funcs = {}
            n_extra = len(self.extra)
            self.src_path = path
            out.append((gen, self.stmts(fn.body, gen)))
            if len(self.extra) != n_extra:
                raise TranslationError("%s defines a nested function" % gen)
        self.front = False
        return out


# ---- python mirror of Model/Guards.v safe / never_normal on the *text* is avoided: the table of methods that
# are write-free under noaction is computed by a tiny evaluator over the same s-expression text.

def parse_term(txt):
    toks = txt.replace("(", " ( ").replace(")", " ) ").split()
    pos = [0]

    def rd():
        t = toks[pos[0]]
        pos[0] += 1
        if t == "(":
            lst = []
            while toks[pos[0]] != ")":
                lst.append(rd())
            pos[0] += 1
            return lst
        return t
    return rd()


def never_normal(t, na=True):
    if t in ("SReturn", "SRaise", "SBreak", "SContinue"):
        return True
    if isinstance(t, list):
        if t[0] == "SSeq":
            return never_normal(t[1], na) or never_normal(t[2], na)
        if t[0] == "SIf":
            if t[1] == "CNoaction":
                return never_normal(t[2] if na else t[3], na)
            if t[1] == "CNotNoaction":
                return never_normal(t[3] if na else t[2], na)
            return never_normal(t[2], na) and never_normal(t[3], na)
    return False


def safe(ok, t, na=True):
    if isinstance(t, str):
        return True
    h = t[0]
    if h == "SWrite":
        return False
    if h == "SSeq":
        return safe(ok, t[1], na) and (never_normal(t[1], na) or safe(ok, t[2], na))
    if h == "SIf":
        if t[1] == "CNoaction":
            return safe(ok, t[2] if na else t[3], na)
        if t[1] == "CNotNoaction":
            return safe(ok, t[3] if na else t[2], na)
        return safe(ok, t[2], na) and safe(ok, t[3], na)
    if h == "SLoop":
        return safe(ok, t[1], na) and safe(ok, t[2], na)
    if h == "STry":
        return safe(ok, t[1], na) and safe(ok, t[2], na) and safe(ok, t[3], na)
    if h == "SCall":
        return ok[int(t[1])]
    raise TranslationError("bad term head %r" % (h,))


def ok_table(body_terms, na=True):
    """the largest table of methods that the analyser finds write-free with self.noaction = na"""
    terms = [parse_term(b) for b in body_terms]
    ok = [True] * len(terms)
    changed = True
    while changed:
        changed = False
        for i, t in enumerate(terms):
            if ok[i] and not safe(ok, t, na):
                ok[i] = False
                changed = True
    return ok


def generate(repo, out_path):
    tr = Translator(os.path.join(repo, "python", "eups", "Eups.py"))
    bodies = tr.translate()
    names = [("helper" + m) if m.startswith("_") else m for m in METHODS] + [q.replace(".", "_") for q, _ in tr.extra]
    terms = [bodies[m] for m in METHODS] + [b for _, b in tr.extra]
    front = tr.translate_front(len(terms))
    names += [g for g, _ in front]
    terms += [b for _, b in front]
    ok = ok_table(terms)
    ok_wet = ok_table(terms, na=False)
    lines = ["(* GENERATED by harness/translate_guards.py from python/eups/Eups.py - do not edit *)",
             "From Coq Require Import List.", "Import ListNotations.",
             "From Eupsv Require Import Model.Guards.", ""]
    for i, n in enumerate(names):
        lines.append("Definition f_%s : nat := %d." % (n, i))
    lines.append("")
    for n, b in zip(names, terms):
        lines.append("Definition body_%s : stmt :=\n  %s." % (n, b))
        lines.append("")
    lines.append("Definition prog : list stmt := [%s]." % "; ".join("body_" + n for n in names))
    lines.append("Definition oks : list bool := [%s]." % "; ".join("true" if b else "false" for b in ok))
    lines.append("(* the same table computed with self.noaction = False (used only to show the analysis is not vacuous) *)")
    lines.append("Definition oks_wet : list bool := [%s]." % "; ".join("true" if b else "false" for b in ok_wet))
    lines.append("Definition entry_points : list nat := [%s]." % "; ".join("f_" + m for m in ENTRY))
    lines.append("(* the command-line front end: DeclareCmd / UndeclareCmd / RemoveCmd.execute of cmd.py *)")
    lines.append("Definition command_entry_points : list nat := [%s]." % "; ".join("f_" + m for m in COMMAND_ENTRY))
    lines.append("Definition n_sites : nat := %d." % len(tr.sites))
    text = "\n".join(lines) + "\n"
    old = open(out_path).read() if os.path.exists(out_path) else None
    if old != text:
        os.makedirs(os.path.dirname(out_path), exist_ok=True)
        tmp = out_path + ".tmp%d" % os.getpid()
        with open(tmp, "w") as f:
            f.write(text)
        os.replace(tmp, out_path)
    info = {
        "methods": METHODS, "entry": ENTRY, "front_end": [list(f) for f in FRONT], "command_entry": COMMAND_ENTRY,
        "ok_under_noaction": dict(zip(names, ok)), "ok_without_noaction": dict(zip(names, ok_wet)),
        "sites": [{"id": s[0], "method": s[1], "line": s[2], "call": s[3], "kind": s[4]} for s in tr.sites],
        "not_stack_records": [{"method": i[0], "line": i[1], "call": i[2], "reason": i[3]} for i in tr.ignored],
        "unknown_callees": [{"method": u[0], "line": u[1], "call": u[2]} for u in tr.unknown],
        "changed": old != text,
    }
    return info


if __name__ == "__main__":
    import sys
    repo = sys.argv[1] if len(sys.argv) > 1 else "/repo"
    info = generate(repo, os.path.join(os.path.dirname(os.path.dirname(os.path.abspath(__file__))),
                                       "coq", "Generated", "Guards.v"))
    print(json.dumps(info, indent=1))
