"""Fail-closed translator for C09: which lock does each eups command take?

Reads <repo>/python/eups/cmd.py and setupcmd.py with the python `ast` module and writes the table
coq/Generated/Locks.v (a Coq list  command name -> None | Some Sh | Some Ex) on every run.  The theorems
updaters_exclusive / readers_shared of coq/Props/C09.v are computed over that table.

The grammar understood is exactly what the two files contain today; anything else raises TranslationError and
the check fails closed:

  def register(cmd, clname, lockType=lock.LOCK_EX): ... _cmdLookup[cmd] = (clname, lockType)
  register("<name>", <ClassName>[, lockType=None | lock.LOCK_SH | lock.LOCK_EX])          at module level only
  every lock.takeLocks(...) call of cmd.py passes  ecmd.lockType  as its third argument
  the only stores to an attribute .lockType are
      self.lockType = lockType                               in EupsCmd.__init__
      ecmd.lockType = None            under  if ecmd.opts.help:
      self.lockType = lock.LOCK_EX    under  if self.opts.A [or self.opts.B ...]:   in <Class>.__init__, after
                                      EupsCmd.__init__(self, **kwargs)  (the command is exclusive when given one
                                      of those options; emitted as the pseudo-commands "<name> --A", ...)
  setupcmd.py contains exactly one lock.takeLocks call: lock.takeLocks("setup", path, lock.LOCK_xx, ...)
"""
import ast
import os

import common

OUT = os.path.join(common.COQ, "Generated", "Locks.v")


class TranslationError(Exception):
    pass


def _dotted(node):
    if isinstance(node, ast.Name):
        return node.id
    if isinstance(node, ast.Attribute):
        b = _dotted(node.value)
        return None if b is None else b + "." + node.attr
    return None


def _lock_const(node, where):
    if isinstance(node, ast.Constant) and node.value is None:
        return None
    d = _dotted(node)
    if d == "lock.LOCK_SH":
        return "Sh"
    if d == "lock.LOCK_EX":
        return "Ex"
    raise TranslationError("%s: lock type is not None / lock.LOCK_SH / lock.LOCK_EX: %s" % (where, ast.dump(node)))


def _parents(tree):
    par = {}
    for n in ast.walk(tree):
        for c in ast.iter_child_nodes(n):
            par[c] = n
    return par


def translate_cmd(path):
    src = open(path).read()
    tree = ast.parse(src, path)
    par = _parents(tree)
    table = []          # (name, lock, class name)
    default = None

    # the register function itself
    regs = [n for n in ast.walk(tree) if isinstance(n, ast.FunctionDef) and n.name == "register"]
    if len(regs) != 1 or par[regs[0]] is not tree:
        raise TranslationError("expected exactly one module-level def register")
    reg = regs[0]
    if [a.arg for a in reg.args.args] != ["cmd", "clname", "lockType"] or len(reg.args.defaults) != 1:
        raise TranslationError("register: unexpected signature")
    default = _lock_const(reg.args.defaults[0], "register default")
    stores = [n for n in ast.walk(reg) if isinstance(n, ast.Assign)]
    if len(stores) != 1 or ast.unparse(stores[0]) != "_cmdLookup[cmd] = (clname, lockType)":
        raise TranslationError("register: body does not store (clname, lockType) under cmd")

    # every other store into _cmdLookup is outside the grammar
    for n in ast.walk(tree):
        if isinstance(n, (ast.Assign, ast.AugAssign, ast.Delete)):
            tg = n.targets if isinstance(n, (ast.Assign, ast.Delete)) else [n.target]
            for t in tg:
                if isinstance(t, ast.Subscript) and _dotted(t.value) == "_cmdLookup" and n is not stores[0]:
                    raise TranslationError("line %d: _cmdLookup is modified outside register()" % n.lineno)
        if isinstance(n, ast.Call) and _dotted(n.func) in ("_cmdLookup.update", "_cmdLookup.pop",
                                                           "_cmdLookup.setdefault", "_cmdLookup.clear"):
            raise TranslationError("line %d: _cmdLookup is modified outside register()" % n.lineno)

    # the register(...) calls
    seen = set()
    for n in ast.walk(tree):
        if isinstance(n, ast.Call) and _dotted(n.func) == "register":
            st = par.get(n)
            if not (isinstance(st, ast.Expr) and par.get(st) is tree):
                raise TranslationError("line %d: register() is not a module-level statement" % n.lineno)
            if len(n.args) != 2 or not (isinstance(n.args[0], ast.Constant) and isinstance(n.args[0].value, str)) \
                    or not isinstance(n.args[1], ast.Name):
                raise TranslationError("line %d: register() arguments outside the grammar" % n.lineno)
            kws = {k.arg: k.value for k in n.keywords}
            if set(kws) - {"lockType"}:
                raise TranslationError("line %d: register() keyword outside the grammar" % n.lineno)
            lk = _lock_const(kws["lockType"], "line %d" % n.lineno) if "lockType" in kws else default
            name = n.args[0].value
            if name in seen:
                raise TranslationError("line %d: command %s registered twice" % (n.lineno, name))
            if any(ord(ch) < 32 or ord(ch) > 126 or ch == '"' for ch in name):
                raise TranslationError("line %d: command name outside printable ascii" % n.lineno)
            seen.add(name)
            table.append((name, lk, n.args[1].id))
        elif isinstance(n, ast.Name) and n.id == "register" and not isinstance(par.get(n), ast.Call):
            raise TranslationError("line %d: register used other than by a direct call" % n.lineno)
    if not table:
        raise TranslationError("no register() call found")

    # lock.takeLocks calls: third argument must be ecmd.lockType
    ntake = 0
    for n in ast.walk(tree):
        if isinstance(n, ast.Call) and _dotted(n.func) == "lock.takeLocks":
            ntake += 1
            if len(n.args) < 3 or _dotted(n.args[2]) != "ecmd.lockType":
                raise TranslationError("line %d: lock.takeLocks does not pass ecmd.lockType" % n.lineno)
    if ntake == 0:
        raise TranslationError("cmd.py never calls lock.takeLocks")

    # stores to .lockType
    overrides = []
    byclass = {}
    for name, lk, cl in table:
        byclass.setdefault(cl, []).append(name)
    for n in ast.walk(tree):
        if not isinstance(n, (ast.Assign, ast.AugAssign, ast.AnnAssign)):
            continue
        tg = n.targets if isinstance(n, ast.Assign) else [n.target]
        for t in tg:
            if not (isinstance(t, ast.Attribute) and t.attr == "lockType"):
                continue
            txt = ast.unparse(n)
            up = par.get(n)
            fn = up
            while fn is not None and not isinstance(fn, ast.FunctionDef):
                fn = par.get(fn)
            cls = par.get(fn) if fn is not None else None
            if txt == "self.lockType = lockType" and fn is not None and fn.name == "__init__" \
                    and isinstance(cls, ast.ClassDef) and cls.name == "EupsCmd" and up is fn:
                continue
            if txt == "ecmd.lockType = None" and isinstance(up, ast.If) and ast.unparse(up.test) == "ecmd.opts.help" \
                    and n in up.body:
                continue
            if txt == "self.lockType = lock.LOCK_EX" and isinstance(up, ast.If) and n in up.body and not up.orelse \
                    and fn is not None and fn.name == "__init__" and isinstance(cls, ast.ClassDef) \
                    and par.get(up) is fn and cls.name in byclass:
                test = up.test
                opts = test.values if isinstance(test, ast.BoolOp) and isinstance(test.op, ast.Or) else [test]
                names = []
                for o in opts:
                    d = _dotted(o)
                    if d is None or not d.startswith("self.opts.") or d.count(".") != 2:
                        raise TranslationError("line %d: option test outside the grammar: %s" % (n.lineno, ast.unparse(test)))
                    names.append(d.split(".")[2])
                # the option values must have been parsed: EupsCmd.__init__(self, **kwargs) precedes the test
                idx = fn.body.index(up)
                before = [ast.unparse(s) for s in fn.body[:idx]]
                if "EupsCmd.__init__(self, **kwargs)" not in before:
                    raise TranslationError("line %d: lockType override before EupsCmd.__init__" % n.lineno)
                # nothing after it may touch lockType again (checked globally: every store is classified here)
                for cname in byclass[cls.name]:
                    for o in names:
                        overrides.append((cname + " --" + o, "Ex", cls.name))
                continue
            raise TranslationError("line %d: store to .lockType outside the grammar: %s" % (n.lineno, txt))
    return table, overrides


def translate_setup(path):
    tree = ast.parse(open(path).read(), path)
    calls = [n for n in ast.walk(tree) if isinstance(n, ast.Call) and _dotted(n.func) == "lock.takeLocks"]
    if len(calls) != 1:
        raise TranslationError("setupcmd.py: expected exactly one lock.takeLocks call, found %d" % len(calls))
    c = calls[0]
    if len(c.args) < 3 or not (isinstance(c.args[0], ast.Constant) and c.args[0].value == "setup"):
        raise TranslationError("setupcmd.py: lock.takeLocks arguments outside the grammar")
    lk = _lock_const(c.args[2], "setupcmd.py line %d" % c.lineno)
    gives = [n for n in ast.walk(tree) if isinstance(n, ast.Call) and _dotted(n.func) == "lock.giveLocks"]
    if not gives:
        raise TranslationError("setupcmd.py never calls lock.giveLocks")
    return [("setup", lk, "EupsSetup")]


def coq_text(rows):
    def k(v):
        return "None" if v is None else "Some " + v
    lines = ["(* GENERATED by harness/translate_locks.py from python/eups/cmd.py and setupcmd.py on every run.",
             "   Do not edit.  name of the command, lock it takes: None = no lock, Sh = shared, Ex = exclusive;",
             "   an entry NAME --OPT is the command NAME when it is given the option OPT. *)",
             "From Eupsv Require Import Base.Base Model.Lock.",
             "",
             "Definition registered : lock_table :=",
             "  ["]
    body = ['    ("%s", %s)' % (name, k(lk)) for name, lk, _ in rows]
    lines.append(";\n".join(body))
    lines.append("  ]%string.")
    return "\n".join(lines) + "\n"


def generate(repo=None, out=OUT):
    """returns the rows [(name, 'Sh'|'Ex'|None, class)]; writes the Coq file only when its text changed"""
    repo = repo or common.REPO
    table, overrides = translate_cmd(os.path.join(repo, "python", "eups", "cmd.py"))
    rows = table + overrides + translate_setup(os.path.join(repo, "python", "eups", "setupcmd.py"))
    txt = coq_text(rows)
    os.makedirs(os.path.dirname(out), exist_ok=True)
    old = open(out).read() if os.path.exists(out) else None
    if old != txt:
        tmp = out + ".tmp%d" % os.getpid()
        with open(tmp, "w") as f:
            f.write(txt)
        os.replace(tmp, out)
    return rows


if __name__ == "__main__":
    for r in generate():
        print(r)
