(* C01 / C02 / C04 driver (Model/Setup.v).
   line: req TAB world TAB flavor,root,maxdepth,keep TAB env TAB aliases TAB decisions TAB name TAB fwd TAB just TAB fuel
     world     = product|product...      product = name:version:dir:act+act...
     act       = S,opt,name,just | P,append,var,value,delim | E,var,value | U,var | A,name,value | N
     decisions = v,v,!,...               (! = not found)
   answer: ok TAB env TAB aliases TAB decisions-left | fail TAB decisions-left | raise | err TAB kind
   line: wf TAB world TAB order          order = names joined by ',' (dependencies first)
   answer: 1 | 0                          the checker wf2_check of coq/Model/SetupWf.v (hypotheses WF / WF2)
   line: wff TAB world TAB order         answer: one 0/1 per field, in the order of wf2_fields
     (actions vars rank var_apart elem_apart versions set_once keys words)
   line: full TAB world TAB lines TAB tags TAB flavor,root,maxdepth,keep TAB env TAB aliases TAB name TAB version TAB fwd
             TAB just TAB fuel TAB flavors TAB extra-global-tags
     the composed model request_full of coq/Model/SetupFull.v (resolver included: no decisions in the input)
     lines     = name:version:li+li...|...   one li per action of the table; li = - | vers~expr, each - or =text
     tags      = name~tag~version,...        the chain files of the stack
     version   = - | =text                   the version named on the command line
     flavors   = native,fallback,...
   answer: ok TAB env TAB aliases TAB decisions-taken | fail TAB decisions-taken | err TAB kind
   line: text TAB tworld TAB flavor,root,maxdepth,keep TAB env TAB aliases TAB decisions TAB name TAB fwd TAB just TAB fuel
             TAB types TAB implicit
     the setup model run from table TEXTS (coq/Model/SetupText.v: C11's table_actions, expandEupsVariables, the
     command kinds, processArgs); same fields as req, except
     tworld    = tproduct|tproduct...    tproduct = name:version:dir:flavor:text   (text = the table file, percent-encoded)
                 the flavor a product is declared under comes from here (the fifth field of the configuration is ignored)
     types     = Eups.setupType, joined by ','
     implicit  = the words of the implicit product line (hooks.config.Eups.defaultProduct), joined by ','; empty = none
   answer: as req, or  outside TAB kind  when a table does not parse (BadTable, Crash ...) or uses a construct that
     Model/Setup.v cannot express (Refused)
   line: ttable TAB tproduct TAB flavor,root,maxdepth,keep TAB types TAB implicit
     the actions of one table text (product_of_text), in the encoding of the world field of req
   answer: ok TAB act+act... | outside TAB kind
   line: reqm TAB mworld TAB flavor,root,maxdepth,keep TAB env TAB aliases TAB mdecisions TAB name TAB fwd TAB just TAB fuel
     the setup model with SEVERAL STACKS (coq/Model/SetupMS.v); of the configuration only the native flavor, maxdepth
     and keep are read
     mworld     = mproduct|mproduct...   mproduct = name:version:root:flavor:dir:act+act...
     mdecisions = version~root,!,...     (the version and the stack of the product the resolver returned)
   answer: as req
   line: wffm TAB mworld TAB order       answer: one 0/1 per field of mwf2_fields (coq/Model/SetupMSWf.v)
   line: fullm TAB mworld TAB mlines TAB mtags TAB path TAB flavor,root,maxdepth,keep TAB env TAB aliases TAB name TAB version
              TAB fwd TAB just TAB fuel TAB flavors TAB extra-global-tags
     the composed model mrequest_full of coq/Model/SetupMSFull.v
     mlines    = name:version:root:li+li...|...
     mtags     = root~name~flavor~tag~version,...   the chain files, stack by stack
     path      = root,root,...                      the stacks the command selected, in EUPS_PATH order
   answer: ok TAB env TAB aliases TAB mdecisions-taken | fail TAB mdecisions-taken | err TAB kind
   line: textm TAB mtworld TAB flavor,root,maxdepth,keep TAB env TAB aliases TAB mdecisions TAB name TAB fwd TAB just TAB fuel
              TAB types TAB implicit
     coq/Model/SetupMSText.v;  mtworld = mtproduct|...   mtproduct = name:version:root:flavor:dir:text
   line: ttablem TAB mtproduct TAB types TAB implicit      answer: ok TAB act+act... | outside TAB kind *)
let dec_env (s : Stdlib.String.t) =
  dec_list ';' (fun kv ->
    match Stdlib.String.index_opt kv '=' with
    | Some i -> (dec_str (Stdlib.String.sub kv 0 i), dec_str (Stdlib.String.sub kv (i + 1) (Stdlib.String.length kv - i - 1)))
    | None -> (dec_str kv, [])) s
let enc_env e = enc_list ';' (fun (k, v) -> enc_str k ^ "=" ^ enc_str v) e

let dec_act (s : Stdlib.String.t) : action =
  match Stdlib.String.split_on_char ',' s with
  | ["S"; o; n; j] -> ASetup (bool_of_field o, dec_str n, bool_of_field j)
  | ["P"; a; var; v; d] -> APath (bool_of_field a, dec_str var, dec_str v, ascii_of_char (dec d).[0])
  | ["E"; k; v] -> ASet (dec_str k, dec_str v)
  | ["U"; k] -> AUnset (dec_str k)
  | ["A"; k; v] -> AAlias (dec_str k, dec_str v)
  | ["N"] -> ANone
  | _ -> failwith ("bad action " ^ s)

let dec_product (s : Stdlib.String.t) : product =
  match Stdlib.String.split_on_char ':' s with
  | [n; v; d; acts] -> { p_name = dec_str n; p_version = dec_str v; p_dir = dec_str d;
                         p_actions = Stdlib.List.map dec_act (split_sep '+' acts) }
  | [n; v; d] -> { p_name = dec_str n; p_version = dec_str v; p_dir = dec_str d; p_actions = [] }
  | _ -> failwith "bad product"

let dec_cfg (s : Stdlib.String.t) : config =
  match Stdlib.String.split_on_char ',' s with
  | f :: r :: m :: k :: rest ->
      (* optional fifth field: name~version~flavor triples separated by + *)
      let fl = match rest with
        | [] | [""] -> []
        | [x] -> List.map (fun t -> match Stdlib.String.split_on_char '~' t with
                                    | [n; v; fv] -> ((dec_str n, dec_str v), dec_str fv)
                                    | _ -> failwith "bad flavor triple") (Stdlib.String.split_on_char '+' x)
        | _ -> failwith "bad cfg" in
      { c_flavor = dec_str f; c_root = dec_str r;
        c_max_depth = (if m = "-" then None else Some (nat_of_int (int_of_string m)));
        c_keep = bool_of_field k; c_flavors = fl }
  | _ -> failwith "bad cfg"

let dec_decisions (s : Stdlib.String.t) : (ascii list) option list =
  Stdlib.List.map (fun x -> if x = "!" then None else Some (dec_str x)) (split_sep ',' s)

let dec_optstr (s : Stdlib.String.t) : (ascii list) option =
  if s = "-" || s = "" then None else Some (dec_str (Stdlib.String.sub s 1 (Stdlib.String.length s - 1)))

let dec_lineinfo (s : Stdlib.String.t) : lineinfo =
  match Stdlib.String.split_on_char '~' s with
  | [v; x] -> { li_version = dec_optstr v; li_expr = dec_optstr x }
  | _ -> { li_version = None; li_expr = None }

let dec_lines (s : Stdlib.String.t) =
  match Stdlib.String.split_on_char ':' s with
  | [n; v; l] -> ((dec_str n, dec_str v), Stdlib.List.map dec_lineinfo (split_sep '+' l))
  | [n; v] -> ((dec_str n, dec_str v), [])
  | _ -> failwith "bad lines"

let dec_tag (s : Stdlib.String.t) =
  match Stdlib.String.split_on_char '~' s with
  | [n; t; v] -> ((dec_str n, dec_str t), dec_str v)
  | _ -> failwith "bad tag"

let enc_decisions (ds : (ascii list) option list) : Stdlib.String.t =
  Stdlib.String.concat "," (Stdlib.List.map (fun d -> match d with None -> "!" | Some v -> enc_str v) ds)

let dec_tproduct (s : Stdlib.String.t) =
  match Stdlib.String.split_on_char ':' s with
  | [n; v; d; fl; t] -> ({ t_name = dec_str n; t_version = dec_str v; t_dir = dec_str d; t_text = dec_str t }, dec_str fl)
  | [n; v; d; fl] -> ({ t_name = dec_str n; t_version = dec_str v; t_dir = dec_str d; t_text = [] }, dec_str fl)
  | _ -> failwith "bad text product"

let enc_act (a : action) : Stdlib.String.t =
  match a with
  | ASetup (o, n, j) -> "S," ^ field_of_bool o ^ "," ^ enc_str n ^ "," ^ field_of_bool j
  | APath (ap, var, v, d) -> "P," ^ field_of_bool ap ^ "," ^ enc_str var ^ "," ^ enc_str v ^ "," ^ enc_str [d]
  | ASet (k, v) -> "E," ^ enc_str k ^ "," ^ enc_str v
  | AUnset k -> "U," ^ enc_str k
  | AAlias (k, v) -> "A," ^ enc_str k ^ "," ^ enc_str v
  | ANone -> "N"

let text_cfg (cfg0 : config) tps : config =
  { cfg0 with c_flavors =
      Stdlib.List.filter_map (fun (tp, fl) -> if fl = cfg0.c_flavor then None
                                              else Some ((tp.t_name, tp.t_version), fl)) tps }

(* ---- several stacks *)
let dec_mproduct (s : Stdlib.String.t) : mproduct =
  match Stdlib.String.split_on_char ':' s with
  | [n; v; r; fl; d; acts] -> { mp_name = dec_str n; mp_version = dec_str v; mp_root = dec_str r; mp_flavor = dec_str fl;
                               mp_dir = dec_str d; mp_actions = Stdlib.List.map dec_act (split_sep '+' acts) }
  | [n; v; r; fl; d] -> { mp_name = dec_str n; mp_version = dec_str v; mp_root = dec_str r; mp_flavor = dec_str fl;
                         mp_dir = dec_str d; mp_actions = [] }
  | _ -> failwith "bad mproduct"

let dec_vref (x : Stdlib.String.t) : vref =
  match Stdlib.String.split_on_char '~' x with
  | [v; r] -> { vr_version = dec_str v; vr_root = dec_str r }
  | _ -> failwith "bad vref"

let dec_mdecisions (s : Stdlib.String.t) : vref option list =
  Stdlib.List.map (fun x -> if x = "!" then None else Some (dec_vref x)) (split_sep ',' s)

let enc_mdecisions (ds : vref option list) : Stdlib.String.t =
  Stdlib.String.concat "," (Stdlib.List.map (fun d -> match d with None -> "!"
                                                     | Some k -> enc_str k.vr_version ^ "~" ^ enc_str k.vr_root) ds)

let dec_mlines (s : Stdlib.String.t) =
  match Stdlib.String.split_on_char ':' s with
  | [n; v; r; l] -> ((dec_str n, { vr_version = dec_str v; vr_root = dec_str r }), Stdlib.List.map dec_lineinfo (split_sep '+' l))
  | [n; v; r] -> ((dec_str n, { vr_version = dec_str v; vr_root = dec_str r }), [])
  | _ -> failwith "bad mlines"

let dec_mtag (s : Stdlib.String.t) =
  match Stdlib.String.split_on_char '~' s with
  | [r; n; fl; t; v] -> (dec_str r, (((dec_str n, dec_str fl), dec_str t), dec_str v))
  | _ -> failwith "bad mtag"

let dec_mtproduct (s : Stdlib.String.t) : mtproduct =
  match Stdlib.String.split_on_char ':' s with
  | [n; v; r; fl; d; t] -> { mt_name = dec_str n; mt_version = dec_str v; mt_root = dec_str r; mt_flavor = dec_str fl;
                            mt_dir = dec_str d; mt_text = dec_str t }
  | [n; v; r; fl; d] -> { mt_name = dec_str n; mt_version = dec_str v; mt_root = dec_str r; mt_flavor = dec_str fl;
                         mt_dir = dec_str d; mt_text = [] }
  | _ -> failwith "bad text mproduct"

let answer_mresult (r : mresult) : Stdlib.String.t =
  match r with
  | MDone (true, st', ds') -> "ok\t" ^ enc_env st'.s_env ^ "\t" ^ enc_env st'.s_aliases ^ "\t" ^ string_of_int (Stdlib.List.length ds')
  | MDone (false, _, ds') -> "fail\t" ^ string_of_int (Stdlib.List.length ds')
  | MRaise (_, _) -> "raise"
  | MFuel -> "err\tOutOfFuel"
  | MBad -> "err\tBadDecisions"

let handle_ms (f : Stdlib.String.t array) : Stdlib.String.t =
  match f.(0) with
  | "reqm" ->
    let w = Stdlib.List.map dec_mproduct (split_sep '|' f.(1)) in
    let cfg = dec_cfg f.(2) in
    let st = { s_env = dec_env f.(3); s_aliases = dec_env f.(4) } in
    let ds = dec_mdecisions f.(5) in
    let fuel = nat_of_int (int_of_string f.(9)) in
    answer_mresult (msetup w cfg fuel st ds (dec_str f.(6)) (bool_of_field f.(7)) O (bool_of_field f.(8)))
  | "wffm" ->
    let w = Stdlib.List.map dec_mproduct (split_sep '|' f.(1)) in
    let order = dec_strlist ',' (if Stdlib.Array.length f > 2 then f.(2) else "") in
    Stdlib.String.concat "" (Stdlib.List.map field_of_bool (mwf2_fields w order))
  | "fullm" ->
    let fw = { mfw_products = Stdlib.List.map dec_mproduct (split_sep '|' f.(1));
               mfw_lines = Stdlib.List.map dec_mlines (split_sep '|' f.(2));
               mfw_tags = Stdlib.List.map dec_mtag (split_sep ',' f.(3));
               mfw_path = dec_strlist ',' f.(4) } in
    let cfg = dec_cfg f.(5) in
    let st = { s_env = dec_env f.(6); s_aliases = dec_env f.(7) } in
    let fuel = nat_of_int (int_of_string f.(12)) in
    let flavors = dec_strlist ',' f.(13) in
    let rc = site_config (dec_strlist ',' (if Stdlib.Array.length f > 14 then f.(14) else "")) [] in
    (match mrequest_full_simple fw cfg rc flavors fuel st (dec_str f.(8)) (dec_optstr f.(9))
             (bool_of_field f.(10)) (bool_of_field f.(11)) with
     | Ok (Some st', tr) -> "ok\t" ^ enc_env st'.s_env ^ "\t" ^ enc_env st'.s_aliases ^ "\t" ^ enc_mdecisions tr
     | Ok (None, tr) -> "fail\t" ^ enc_mdecisions tr
     | Err k -> "err\t" ^ err_name k)
  | "textm" ->
    let tps = Stdlib.List.map dec_mtproduct (split_sep '|' f.(1)) in
    let cfg = dec_cfg f.(2) in
    let st = { s_env = dec_env f.(3); s_aliases = dec_env f.(4) } in
    let ds = dec_mdecisions f.(5) in
    let fuel = nat_of_int (int_of_string f.(9)) in
    let tc = { tc_types = dec_strlist ',' (if Stdlib.Array.length f > 10 then f.(10) else "");
               tc_implicit = dec_strlist ',' (if Stdlib.Array.length f > 11 then f.(11) else "") } in
    (match msetup_text cfg tc tps fuel st ds (dec_str f.(6)) (bool_of_field f.(7)) O (bool_of_field f.(8)) with
     | Err k -> "outside\t" ^ err_name k
     | Ok r -> answer_mresult r)
  | "ttablem" ->
    let tp = dec_mtproduct f.(1) in
    let tc = { tc_types = dec_strlist ',' (if Stdlib.Array.length f > 2 then f.(2) else "");
               tc_implicit = dec_strlist ',' (if Stdlib.Array.length f > 3 then f.(3) else "") } in
    (match mproduct_of_text tc tp with
     | Err k -> "outside\t" ^ err_name k
     | Ok p -> "ok\t" ^ Stdlib.String.concat "+" (Stdlib.List.map enc_act p.mp_actions))
  | _ -> failwith "unknown op"

let handle (f : Stdlib.String.t array) : Stdlib.String.t =
  match f.(0) with
  | "reqm" | "wffm" | "fullm" | "textm" | "ttablem" -> handle_ms f
  | "ttable" ->
    let (tp, fl) = dec_tproduct f.(1) in
    let cfg = text_cfg (dec_cfg f.(2)) [(tp, fl)] in
    let tc = { tc_types = dec_strlist ',' (if Stdlib.Array.length f > 3 then f.(3) else "");
               tc_implicit = dec_strlist ',' (if Stdlib.Array.length f > 4 then f.(4) else "") } in
    (match product_of_text cfg tc tp with
     | Err k -> "outside\t" ^ err_name k
     | Ok p -> "ok\t" ^ Stdlib.String.concat "+" (Stdlib.List.map enc_act p.p_actions))
  | "text" ->
    let tps = Stdlib.List.map dec_tproduct (split_sep '|' f.(1)) in
    let cfg = text_cfg (dec_cfg f.(2)) tps in
    let st = { s_env = dec_env f.(3); s_aliases = dec_env f.(4) } in
    let ds = dec_decisions f.(5) in
    let fuel = nat_of_int (int_of_string f.(9)) in
    let tc = { tc_types = dec_strlist ',' (if Stdlib.Array.length f > 10 then f.(10) else "");
               tc_implicit = dec_strlist ',' (if Stdlib.Array.length f > 11 then f.(11) else "") } in
    (match setup_text cfg tc (Stdlib.List.map fst tps) fuel st ds (dec_str f.(6)) (bool_of_field f.(7)) O (bool_of_field f.(8)) with
     | Err k -> "outside\t" ^ err_name k
     | Ok (RDone (true, st', ds')) -> "ok\t" ^ enc_env st'.s_env ^ "\t" ^ enc_env st'.s_aliases ^ "\t" ^ string_of_int (Stdlib.List.length ds')
     | Ok (RDone (false, _, ds')) -> "fail\t" ^ string_of_int (Stdlib.List.length ds')
     | Ok (RRaise (_, _)) -> "raise"
     | Ok RFuel -> "err\tOutOfFuel"
     | Ok RBad -> "err\tBadDecisions")
  | "full" ->
    let fw = { fw_products = Stdlib.List.map dec_product (split_sep '|' f.(1));
               fw_lines = Stdlib.List.map dec_lines (split_sep '|' f.(2));
               fw_tags = Stdlib.List.map dec_tag (split_sep ',' f.(3)) } in
    let cfg = dec_cfg f.(4) in
    let st = { s_env = dec_env f.(5); s_aliases = dec_env f.(6) } in
    let fuel = nat_of_int (int_of_string f.(11)) in
    let flavors = dec_strlist ',' f.(12) in
    let rc = site_config (dec_strlist ',' (if Stdlib.Array.length f > 13 then f.(13) else "")) [] in
    (match request_full_simple fw cfg rc flavors fuel st (dec_str f.(7)) (dec_optstr f.(8))
             (bool_of_field f.(9)) (bool_of_field f.(10)) with
     | Ok (Some st', tr) -> "ok\t" ^ enc_env st'.s_env ^ "\t" ^ enc_env st'.s_aliases ^ "\t" ^ enc_decisions tr
     | Ok (None, tr) -> "fail\t" ^ enc_decisions tr
     | Err k -> "err\t" ^ err_name k)
  | "fullv" ->
    (* the composed model with the comparator and the matcher of C10 (coq/Model/ResolveReal.v request_full_real);
       fields as for full.  answer: as full with three more fields: fw_real_ok (every product's version names are
       conventional and no two of them spell the same key: the hypothesis of closure_exact_real), fw_conv (all
       version names are conventional) and db_sorted (every listing is sorted as strings) - the hypotheses of
       closure_exact_real_sorted -, or
       outside TAB domain  when a declared version is not accepted by C10 or an expression does not evaluate *)
    let fw = { fw_products = Stdlib.List.map dec_product (split_sep '|' f.(1));
               fw_lines = Stdlib.List.map dec_lines (split_sep '|' f.(2));
               fw_tags = Stdlib.List.map dec_tag (split_sep ',' f.(3)) } in
    let cfg = dec_cfg f.(4) in
    let st = { s_env = dec_env f.(5); s_aliases = dec_env f.(6) } in
    let fuel = nat_of_int (int_of_string f.(11)) in
    let flavors = dec_strlist ',' f.(12) in
    let rc = site_config (dec_strlist ',' (if Stdlib.Array.length f > 13 then f.(13) else "")) [] in
    let version = dec_optstr f.(8) in
    if not (full_domain fw version) then "outside\tdomain" else
    let ok = field_of_bool (fw_real_ok cfg fw) ^ "\t" ^ field_of_bool (fw_conv fw) ^ "\t" ^
             field_of_bool (db_sorted (db_of cfg fw)) in
    (match request_full_real fw cfg rc flavors fuel st (dec_str f.(7)) version
             (bool_of_field f.(9)) (bool_of_field f.(10)) with
     | Ok (Some st', tr) -> "ok\t" ^ enc_env st'.s_env ^ "\t" ^ enc_env st'.s_aliases ^ "\t" ^ enc_decisions tr ^ "\t" ^ ok
     | Ok (None, tr) -> "fail\t" ^ enc_decisions tr ^ "\t" ^ ok
     | Err k -> "err\t" ^ err_name k)
  | "req" ->
    let w = Stdlib.List.map dec_product (split_sep '|' f.(1)) in
    let cfg = dec_cfg f.(2) in
    let st = { s_env = dec_env f.(3); s_aliases = dec_env f.(4) } in
    let ds = dec_decisions f.(5) in
    let fuel = nat_of_int (int_of_string f.(9)) in
    (match setup w cfg fuel st ds (dec_str f.(6)) (bool_of_field f.(7)) O (bool_of_field f.(8)) with
     | RDone (true, st', ds') -> "ok\t" ^ enc_env st'.s_env ^ "\t" ^ enc_env st'.s_aliases ^ "\t" ^ string_of_int (Stdlib.List.length ds')
     | RDone (false, _, ds') -> "fail\t" ^ string_of_int (Stdlib.List.length ds')
     | RRaise (_, _) -> "raise"
     | RFuel -> "err\tOutOfFuel"
     | RBad -> "err\tBadDecisions")
  | "cmds" ->
    (* line: cmds TAB env-before TAB env-after-setup TAB env-after-unsetup
       coq/Model/SetupCmds.v: the shell that starts with env-before and sources the command lists app.setup makes of
       the two computed environments (emitter and shell fragment of coq/Model/Shell.v)
       answer: ok TAB env-of-the-shell TAB text1 TAB text2 | outside (cmds_in_claim is false) | err TAB kind *)
    let e0 = dec_env f.(1) in
    let st1 = { s_env = dec_env f.(2); s_aliases = [] } and st2 = { s_env = dec_env f.(3); s_aliases = [] } in
    if not (cmds_in_claim e0 st1 st2) then "outside" else
    (match shell_after e0 st1 st2, command_texts e0 st1 st2 with
     | Ok sh, Ok texts -> "ok\t" ^ enc_env sh ^ "\t" ^ Stdlib.String.concat "\t" (Stdlib.List.map enc_str texts)
     | Err k, _ -> "err\t" ^ err_name k
     | _, Err k -> "err\t" ^ err_name k)
  | "wf" ->
    let w = Stdlib.List.map dec_product (split_sep '|' f.(1)) in
    let order = dec_strlist ',' (if Stdlib.Array.length f > 2 then f.(2) else "") in
    field_of_bool (wf2_check w order)
  | "wff" ->
    let w = Stdlib.List.map dec_product (split_sep '|' f.(1)) in
    let order = dec_strlist ',' (if Stdlib.Array.length f > 2 then f.(2) else "") in
    Stdlib.String.concat "" (Stdlib.List.map field_of_bool (wf2_fields w order))
  | _ -> failwith "unknown op"

let () = main_loop handle
