(* C03 driver: one case per line (see harness/c03.py to_line), one result line per case *)
let words (s : String.t) : ascii list list = dec_list ',' dec_str s

let split_on_string (sep : char) (s : String.t) : String.t list = String.split_on_char sep s

let dec_decl (s : String.t) =
  match split_on_string '~' s with
  | [n; v; f] -> ((dec_str n, dec_str v), dec_str f)
  | _ -> failwith "bad decl"

let dec_chain (s : String.t) =
  match split_on_string '~' s with
  | [n; f; t; v] -> (((dec_str n, dec_str f), dec_str t), dec_str v)
  | _ -> failwith "bad chain"

let dec_stack (s : String.t) : stackv =
  match split_on_string '@' s with
  | [id; d; c] ->
    { st_id = dec_str id;
      st_decl = List.map dec_decl (split_sep ',' d);
      st_chain = List.map dec_chain (split_sep ',' c) }
  | _ -> failwith "bad stack"

let dec_db (s : String.t) : stackv list = List.map dec_stack (split_sep '|' s)

let dec_opt (s : String.t) : ascii list option =
  if s = "-" then None else Some (dec_str (String.sub s 1 (String.length s - 1)))

(* D63 (/repo 94fc8d3): a top-level forward request (depth 0) starts with an empty alreadySetupProducts table, so a
   product chosen by an earlier request on the same Eups object is invisible to the resolution of Eups.setup at depth 0;
   findProductFromVRO called directly still reads the table (the walk keeps prev) *)
let top_prev depth prev = (match depth with O -> None | _ -> prev)

let dec_prev (s : String.t) =
  if s = "-" then None else
  match split_on_string '~' s with
  | [st; n; v; f; rt; rv] ->
    let fd = { fd_stack = dec_str st; fd_name = dec_str n; fd_version = dec_str v; fd_flavor = dec_str f } in
    let r = if rt = "-" then None
            else Some (parse_entry (dec_str (String.sub rt 1 (String.length rt - 1))), dec_opt rv) in
    Some (fd, r)
  | _ -> failwith "bad prev"

let dec_vrocfg (s : String.t) =
  List.map (fun kv ->
    match String.index_opt kv '=' with
    | Some i -> (dec_str (String.sub kv 0 i),
                 words (String.sub kv (i + 1) (String.length kv - i - 1)))
    | None -> failwith "bad vro cfg") (split_sep ';' s)

let show_found (o : found option) : String.t =
  match o with
  | None -> "-"
  | Some p -> String.concat "~" [enc_str p.fd_stack; enc_str p.fd_name; enc_str p.fd_version; enc_str p.fd_flavor]

let show_optstr (o : ascii list option) : String.t =
  match o with None -> "-" | Some x -> "=" ^ enc_str x

let show_reason (o : (entry * ascii list option) option) : String.t =
  match o with
  | None -> "-"
  | Some (e, x) -> enc_str (entry_str e) ^ "~" ^ show_optstr x

let show_entries (l : entry list) : String.t = enc_list ',' (fun e -> enc_str (entry_str e)) l

let show_db (db : stackv list) : String.t =
  String.concat "|" (List.map (fun s ->
    String.concat "@" [enc_str s.st_id;
      String.concat "," (List.map (fun ((n, v), fl) -> String.concat "~" [enc_str n; enc_str v; enc_str fl]) s.st_decl);
      String.concat "," (List.map (fun (((n, fl), t), v) -> String.concat "~" [enc_str n; enc_str fl; enc_str t; enc_str v])
                           s.st_chain)]) db)

let dec_mut (s : String.t) : mut =
  match split_on_string '~' s with
  | ["A"; t; n; v; st] -> MAssign (dec_str t, dec_str n, dec_str v, dec_opt st)
  | ["U"; t; n; v; st] -> MUnassign (dec_str t, dec_str n, dec_opt v, dec_opt st)
  | ["D"; n; v; st; t] -> MDeclare (dec_str n, dec_str v, dec_str st, dec_opt t)
  | ["X"; n; v; st] -> MUndeclare (dec_str n, dec_str v, dec_opt st)
  | _ -> failwith "bad change"

(* the answer fields of op case, on the database view db *)
let case_fields (f : String.t array) (db : stackv list) : String.t list =
    let cfg0 = site_config (words f.(1)) [dec_str f.(2)] in
    let cfg = if f.(3) = "-" then cfg0 else { cfg0 with cfg_vro = dec_vrocfg f.(3) } in
    let o = { o_keep = bool_of_field f.(4); o_exact = bool_of_field f.(5); o_inexact = bool_of_field f.(6);
              o_tags = words f.(8); o_posttags = words f.(9); o_productdir = false;
              o_vnamed = bool_of_field f.(7) } in
    let flavors = words f.(11) in
    let depth = nat_of_int (int_of_string f.(12)) in
    let rq = { rq_name = dec_str f.(13); rq_version = dec_opt f.(14); rq_expr = dec_opt f.(15) } in
    let prev = dec_prev f.(16) in
    let pref0 = show_entries (initial_preferred cfg) in
    (match select_vro cfg o with
     | Err k -> ["ok"; pref0; "err:" ^ err_name k]
     | Ok vro ->
       let f0 = (match flavors with x :: _ -> x | [] -> []) in
       let walk = find_from_vro vcmp_simple vmatch_simple cfg db prev f0 depth vro rq in
       let (wf_, wr) = (match walk with Some (p, r) -> (Some p, Some r) | None -> (None, None)) in
       let res = resolve_request vcmp_simple vmatch_simple cfg db o.o_keep (top_prev depth prev) flavors depth vro rq in
       let (rf, rr) = (match res with
           | Err k -> ("err:" ^ err_name k, "-")
           | Ok None -> ("-", "-")
           | Ok (Some (p, r)) -> (show_found (Some p), show_reason r)) in
       let vr = classify rq in
       let spec_in = designates_in vcmp_simple vmatch_simple cfg db rq.rq_name vr f0 vro in
       let spec = designates vcmp_simple vmatch_simple cfg db flavors depth vro rq in
       let wfok = wf_db db in
       ["ok"; pref0; show_entries vro; show_found wf_; show_reason wr; rf; rr;
        show_found spec_in; show_found spec; field_of_bool wfok])

let handle (f : String.t array) : String.t =
  match f.(0) with
  | "case" -> String.concat "\t" (case_fields f (dec_db f.(10)))
  | "caseq" ->
    (* a question put to a long-lived instance after the changes of field 17 (coq/Model/ResolveSeq.v): fields 1-16 as
       for case (field 10 the INITIAL view), 17 the changes so far, oldest first, separated by semicolons:
         A~tag~name~version~stack?   U~tag~name~version?~stack?   D~name~version~stack~tag?   X~name~version~stack?
       (an optional word is - or =word), 18 the tags to look up.
       answer: as for case, evaluated on view_after, then the view itself (as field 10), find_tagged for the tags of
       field 18 (first flavor) and find_version for the version of the request (- when none is named) *)
    let flavors = words f.(11) in
    let db = view_after flavors (dec_db f.(10)) (List.map dec_mut (split_sep ';' f.(17))) in
    let f0 = hd_flavor flavors in
    let n = dec_str f.(13) in
    let tagged = enc_list ',' (fun t -> show_found (find_tagged vcmp_simple db n t f0)) (words f.(18)) in
    let ver = (match dec_opt f.(14) with
        | Some v when not (is_expr v) -> show_found (find_version db n v f0)
        | _ -> "-") in
    String.concat "\t" (case_fields f db @ [show_db db; tagged; ver])
  | "casev" ->
    (* the same case with the comparator and the matcher of C10 (coq/Model/ResolveReal.v): fields as for case.
       answer: ok, pref0, vro, walk found, walk reason, resolve found (or err:kind), resolve reason, designates_in,
       designates, wf_db, real_domain, conv_names, real_names_ok (the last three for the names declared for the
       requested product), then for the first flavor: find_latest, latest_tie, and - when the request names an
       expression - select_latest (find_by_expr ...), expr_tie (otherwise - -).
       Outside real_domain the walk and the resolution are err:Undefined. *)
    let cfg0 = site_config (words f.(1)) [dec_str f.(2)] in
    let cfg = if f.(3) = "-" then cfg0 else { cfg0 with cfg_vro = dec_vrocfg f.(3) } in
    let o = { o_keep = bool_of_field f.(4); o_exact = bool_of_field f.(5); o_inexact = bool_of_field f.(6);
              o_tags = words f.(8); o_posttags = words f.(9); o_productdir = false;
              o_vnamed = bool_of_field f.(7) } in
    let db = dec_db f.(10) in
    let flavors = words f.(11) in
    let depth = nat_of_int (int_of_string f.(12)) in
    let rq = { rq_name = dec_str f.(13); rq_version = dec_opt f.(14); rq_expr = dec_opt f.(15) } in
    let prev = dec_prev f.(16) in
    let pref0 = show_entries (initial_preferred cfg) in
    (match select_vro cfg o with
     | Err k -> String.concat "\t" ["ok"; pref0; "err:" ^ err_name k]
     | Ok vro ->
       let f0 = (match flavors with x :: _ -> x | [] -> []) in
       let (wf_, wr) = (match walk_real cfg db prev f0 depth vro rq with
           | Err k -> ("err:" ^ err_name k, "-")
           | Ok None -> ("-", "-")
           | Ok (Some (p, r)) -> (show_found (Some p), show_reason (Some r))) in
       let (rf, rr) = (match resolve_real cfg db o.o_keep (top_prev depth prev) flavors depth vro rq with
           | Err k -> ("err:" ^ err_name k, "-")
           | Ok None -> ("-", "-")
           | Ok (Some (p, r)) -> (show_found (Some p), show_reason r)) in
       let vr = classify rq in
       let spec_in = designates_in vcmp_real vmatch_real cfg db rq.rq_name vr f0 vro in
       let spec = designates vcmp_real vmatch_real cfg db flavors depth vro rq in
       let names = names_of db rq.rq_name in
       let x = (match rq.rq_version with
           | Some v when is_expr v -> Some v
           | Some (_ :: _) -> (match rq.rq_expr with Some x when is_expr x -> Some x | _ -> None)
           | _ -> None) in
       let (xm, xs) = (match x with
           | Some x when real_domain db rq ->
             (show_found (select_latest vcmp_real (find_by_expr vmatch_real db rq.rq_name x f0)),
              show_found (expr_tie vcmp_real vmatch_real db rq.rq_name x f0))
           | _ -> ("-", "-")) in
       String.concat "\t" ["ok"; pref0; show_entries vro; wf_; wr; rf; rr;
                           show_found spec_in; show_found spec; field_of_bool (wf_db db);
                           field_of_bool (real_domain db rq); field_of_bool (conv_names names);
                           field_of_bool (real_names_ok names);
                           show_found (find_latest vcmp_real db rq.rq_name f0);
                           show_found (latest_tie vcmp_real db rq.rq_name f0); xm; xs])
  | "casex" ->
    (* the extended model (coq/Model/ResolveExt.v): user tags, --vro, LOCAL: versions / -r, tag files.
       fields 1-16 as for case, except that field 2 is the LIST of user tags (the user name among them) and the
       stacks of field 10 are id@decl@chain@userchain; then 17 the words of --vro (- = none), 18 -r given,
       19 the directories that exist, 20 the files name=line;line|name=...
       answer: ok, pref0, vro (or err:kind), walk found (or err:kind), walk reason, resolve found (or err:kind),
       resolve reason, designates_in_x (found or err:kind), wf_dbx, and the walk of Model/Resolve.v over the
       flattened stacks (found, reason) *)
    let cfg0 = site_config (words f.(1)) (words f.(2)) in
    let cfg = if f.(3) = "-" then cfg0 else { cfg0 with cfg_vro = dec_vrocfg f.(3) } in
    let o = { o_keep = bool_of_field f.(4); o_exact = bool_of_field f.(5); o_inexact = bool_of_field f.(6);
              o_tags = words f.(8); o_posttags = words f.(9); o_productdir = bool_of_field f.(18);
              o_vnamed = bool_of_field f.(7) } in
    let dec_stackx (s : String.t) : stackx =
      (match split_on_string '@' s with
       | [id; d; c; u] ->
         { sx_base = { st_id = dec_str id; st_decl = List.map dec_decl (split_sep ',' d);
                       st_chain = List.map dec_chain (split_sep ',' c) };
           sx_user = List.map dec_chain (split_sep ',' u) }
       | _ -> failwith "bad stackx") in
    let dbx = List.map dec_stackx (split_sep '|' f.(10)) in
    let flavors = words f.(11) in
    let depth = nat_of_int (int_of_string f.(12)) in
    let rq = { rq_name = dec_str f.(13); rq_version = dec_opt f.(14); rq_expr = dec_opt f.(15) } in
    let prev = dec_prev f.(16) in
    let uservro = if f.(17) = "-" then None else Some (words f.(17)) in
    let dirs = words f.(19) in
    let files = List.map (fun kv ->
        match String.index_opt kv '=' with
        | Some i -> (dec_str (String.sub kv 0 i),
                     dec_list ';' dec_str (String.sub kv (i + 1) (String.length kv - i - 1)))
        | None -> failwith "bad file") (split_sep '|' f.(20)) in
    let w = { w_db = dbx; w_dirs = dirs; w_files = files } in
    let pref0 = show_entries (initial_preferred_x cfg files) in
    let f0 = (match flavors with x :: _ -> x | [] -> []) in
    (match select_vro_w vcmp_simple vmatch_simple cfg w o uservro f0 with
     | Err k -> String.concat "\t" ["ok"; pref0; "err:" ^ err_name k]
     | Ok vro ->
       let (wf_, wr) = (match find_from_vro_x vcmp_simple vmatch_simple cfg w prev f0 depth vro rq with
           | Err k -> ("err:" ^ err_name k, "-")
           | Ok None -> ("-", "-")
           | Ok (Some (p, r)) -> (show_found (Some p), show_reason (Some r))) in
       let (rf, rr) = (match resolve_request_x vcmp_simple vmatch_simple cfg w o.o_keep (top_prev depth prev) flavors depth vro rq with
           | Err k -> ("err:" ^ err_name k, "-")
           | Ok None -> ("-", "-")
           | Ok (Some (p, r)) -> (show_found (Some p), show_reason r)) in
       let spec_in = (match designates_in_x vcmp_simple vmatch_simple cfg w rq.rq_name (classify rq) f0 vro with
           | Err k -> "err:" ^ err_name k
           | Ok o -> show_found o) in
       let (bf, br) = (match find_from_vro vcmp_simple vmatch_simple cfg (flatten cfg dbx) prev f0 depth vro rq with
           | Some (p, r) -> (show_found (Some p), show_reason (Some r))
           | None -> ("-", "-")) in
       String.concat "\t" ["ok"; pref0; show_entries vro; wf_; wr; rf; rr; spec_in;
                           field_of_bool (wf_dbx dbx); bf; br])
  | _ -> failwith "unknown op"

let () = main_loop handle
