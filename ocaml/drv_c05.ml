(* C05 driver.
   emit   sk is_eups fwd caller new aliases oldaliases forced
          -> ok  text  (ok env | err kind)  protect-env  flags      model emitter on the baseline
                                                                    (forget forced caller), its text run
                                                                    by the model shell on caller, expected
                                                                    env, hypotheses of emit_sound_forced
                                                                    (5 bits: claim names gone nodup forced)
          -> err kind                                               emitter raised
   source text env  -> ok env | err kind                            model shell alone
   lex    text      -> ok cmd|cmd (words comma separated) | err kind
   front  nv quiet cmds(comma separated)
          -> ok  stdout  (L listing | N)                            setupcmd.EupsSetup.execute at nv flags -v
   session start  then four fields per call: kind (c<is_eups><fwd> | f)  new-env  aliases  oldaliases
          -> ok  texts(comma separated)  flags(2 bits: session_in_claim session_keeps)  final-env
                 (ok env | err kind)                                api_session; its texts sourced in turn by
                                                                    the model shell from start
          -> err kind *)
let dec_env (s : string) : (ascii list * ascii list) list =
  dec_list ';' (fun kv ->
    match String.index_opt kv '=' with
    | Some i -> (dec_str (String.sub kv 0 i), dec_str (String.sub kv (i + 1) (String.length kv - i - 1)))
    | None -> (dec_str kv, [])) s
let enc_env (e : (ascii list * ascii list) list) : string =
  enc_list ';' (fun (k, v) -> enc_str k ^ "=" ^ enc_str v) e

(* old aliases: name=N (python None) or name=S<text> *)
let dec_oldal (s : string) : (ascii list * ascii list option) list =
  dec_list ';' (fun kv ->
    match String.index_opt kv '=' with
    | Some i ->
      let k = dec_str (String.sub kv 0 i) in
      let v = String.sub kv (i + 1) (String.length kv - i - 1) in
      if v = "N" then (k, None) else (k, Some (dec_str (String.sub v 1 (String.length v - 1))))
    | None -> failwith "bad old alias") s

let show_env (r : (ascii list * ascii list) list res) : string =
  match r with
  | Ok e -> "ok\t" ^ enc_env e
  | Err k -> "err\t" ^ err_name k

let sk_of (s : string) : shellkind = if s = "zsh" then Zsh else Sh

let handle (f : string array) : string =
  match f.(0) with
  | "emit" ->
    let is_eups = bool_of_field f.(2) and fwd = bool_of_field f.(3) in
    let caller = dec_env f.(4) and nw = dec_env f.(5) in
    let forced = if Array.length f > 8 then dec_strlist ',' f.(8) else [] in
    let old = forget forced caller in
    (match emit (sk_of f.(1)) is_eups fwd old nw (dec_env f.(6)) (dec_oldal f.(7)) with
     | Err k -> "err\t" ^ err_name k
     | Ok cmds ->
       let text = render cmds in
       let flags = String.concat "" (List.map field_of_bool
         [claim_env old nw; valid_names old && valid_names nw; gone_ok is_eups fwd old nw;
          nodup_keys (List.map fst nw); forced_ok forced (new_after is_eups fwd nw)]) in
       "ok\t" ^ enc_str text ^ "\t" ^ show_env (sh_source text caller) ^ "\t" ^
       enc_env (protect is_eups caller (new_after is_eups fwd nw)) ^ "\t" ^ flags)
  | "failed" ->
    let text = render emit_failed in
    "ok\t" ^ enc_str text ^ "\t" ^ show_env (sh_source text (dec_env f.(1)))
  | "source" -> show_env (sh_source (dec_str f.(1)) (dec_env f.(2)))
  | "lex" ->
    (match sh_lex (dec_str f.(1)) with
     | Ok cs -> "ok\t" ^ enc_list '|' (fun ws -> enc_list ',' enc_str ws) cs
     | Err k -> "err\t" ^ err_name k)
  | "front" ->
    let cmds = dec_strlist ',' f.(3) in
    let (out, lst) = front_end (nat_of_int (int_of_string f.(1))) (bool_of_field f.(2)) cmds in
    "ok\t" ^ enc_str out ^ "\t" ^ (match lst with Some l -> "L" ^ enc_str l | None -> "N")
  | "session" ->
    let start = dec_env f.(1) in
    let n = (Array.length f - 2) / 4 in
    let calls = Stdlib.List.init n (fun i ->
      let k = f.(2 + 4 * i) and nw = dec_env f.(3 + 4 * i) in
      if k = "f" then Failed nw
      else Call (k.[1] = '1', k.[2] = '1', nw, dec_env f.(4 + 4 * i), dec_oldal f.(5 + 4 * i))) in
    (match api_session start calls with
     | Err k -> "err\t" ^ err_name k
     | Ok steps ->
       let texts = Stdlib.List.map snd steps in
       "ok\t" ^ enc_list ',' enc_str texts ^ "\t" ^
       field_of_bool (session_in_claim start calls) ^ field_of_bool (session_keeps start calls) ^ "\t" ^
       enc_env (session_final start calls) ^ "\t" ^ show_env (sh_chain texts start))
  | _ -> failwith "unknown op"

let () = main_loop handle
