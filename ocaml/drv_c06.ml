(* C06 driver.  One history per line:
     hist TAB pinned TAB path(,) TAB op|op|... TAB names(,);tags(,);flavors(,)
   op = kind,flavor,stack,force,noaction,args...   with ~ for an absent optional string
     D,f,s,F,N,n,v,dir,table,tag     Declare
     A,f,s,F,N,t,n,v                 AssignTag
     U,f,s,F,N,t,n,v                 UnassignTag
     X,f,s,F,N,n,v                   Undeclare
     T,f,s,F,N,n,v,t,both            UndeclareTag
     R,f,s,F,N,n,v                   Remove
   output: one TAB-separated segment per op:
     outcome#decls#tags#dirs#vfiles#cfiles#resolve#neffects   lists ;-separated, items ,-separated *)
let opt (s : Stdlib.String.t) : ascii list option = if s = "~" then None else Some (dec_str s)
let eopt (o : ascii list option) : Stdlib.String.t = match o with None -> "~" | Some x -> enc_str x

let dec_op (s : Stdlib.String.t) : op =
  let a = Array.of_list (String.split_on_char ',' s) in
  let o = { o_flavor = dec_str a.(1); o_stack = opt a.(2); o_force = bool_of_field a.(3);
            o_noaction = bool_of_field a.(4) } in
  match a.(0) with
  | "D" -> Declare (o, dec_str a.(5), dec_str a.(6), opt a.(7), opt a.(8), opt a.(9))
  | "A" -> AssignTag (o, dec_str a.(5), dec_str a.(6), dec_str a.(7))
  | "U" -> UnassignTag (o, dec_str a.(5), dec_str a.(6), opt a.(7))
  | "X" -> Undeclare (o, dec_str a.(5), opt a.(6))
  | "T" -> UndeclareTag (o, dec_str a.(5), opt a.(6), dec_str a.(7), bool_of_field a.(8))
  | "R" -> Remove (o, dec_str a.(5), dec_str a.(6))
  | _ -> failwith "bad op"

let cat sep l = Stdlib.String.concat sep l

(* extended histories (Model/DbExt.v):
     xhist TAB path(,) TAB read-only stacks(,) TAB texts path=text;... TAB op|op|... TAB universe
   a declaration is  D,f,s,F,N,n,v,dir,tk,targ,tag,ext  with tk = d (default) p (path targ) n (none) s (stream, text targ)
   and ext = src>out+src>out or ~ ; every other op as in hist.  The tags of the universe are the tags the
   installation recognises (Model/DbExt.v kstep).
   output per op: outcome#decls#tags#dirs#vfiles#cfiles#resolve#xfiles#neffects with xfiles = path=text;... *)
let dec_xop (s : Stdlib.String.t) : xop =
  let a = Array.of_list (String.split_on_char ',' s) in
  match a.(0) with
  | "D" ->
    let o = { o_flavor = dec_str a.(1); o_stack = opt a.(2); o_force = bool_of_field a.(3);
              o_noaction = bool_of_field a.(4) } in
    let tb = (match a.(8) with
        | "d" -> TDefault | "p" -> TPath (dec_str a.(9)) | "n" -> TNone | "s" -> TStream (dec_str (if a.(9) = "~" then "" else a.(9)))
        | _ -> failwith "bad table spec") in
    let ext = if a.(11) = "~" then [] else
        List.map (fun it -> match Stdlib.String.split_on_char '>' it with
            | [x; y] -> (dec_str x, dec_str y) | _ -> failwith "bad ext") (Stdlib.String.split_on_char '+' a.(11)) in
    XDeclare (o, dec_str a.(5), dec_str a.(6), opt a.(7), tb, opt a.(10), ext)
  | _ -> XOld (dec_op s)

let dec_pairs (s : Stdlib.String.t) : (ascii list * ascii list) list =
  if s = "" then [] else
  List.map (fun kv -> match Stdlib.String.split_on_char '=' kv with
      | [k; v] -> (dec_str k, dec_str v) | [k] -> (dec_str k, []) | _ -> failwith "bad pair") (Stdlib.String.split_on_char ';' s)

let show_state (univ : (ascii list list * ascii list list) * ascii list list) (d : db) : Stdlib.String.t =
  let a = view d in
  let ((names, tags_u), flavs) = univ in
  let resolve = List.concat_map (fun n -> List.concat_map (fun t -> List.concat_map (fun f ->
      match find_tagged a a.apath n t f with
      | Some (s, v) -> [cat "," [enc_str n; enc_str t; enc_str f; enc_str s; enc_str v]]
      | None -> []) flavs) tags_u) names in
  let decls = List.map (fun ((((s, n), v), f), (dir, tb)) ->
      cat "," [enc_str s; enc_str n; enc_str v; enc_str f; enc_str dir; enc_str tb]) a.adecls in
  let tags = List.map (fun ((((s, n), t), f), v) ->
      cat "," [enc_str s; enc_str n; enc_str t; enc_str f; enc_str v]) a.atags in
  let l = listing d in
  let dirs = List.concat_map (fun (s, ((ds, _), _)) -> List.map (fun n -> cat "," [enc_str s; enc_str n]) ds) l in
  let vks = List.concat_map (fun (s, ((_, vk), _)) ->
      List.map (fun (n, v) -> cat "," [enc_str s; enc_str n; enc_str v]) vk) l in
  let cks = List.concat_map (fun (s, ((_, _), ck)) ->
      List.map (fun (n, t) -> cat "," [enc_str s; enc_str n; enc_str t]) ck) l in
  cat "#" [cat ";" decls; cat ";" tags; cat ";" dirs; cat ";" vks; cat ";" cks; cat ";" resolve]

let handle (f : Stdlib.String.t array) : Stdlib.String.t =
  match f.(0) with
  | "hist" ->
    let pinned = bool_of_field f.(1) in
    let path = dec_strlist ',' f.(2) in
    let ops = List.map dec_op (split_sep '|' f.(3)) in
    let univ = (match Stdlib.String.split_on_char ';' f.(4) with
        | [a; b; c] -> ((dec_strlist ',' a, dec_strlist ',' b), dec_strlist ',' c)
        | _ -> failwith "bad universe") in
    let show_state = show_state univ in
    let d = ref (empty_db path) in
    let out = List.map (fun o ->
        match effects_gen pinned !d o with
        | Ok es ->
          d := apply es !d;
          cat "#" ["ok"; show_state !d; string_of_int (List.length es)]
        | Err k -> cat "#" ["err:" ^ err_name k; show_state !d; "0"]) ops in
    cat "\t" out
  | "xhist" ->
    let path = dec_strlist ',' f.(1) in
    let e = { e_ro = dec_strlist ',' f.(2); e_text = dec_pairs f.(3) } in
    let ops = List.map dec_xop (split_sep '|' f.(4)) in
    let univ = (match Stdlib.String.split_on_char ';' f.(5) with
        | [a; b; c] -> ((dec_strlist ',' a, dec_strlist ',' b), dec_strlist ',' c)
        | _ -> failwith "bad universe") in
    let show x = cat "#" [show_state univ x.xd;
                          cat ";" (List.map (fun (k, v) -> enc_str k ^ "=" ^ enc_str v) x.xfiles)] in
    (* the tags of the universe are the registered ones: a command naming another tag is refused (kstep) *)
    let known = snd (fst univ) in
    let x = ref (xempty path) in
    let out = List.map (fun o ->
        match kstep known e !x o with
        | Ok x' -> x := x'; cat "#" ["ok"; show !x; "0"]
        | Err k -> cat "#" ["err:" ^ err_name k; show !x; "0"]) ops in
    cat "\t" out
  | _ -> failwith "unknown request"

let () = main_loop handle
