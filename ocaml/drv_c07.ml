(* C07 driver.  One case per line:
     case TAB v_rm TAB v_init TAB path(,) TAB names(,);versions(,);tags(,);flavors(,);usertags(,);user=tag,tag+user=tag,tag TAB proc|proc|...
          TAB v_uloc TAB v_ustale TAB v_noread TAB v_shared TAB v_foreign (1: a flavor the stack was not loaded for is answered: not declared)
          TAB v_reloadall (1: ensureInSync reloads every flavor that has a cache file in the directory; 0: the flavors held)
   proc = P;user;admin;flavor;crash;q;op&op&...      crash = ~ or i,g,b     q = 0/1    admin = 0/1
        | X;loc;stack;flavor                  an outside deletion of a cache file
        | S;user;flavor;step&step&...         a session: several live instances of one user in one process
                                              step = N (one more instance) | O@i@op (instance i runs op) | T@i (instance i
                                              parses a table on demand) | Q@i (instance i is asked)
          its segment: outcomes(,) of the steps # records # pickles # (empty) # block@block... # userrecords,
          one block per Q step: step index > loaded > answers > records at that step > stacks with an untracked cache file (asked instance) > the same for any live instance (diagnostic only: not read by the harness)
   op   = an operation in the format of the C06 driver, or  DC,loc,stack,flavor
          or UA,flavor,... / UP,flavor,stack,force,noaction,tag,name,version (UP: planted in the tag directory)  /  UU,flavor,stack,force,noaction,tag,name,version|~
   output: one TAB-separated segment per proc:
     outcomes(,)#records(;)#pickles(;)#loaded(;)#answers(;)#userrecords(;)
     record  = stack,kind,name,key,stamp            kind D / V / C
     pickle  = loc,stack,flavor,stamp,content       content = family+family..., family = name!v:dir:table^...!t:v^...!ut:v^...
     loaded  = stack=flavor,flavor,...
     answer  = kind,mode,fields...                  mode c (through the cache) / f (from the files)
     userrecord = user,stack,kind,name,key,stamp    kind D / C: the tag directories *)
let opt (s : Stdlib.String.t) : ascii list option = if s = "~" then None else Some (dec_str s)

let dec_op (s : Stdlib.String.t) : op =
  let a = Array.of_list (Stdlib.String.split_on_char ',' s) in
  let o = { o_flavor = dec_str a.(1); o_stack = opt a.(2); o_force = bool_of_field a.(3);
            o_noaction = bool_of_field a.(4) } in
  match a.(0) with
  | "D" -> Declare (o, dec_str a.(5), dec_str a.(6), opt a.(7), opt a.(8), opt a.(9))
  | "A" -> AssignTag (o, dec_str a.(5), dec_str a.(6), dec_str a.(7))
  | "U" -> UnassignTag (o, dec_str a.(5), dec_str a.(6), opt a.(7))
  | "X" -> Undeclare (o, dec_str a.(5), opt a.(6))
  | "T" -> UndeclareTag (o, dec_str a.(5), opt a.(6), dec_str a.(7), bool_of_field a.(8))
  | "R" -> Remove (o, dec_str a.(5), dec_str a.(6))
  | _ -> failwith "bad op"

let dec_pop (s : Stdlib.String.t) : pop =
  let pre k = Stdlib.String.length s >= 3 && Stdlib.String.sub s 0 3 = k in
  if pre "DC," then
    (match Stdlib.String.split_on_char ',' s with
     | [_; l; st; f] -> PDel (dec_str l, dec_str st, dec_str f)
     | _ -> failwith "bad DC")
  else if pre "UA," || pre "UU," || pre "UP," then begin
    let a = Array.of_list (Stdlib.String.split_on_char ',' s) in
    let o = { o_flavor = dec_str a.(1); o_stack = opt a.(2); o_force = bool_of_field a.(3);
              o_noaction = bool_of_field a.(4) } in
    if a.(0) = "UA" then PUAssign (o, dec_str a.(5), dec_str a.(6), dec_str a.(7))
    else if a.(0) = "UP" then PUPlant (o, dec_str a.(5), dec_str a.(6), dec_str a.(7))
    else PUUnassign (o, dec_str a.(5), dec_str a.(6), opt a.(7))
  end
  else POp (dec_op s)

let cat sep l = Stdlib.String.concat sep l
let nat_s n = string_of_int (int_of_nat n)

let show_records (w : world) : Stdlib.String.t =
  let stamp k = match glookup rkey_eqb k w.w_stamps with Some t -> nat_s t | None -> "0" in
  cat ";" (Stdlib.List.concat_map (fun (s, st) ->
    Stdlib.List.map (fun n -> cat "," [enc_str s; "D"; enc_str n; "%"; stamp (RDir (s, n))]) st.dirs
    @ Stdlib.List.map (fun ((n, v), _) -> cat "," [enc_str s; "V"; enc_str n; enc_str v; stamp (RVer (s, (n, v)))]) st.vfiles
    @ Stdlib.List.map (fun ((n, t), _) -> cat "," [enc_str s; "C"; enc_str n; enc_str t; stamp (RChain (s, (n, t)))]) st.cfiles)
    w.w_db)

let show_urecords (w : world) : Stdlib.String.t =
  let stamp k = match glookup rkey_eqb k w.w_stamps with Some t -> nat_s t | None -> "0" in
  cat ";" (Stdlib.List.concat_map (fun (k, t) ->
      match k with
      | RUDir (u, s, n) -> [cat "," [enc_str u; enc_str s; "D"; enc_str n; "%"; nat_s t]]
      | _ -> []) w.w_stamps
    @ Stdlib.List.map (fun ((((u, s), n), t), _) ->
        cat "," [enc_str u; enc_str s; "C"; enc_str n; enc_str t; stamp (RUChain (u, s, (n, t)))]) w.w_uc)

let show_fdata (fd : (ascii list * family) list) : Stdlib.String.t =
  cat "+" (Stdlib.List.map (fun (n, fm) ->
    cat "!" [enc_str n;
             cat "^" (Stdlib.List.map (fun (v, (d, tb)) -> cat ":" [enc_str v; enc_str d; enc_str tb]) fm.f_versions);
             cat "^" (Stdlib.List.map (fun (t, v) -> cat ":" [enc_str t; enc_str v]) fm.f_tags);
             cat "^" (Stdlib.List.map (fun (t, v) -> cat ":" [enc_str t; enc_str v]) fm.f_utags)]) fd)

let show_pickles (w : world) : Stdlib.String.t =
  cat ";" (Stdlib.List.map (fun (((l, s), f), p) ->
    cat "," [enc_str l; enc_str s; enc_str f; nat_s p.pk_stamp; show_fdata p.pk_data]) w.w_pickles)

let show_loaded (m : (ascii list * pstack) list) : Stdlib.String.t =
  cat ";" (Stdlib.List.map (fun (s, ps) ->
    enc_str s ^ "=" ^ cat "," (Stdlib.List.map (fun (f, _) -> enc_str f) ps.ps_lookup)) m)

let answers (pin_foreign : bool) (path, names, versions, tags) (utags : ascii list list) (own : ascii list list) (u : ascii list) (qfl : ascii list list) (w : world)
    (m : (ascii list * pstack) list) : Stdlib.String.t =
  let out = ref [] in
  let add l = out := cat "," l :: !out in
  (* user tags.  Through the cache: the user:t entries of the loaded families.  From the files: product.tags lists
     user:t for the chain files of the tag directory (UH); findTaggedProduct(t) reads a chain file of that name
     among the stack's own first, then the tag directory (UT, UG) *)
  let ucache q = if pin_foreign then uq_cache m q else uq_served w m u q in
  let umodes = [("c", ucache, ucache);
                ("f", (fun q -> uq_db w u q), (fun q -> uq_files w u q))] in
  Stdlib.List.iter (fun (mode, askh, askt) ->
    Stdlib.List.iter (fun n -> Stdlib.List.iter (fun f -> Stdlib.List.iter (fun t ->
      Stdlib.List.iter (fun s ->
        Stdlib.List.iter (fun v ->
          match askh (UQHasTag (s, n, v, t, f)) with
          | ABool true -> add ["UH"; mode; enc_str s; enc_str n; enc_str v; enc_str t; enc_str f]
          | _ -> ()) versions;
        (match askt (UQTagged (s, n, t, f)) with
         | AVer (Some v) -> add ["UT"; mode; enc_str s; enc_str n; enc_str t; enc_str f; enc_str v]
         | _ -> ())) path;
      (match askt (UQFindTagged (n, t, f)) with
       | AStackVer (Some (s, v)) -> add ["UG"; mode; enc_str n; enc_str t; enc_str f; enc_str s; enc_str v]
       | _ -> ())) own) qfl) names) umodes;
  let modes = [("c", (fun q -> if pin_foreign then q_cache m q else q_served w m q)); ("f", (fun q -> q_db w q))] in
  Stdlib.List.iter (fun (mode, ask) ->
    Stdlib.List.iter (fun n -> Stdlib.List.iter (fun f ->
      Stdlib.List.iter (fun v ->
        Stdlib.List.iter (fun s ->
          (match ask (QDeclared (s, n, v, f)) with ABool true -> add ["E"; mode; enc_str s; enc_str n; enc_str v; enc_str f] | _ -> ());
          (match ask (QDir (s, n, v, f)) with
           | ARec (Some (d, tb)) -> add ["D"; mode; enc_str s; enc_str n; enc_str v; enc_str f; enc_str d; enc_str tb]
           | _ -> ());
          (* product.tags lists every chain file of the stack, whatever its name: also one named like a user tag *)
          Stdlib.List.iter (fun t ->
            match ask (QHasTag (s, n, v, t, f)) with
            | ABool true -> add ["H"; mode; enc_str s; enc_str n; enc_str v; enc_str t; enc_str f]
            | _ -> ()) (tags @ utags)) path;
        (match ask (QFind (n, v, f)) with
         | AStackRec (Some (s, (d, tb))) -> add ["F"; mode; enc_str n; enc_str v; enc_str f; enc_str s; enc_str d; enc_str tb]
         | _ -> ())) versions;
      Stdlib.List.iter (fun t ->
        Stdlib.List.iter (fun s ->
          match ask (QTagged (s, n, t, f)) with
          | AVer (Some v) -> add ["T"; mode; enc_str s; enc_str n; enc_str t; enc_str f; enc_str v]
          | _ -> ()) path;
        (match ask (QFindTagged (n, t, f)) with
         | AStackVer (Some (s, v)) -> add ["G"; mode; enc_str n; enc_str t; enc_str f; enc_str s; enc_str v]
         | _ -> ())) tags) qfl) names) modes;
  cat ";" (Stdlib.List.rev !out)

let show_outcome (o : outcome) : Stdlib.String.t =
  match o with
  | OOk -> "ok" | OErr k -> "err:" ^ err_name k | ORaised -> "raised" | OCrashed -> "crashed"

let rec uniq_l = function [] -> [] | x :: r -> x :: uniq_l (Stdlib.List.filter (fun y -> y <> x) r)

let handle (f : Stdlib.String.t array) : Stdlib.String.t =
  match f.(0) with
  | "case" ->
    let flag i = Array.length f > i && bool_of_field f.(i) in
    let vr = { v_rm = bool_of_field f.(1); v_init = bool_of_field f.(2); v_uloc = flag 6; v_ustale = flag 7;
               v_noread = flag 8; v_shared = flag 9 } in
    let path = dec_strlist ',' f.(3) in
    let (univ, allfl, utags) = (match Stdlib.String.split_on_char ';' f.(4) with
        | [a; b; c; d] -> ((path, dec_strlist ',' a, dec_strlist ',' b, dec_strlist ',' c), dec_strlist ',' d, [])
        | [a; b; c; d; e] -> ((path, dec_strlist ',' a, dec_strlist ',' b, dec_strlist ',' c), dec_strlist ',' d,
                              dec_strlist ',' e)
        | [a; b; c; d; e; _] -> ((path, dec_strlist ',' a, dec_strlist ',' b, dec_strlist ',' c), dec_strlist ',' d,
                                 dec_strlist ',' e)
        | _ -> failwith "bad universe") in
    (* the user tags every user has registered: user=tag,tag+user=tag,tag (a reader asks about his own) *)
    let own_tags (u : ascii list) : ascii list list =
      match Stdlib.String.split_on_char ';' f.(4) with
      | [_; _; _; _; all; per] ->
        (try
           let entry = Stdlib.List.find (fun e -> match Stdlib.String.split_on_char '=' e with
               | [x; _] -> dec_str x = u | _ -> false) (split_sep '+' per) in
           (match Stdlib.String.split_on_char '=' entry with [_; l] -> dec_strlist ',' l | _ -> [])
         with Not_found -> [])
      | [_; _; _; _; all] -> dec_strlist ',' all
      | _ -> [] in
    let w = ref (init_world path) in
    let segs = Stdlib.List.map (fun ps ->
        let a = Array.of_list (Stdlib.String.split_on_char ';' ps) in
        match a.(0) with
        | "X" ->
          w := delete_cache !w (dec_str a.(1)) (dec_str a.(2)) (dec_str a.(3));
          cat "#" ["ok"; show_records !w; show_pickles !w; ""; ""; show_urecords !w]
        | "P" ->
          let crash = (if a.(4) = "~" then None else
                         match Stdlib.String.split_on_char ',' a.(4) with
                         | [i; g; b] -> Some ((nat_of_int (int_of_string i), nat_of_int (int_of_string g)), bool_of_field b)
                         | _ -> failwith "bad crash") in
          let fl = dec_str a.(3) in
          let u = dec_str a.(1) in
          let p = { p_user = u; p_admin = bool_of_field a.(2); p_flavor = fl;
                    p_ops = Stdlib.List.map dec_pop (split_sep '&' a.(6)); p_crash = crash } in
          let ((w', m), ocs) = run_proc_S vr !w p in
          w := w';
          let crashed = Stdlib.List.exists (fun o -> o = OCrashed) ocs in
          (* every flavor of the universe is asked about, consulted by this instance or not *)
          let ans = if a.(5) = "1" && not crashed then answers (flag 10) univ utags (own_tags u) u (uniq_l (fallbacks fl @ allfl)) w' m else "" in
          cat "#" [cat "," (Stdlib.List.map show_outcome ocs); show_records w'; show_pickles w';
                   (if crashed then "" else show_loaded m); ans; show_urecords w']
        | "S" ->
          let u = dec_str a.(1) in
          let fl = dec_str a.(2) in
          let ms = ref [] in
          let blocks = ref [] in
          let ocs = Stdlib.List.mapi (fun k st ->
              let b = Array.of_list (Stdlib.String.split_on_char '@' st) in
              let idx () = nat_of_int (int_of_string b.(1)) in
              let step = (match b.(0) with
                  | "N" -> LNew
                  | "O" -> LOp (idx (), dec_pop b.(2))
                  | "T" -> LTable (idx ())
                  | "Q" -> LAsk (idx ())
                  | _ -> failwith "bad step") in
              let ((w', ms'), oc) = run_lstep_S vr (flag 11) u fl !w !ms step in
              w := w'; ms := ms';
              (if b.(0) = "Q" then
                 match Stdlib.List.nth_opt ms' (int_of_string b.(1)) with
                 | Some m ->
                   blocks := cat ">" [string_of_int k; show_loaded m;
                                      answers (flag 10) univ utags (own_tags u) u (uniq_l (fallbacks fl @ allfl)) w' m;
                                      show_records w';
                                      (* the stacks for which the instance holds a flavor whose cache file in its own
                                         directory exists and was neither loaded nor written by it (it loaded from the
                                         shared files of ups_db): ensureInSync does not look at such a file *)
                                      cat "," (Stdlib.List.filter_map (fun (s, ps) ->
                                          if Stdlib.List.exists (fun (f, _) ->
                                              glookup key_eqb (u, f) ps.ps_modtimes = None && pk_get w' u s f <> None) ps.ps_lookup
                                          then Some (enc_str s) else None) m);
                                      (* the same, for any live instance of the session *)
                                      cat "," (uniq_l (Stdlib.List.concat_map (fun mi ->
                                          Stdlib.List.filter_map (fun (s, ps) ->
                                              if Stdlib.List.exists (fun (f, _) ->
                                                  glookup key_eqb (u, f) ps.ps_modtimes = None && pk_get w' u s f <> None) ps.ps_lookup
                                              then Some (enc_str s) else None) mi) ms'))] :: !blocks
                 | None -> ());
              show_outcome oc) (split_sep '&' a.(3)) in
          cat "#" [cat "," ocs; show_records !w; show_pickles !w; ""; cat "@" (Stdlib.List.rev !blocks); show_urecords !w]
        | _ -> failwith "bad proc") (split_sep '|' f.(5)) in
    cat "\t" segs
  | _ -> failwith "unknown request"

let () = main_loop handle
