(* C08 driver.
   line:  crash <TAB> protocol(atomic|inplace) <TAB> fs <TAB> effects <TAB> k
   fs:      path=D | path=F:line,line,...   joined by ';'
   effects: W:path:line,line,... | R:path | M:path | X:path   joined by ';'
   answer:  the non-temporary entries of the crash state, in the fs encoding, sorted by path
   line:  effects <TAB> pinned <TAB> path(,) <TAB> op|op|... (the history, may be empty) <TAB> op
   op as in the C06 driver: kind,flavor,stack,force,noaction,args...  with ~ for an absent optional string
   answer:  ok#K:path;K:path;...  the record-level effects (Model/CrashDb.image of Db.effects) of the last op on the
            state the model reaches by the history: K = W (write) R (remove) M (mkdir) X (rmdir);  or err:Kind
   line:  crashview <TAB> pinned <TAB> path(,) <TAB> history <TAB> op <TAB> j [<TAB> K:path;K:path;...]
          with the optional last field the effects of op are first put in that (observed) order: the listed effects,
          each matched with the first unused effect of op of the same kind and path, then the others; j is then the
          number of listed effects; the answer is no-such-effect when one of them is not an effect of op
   answer:  what Model/CrashDb.read_db reports on the store built by the history (store_of) after the system calls
            of the first j record-level effects of op under the temporary+rename protocol (crash_fs):
            ok#n,v,flavor,dir,tag+tag;...#n,tag,flavor,v;...   one row per declaration with the tags that point at
            it, then every tag assignment;  or reader-raises
   line:  helper <TAB> place(same|other) <TAB> n
   answer:  the kinds of the system calls that Model/CrashXdev.lower_atomic_at performs on the target name (not on the
            temporary one) for one write of an n-line record, in order, joined by ',':  rename  when the temporary
            file is on the target's file system;  open,write*n,close  when it is not
   line:  unwind <TAB> style(skip|commit)
   answer:  calls: followed by the kinds of the system calls Model/CrashCache.helper_unwind performs on the target name when the body of
            the helper's with statement raised: nothing for the helper as it is, rename for one that commits in its exit
   line:  persists <TAB> autosave(0|1) <TAB> flavor,flavor,... <TAB> flavor,product,version;...
   answer:  files:flavor:rows;...  the cache files Model/CrashCache.persists writes during the rebuild at start-up, in order,
            each with the number of rows it holds; the declarations are given in the order the rebuild adds them: with
            autosave off the files are those of the flavors of the declarations in the order first met, then of the
            loaded flavors not among them (Model/CrashCache.saved_flavors) *)
let dec_lines (s : Stdlib.String.t) = dec_list ',' dec_str s
let enc_lines l = enc_list ',' enc_str l

let dec_fs (s : Stdlib.String.t) =
  dec_list ';' (fun e ->
    let i = Stdlib.String.index e '=' in
    let p = dec_str (Stdlib.String.sub e 0 i) in
    let v = Stdlib.String.sub e (i + 1) (Stdlib.String.length e - i - 1) in
    if v = "D" then (p, Dir)
    else (p, File (dec_lines (Stdlib.String.sub v 2 (Stdlib.String.length v - 2))))) s

let enc_fs f =
  let items = Stdlib.List.filter_map (fun (p, n) ->
    if is_tmp p then None else
    Some (string_of_str p, (match n with Dir -> "D" | File c -> "F:" ^ enc_lines c))) f in
  let items = Stdlib.List.sort compare items in
  Stdlib.String.concat ";" (Stdlib.List.map (fun (p, v) -> enc p ^ "=" ^ v) items)

let dec_effect (s : Stdlib.String.t) =
  match Stdlib.String.split_on_char ':' s with
  | ["W"; p; ls] -> EWrite (dec_str p, dec_lines ls)
  | ["W"; p] -> EWrite (dec_str p, [])
  | ["R"; p] -> ERemove (dec_str p)
  | ["M"; p] -> EMkdir (dec_str p)
  | ["X"; p] -> ERmdir (dec_str p)
  | _ -> failwith "bad effect"

let opt (s : Stdlib.String.t) : ascii list option = if s = "~" then None else Some (dec_str s)

let dec_op (s : Stdlib.String.t) : op =
  let a = Array.of_list (Stdlib.String.split_on_char ',' s) in
  let o = { o_flavor = dec_str a.(1); o_stack = opt a.(2); o_force = bool_of_field a.(3);
            o_noaction = bool_of_field a.(4) } in
  match a.(0) with
  | "D" -> Declare (o, dec_str a.(5), dec_str a.(6), opt a.(7), opt a.(8), opt a.(9))
  | "A" -> AssignTag (o, dec_str a.(5), dec_str a.(6), dec_str a.(7))
  | "U" -> UnassignTag (o, dec_str a.(5), dec_str a.(6), opt a.(7))
  | "X" -> Undeclare (o, dec_str a.(5), opt a.(6))
  | "T" -> UndeclareTag (o, dec_str a.(5), opt a.(6), dec_str a.(7), bool_of_field a.(8))
  | "R" -> Remove (o, dec_str a.(5), dec_str a.(6))
  | _ -> failwith "bad op"

let show_effect (e : effect) : Stdlib.String.t =
  match e with
  | EWrite (p, _) -> "W:" ^ enc_str p
  | ERemove p -> "R:" ^ enc_str p
  | EMkdir p -> "M:" ^ enc_str p
  | ERmdir p -> "X:" ^ enc_str p

let handle (f : Stdlib.String.t array) : Stdlib.String.t =
  match f.(0) with
  | "effects" ->
    let pinned = bool_of_field f.(1) in
    let path = dec_strlist ',' f.(2) in
    let hist = Stdlib.List.map dec_op (split_sep '|' f.(3)) in
    let d = run pinned (empty_db path) hist in
    (match effects_gen pinned d (dec_op f.(4)) with
     | Ok es -> "ok#" ^ Stdlib.String.concat ";" (Stdlib.List.map (fun e -> show_effect (image e)) es)
     | Err k -> "err:" ^ err_name k)
  | "crashview" ->
    let pinned = bool_of_field f.(1) in
    let path = dec_strlist ',' f.(2) in
    let hist = Stdlib.List.map dec_op (split_sep '|' f.(3)) in
    let d = run pinned (empty_db path) hist in
    let es = (match effects_gen pinned d (dec_op f.(4)) with Ok es -> es | Err _ -> []) in
    let rec pick o = function
      | [] -> None
      | e :: r -> if show_effect (image e) = o then Some (e, r)
                  else (match pick o r with Some (x, r') -> Some (x, e :: r') | None -> None) in
    let rec order obs es acc = match obs with
      | [] -> Some (Stdlib.List.rev acc @ es)
      | o :: r -> (match pick o es with Some (e, es') -> order r es' (e :: acc) | None -> None) in
    let obs = if Array.length f > 6 then Some (split_sep ';' f.(6)) else None in
    let reordered = (match obs with None -> Some es | Some l -> order l es []) in
    (match reordered with None -> "no-such-effect" | Some es ->
    let j = (match obs with None -> int_of_string f.(5) | Some l -> Stdlib.List.length l) in
    let rec take n l = if n <= 0 then [] else (match l with [] -> [] | x :: r -> x :: take (n - 1) r) in
    let pos = Stdlib.List.length (lower_all lower_atomic (Stdlib.List.map image (take j es))) in
    (match read_db path (crash_fs (store_of path hist) es (nat_of_int pos)) with
     | Err _ -> "reader-raises"
     | Ok d' ->
       let a = view d' in
       let rows = Stdlib.List.map (fun ((((s, n), v), fl), (dir, _)) ->
           let tags = Stdlib.List.filter_map (fun ((((s', n'), t), fl'), v') ->
               if s' = s && n' = n && fl' = fl && v' = v then Some (enc_str t) else None) a.atags in
           Stdlib.String.concat "," [enc_str n; enc_str v; enc_str fl; enc_str dir; Stdlib.String.concat "+" tags])
           a.adecls in
       let tags = Stdlib.List.map (fun ((((_, n), t), fl), v) ->
           Stdlib.String.concat "," [enc_str n; enc_str t; enc_str fl; enc_str v]) a.atags in
       "ok#" ^ Stdlib.String.concat ";" rows ^ "#" ^ Stdlib.String.concat ";" tags))
  | "crash" ->
    let lower = if f.(1) = "atomic" then lower_atomic else lower_inplace in
    enc_fs (crash_state lower (dec_fs f.(2)) (Stdlib.List.map dec_effect (split_sep ';' f.(3)))
              (nat_of_int (int_of_string f.(4))))
  | "helper" ->
    let place = (match f.(1) with "same" -> SameFs | "other" -> OtherFs | _ -> failwith "bad place") in
    let n = int_of_string f.(2) in
    let rec lines i = if i <= 0 then [] else dec_str "x" :: lines (i - 1) in
    let kinds = target_kinds place (EWrite (dec_str "ups_db/cache", lines n)) in
    Stdlib.String.concat "," (Stdlib.List.map (function
      | KOpen -> "open" | KWrite -> "write" | KClose -> "close" | KRename -> "rename" | KUnlink -> "unlink"
      | KMkdir -> "mkdir" | KRmdir -> "rmdir") kinds)
  | "unwind" ->
    let st = (match f.(1) with "skip" -> SkipOnRaise | "commit" -> CommitOnRaise | _ -> failwith "bad style") in
    let calls = helper_unwind st (dec_str "ups_db/cache") in
    let kinds = Stdlib.List.filter_map (fun s -> let (p, k) = sys_target s in if is_tmp p then None else Some k) calls in
    "calls:" ^ Stdlib.String.concat "," (Stdlib.List.map (function
      | KOpen -> "open" | KWrite -> "write" | KClose -> "close" | KRename -> "rename" | KUnlink -> "unlink"
      | KMkdir -> "mkdir" | KRmdir -> "rmdir") kinds)
  | "persists" ->
    let fls = if f.(2) = "" then [] else dec_strlist ',' f.(2) in
    let db = if f.(3) = "" then [] else Stdlib.List.map (fun r ->
        match split_sep ',' r with
        | [a; b; c] -> ((dec_str a, dec_str b), dec_str c)
        | _ -> failwith "bad row") (split_sep ';' f.(3)) in
    let l = persists (f.(1) = "1") fls db in
    "files:" ^ Stdlib.String.concat ";" (Stdlib.List.map (fun (fl, (_, rows)) ->
      enc_str fl ^ ":" ^ string_of_int (Stdlib.List.length rows)) l)
  | _ -> failwith "unknown op"

let () = main_loop handle
