(* C08 driver.
   line:  crash <TAB> protocol(atomic|inplace) <TAB> fs <TAB> effects <TAB> k
   fs:      path=D | path=F:line,line,...   joined by ';'
   effects: W:path:line,line,... | R:path | M:path | X:path   joined by ';'
   answer:  the non-temporary entries of the crash state, in the fs encoding, sorted by path *)
let dec_lines (s : Stdlib.String.t) = dec_list ',' dec_str s
let enc_lines l = enc_list ',' enc_str l

let dec_fs (s : Stdlib.String.t) =
  dec_list ';' (fun e ->
    let i = Stdlib.String.index e '=' in
    let p = dec_str (Stdlib.String.sub e 0 i) in
    let v = Stdlib.String.sub e (i + 1) (Stdlib.String.length e - i - 1) in
    if v = "D" then (p, Dir)
    else (p, File (dec_lines (Stdlib.String.sub v 2 (Stdlib.String.length v - 2))))) s

let enc_fs f =
  let items = Stdlib.List.filter_map (fun (p, n) ->
    if is_tmp p then None else
    Some (string_of_str p, (match n with Dir -> "D" | File c -> "F:" ^ enc_lines c))) f in
  let items = Stdlib.List.sort compare items in
  Stdlib.String.concat ";" (Stdlib.List.map (fun (p, v) -> enc p ^ "=" ^ v) items)

let dec_effect (s : Stdlib.String.t) =
  match Stdlib.String.split_on_char ':' s with
  | ["W"; p; ls] -> EWrite (dec_str p, dec_lines ls)
  | ["W"; p] -> EWrite (dec_str p, [])
  | ["R"; p] -> ERemove (dec_str p)
  | ["M"; p] -> EMkdir (dec_str p)
  | ["X"; p] -> ERmdir (dec_str p)
  | _ -> failwith "bad effect"

let handle (f : Stdlib.String.t array) : Stdlib.String.t =
  match f.(0) with
  | "crash" ->
    let lower = if f.(1) = "atomic" then lower_atomic else lower_inplace in
    enc_fs (crash_state lower (dec_fs f.(2)) (Stdlib.List.map dec_effect (split_sep ';' f.(3)))
              (nat_of_int (int_of_string f.(4))))
  | _ -> failwith "unknown op"

let () = main_loop handle
