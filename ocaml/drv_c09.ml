(* C09 driver.
   in :  trace <TAB> fx(0|1) <TAB> fr(0|1) <TAB> nstacks <TAB> pid,kind(S|E),root(- or pid),ntry,path(k.k.k);...
               <TAB> pid:choice,pid:choice,...
   out:  ok <TAB> state;state;...      one state per point of the schedule, the start state first
         state = dirs|files|pid:LOC:try:nlocked:cur,...|oracle(0|1)
                 dirs: one 0/1 per stack; files: per stack pid,pid,... (creation order, newest first), stacks
                 separated by /
         err <TAB> kind
   in :  ntrace <TAB> fx <TAB> fr <TAB> nstacks <TAB> pid,kind,root,ntry,path,user;... <TAB> schedule
                <TAB> foreign entries of the lock directories at the start: name,name/name,... (stack 0 first)
   out:  as above, the files being the NAMES in the directory (percent-encoded), newest first
   (the protocol over file names of Model/LockName.v; user and names percent-encoded) *)
let loc_name (l : loc) : Stdlib.String.t =
  match l with
  | LMkdir -> "LMkdir" | LListAll -> "LListAll" | LListAll2 -> "LListAll2" | LExists -> "LExists"
  | LScanX -> "LScanX" | LScanX2 -> "LScanX2" | LCreate -> "LCreate" | LValidate -> "LValidate"
  | LHeld -> "LHeld" | LHeldNoLock -> "LHeldNoLock"
  | LGive (m, g) ->
    (match m with GRelease -> "LGive" | GBackoff -> "LBack" | GUnwind c -> if c then "LUnwC" else "LUnwF") ^
    (match g with GIsdir -> "Isdir" | GExistsF -> "ExistsF" | GRemove -> "Remove" | GCount -> "Count"
                | GRmdir -> "Rmdir")
  | LDone -> "LDone" | LFailed -> "LFailed" | LCrashed -> "LCrashed"

let nat_s (s : Stdlib.String.t) : nat = nat_of_int (int_of_string s)

let dec_proc (s : Stdlib.String.t) =
  match String.split_on_char ',' s with
  | [p; k; r; n; path] ->
    let kind = (match k with "S" -> Sh | "E" -> Ex | _ -> failwith "bad kind") in
    let root = if r = "-" then None else Some (nat_s r) in
    let path = List.map nat_s (split_sep '.' path) in
    (nat_s p, (((kind, root), nat_s n), path))
  | _ -> failwith "bad proc"

let dec_step (s : Stdlib.String.t) =
  match String.split_on_char ':' s with
  | [p; c] -> (nat_s p, nat_s c)
  | [p] -> (nat_s p, O)
  | _ -> failwith "bad step"

let ints (l : nat list) : Stdlib.String.t = String.concat "," (List.map (fun p -> string_of_int (int_of_nat p)) l)

let show_state ((stacks, ps), ok) : Stdlib.String.t =
  String.concat "|"
    [ String.concat "" (List.map (fun (d, _) -> field_of_bool d) stacks);
      String.concat "/" (List.map (fun (_, fs) -> ints fs) stacks);
      String.concat "," (List.map (fun (p, lo) ->
        Printf.sprintf "%d:%s:%d:%d:%d" (int_of_nat p) (loc_name lo.lpc) (int_of_nat lo.ltry)
          (int_of_nat lo.lnl) (int_of_nat lo.lcur)) ps);
      field_of_bool ok ]

let dec_nproc (s : Stdlib.String.t) =
  match String.split_on_char ',' s with
  | [p; k; r; n; path; u] -> (dec_proc (String.concat "," [p; k; r; n; path]), dec_str u)
  | _ -> failwith "bad named proc"

let show_nstate ((stacks, ps), ok) : Stdlib.String.t =
  String.concat "|"
    [ String.concat "" (List.map (fun (d, _) -> field_of_bool d) stacks);
      String.concat "/" (List.map (fun (_, fs) -> enc_strlist ',' fs) stacks);
      String.concat "," (List.map (fun (p, lo) ->
        Printf.sprintf "%d:%s:%d:%d:%d" (int_of_nat p) (loc_name lo.lpc) (int_of_nat lo.ltry)
          (int_of_nat lo.lnl) (int_of_nat lo.lcur)) ps);
      field_of_bool ok ]

let handle (f : Stdlib.String.t array) : Stdlib.String.t =
  match f.(0) with
  | "ntrace" ->
    let procs = List.map dec_nproc (split_sep ';' f.(4)) in
    let sched = List.map dec_step (split_sep ',' f.(5)) in
    let junk = List.map (dec_strlist ',') (String.split_on_char '/' (if Array.length f > 6 then f.(6) else "")) in
    (match ntrace_view (bool_of_field f.(1)) (bool_of_field f.(2)) procs junk (nat_s f.(3)) sched with
     | Ok states -> "ok\t" ^ String.concat ";" (List.map show_nstate states)
     | Err k -> "err\t" ^ err_name k)
  | "trace" ->
    let procs = List.map dec_proc (split_sep ';' f.(4)) in
    let sched = List.map dec_step (split_sep ',' f.(5)) in
    (match trace_view (bool_of_field f.(1)) (bool_of_field f.(2)) procs (nat_s f.(3)) sched with
     | Ok states -> "ok\t" ^ String.concat ";" (List.map show_state states)
     | Err k -> "err\t" ^ err_name k)
  | _ -> failwith "unknown op"

let () = main_loop handle
