(* C09 driver.
   in :  trace <TAB> fx(0|1) <TAB> pid,kind(S|E),root(- or pid),ntry;... <TAB> pid:choice,pid:choice,...
   out:  ok <TAB> state;state;...      one state per point of the schedule, the start state first
         state = D(0|1)|pid,pid,...|pid:LOC:tries,...|oracle(0|1)      files in creation order, newest first
         err <TAB> kind *)
let loc_name (l : loc) : string =
  match l with
  | LMkdir -> "LMkdir" | LListAll -> "LListAll" | LListAll2 -> "LListAll2" | LExists -> "LExists"
  | LScanX -> "LScanX" | LScanX2 -> "LScanX2" | LCreate -> "LCreate" | LValidate -> "LValidate"
  | LHeld -> "LHeld" | LHeldNoLock -> "LHeldNoLock"
  | LGive (b, g) ->
    (if b then "LBack" else "LGive") ^
    (match g with GIsdir -> "Isdir" | GExistsF -> "ExistsF" | GRemove -> "Remove" | GCount -> "Count"
                | GRmdir -> "Rmdir")
  | LDone -> "LDone" | LFailed -> "LFailed" | LCrashed -> "LCrashed"

let dec_proc (s : string) =
  match String.split_on_char ',' s with
  | [p; k; r; n] ->
    let kind = (match k with "S" -> Sh | "E" -> Ex | _ -> failwith "bad kind") in
    let root = if r = "-" then None else Some (nat_of_int (int_of_string r)) in
    (nat_of_int (int_of_string p), ((kind, root), nat_of_int (int_of_string n)))
  | _ -> failwith "bad proc"

let dec_step (s : string) =
  match String.split_on_char ':' s with
  | [p; c] -> (nat_of_int (int_of_string p), nat_of_int (int_of_string c))
  | [p] -> (nat_of_int (int_of_string p), O)
  | _ -> failwith "bad step"

let show_state (((d, fs), ps), ok) : string =
  String.concat "|"
    [ field_of_bool d;
      String.concat "," (List.map (fun p -> string_of_int (int_of_nat p)) fs);
      String.concat "," (List.map (fun ((p, l), i) ->
        Printf.sprintf "%d:%s:%d" (int_of_nat p) (loc_name l) (int_of_nat i)) ps);
      field_of_bool ok ]

let handle (f : string array) : string =
  match f.(0) with
  | "trace" ->
    let procs = List.map dec_proc (split_sep ';' f.(2)) in
    let sched = List.map dec_step (split_sep ',' f.(3)) in
    (match trace_view (bool_of_field f.(1)) procs sched with
     | Ok states -> "ok\t" ^ String.concat ";" (List.map show_state states)
     | Err k -> "err\t" ^ err_name k)
  | _ -> failwith "unknown op"

let () = main_loop handle
