(* C10 driver *)
let show_cmp (r : comparison res) : string =
  match r with
  | Ok Lt -> "lt" | Ok Eq -> "eq" | Ok Gt -> "gt"
  | Err k -> "err:" ^ err_name k

(* which arm of stdCompare a pair takes (for the coverage histogram of the evidence) *)
let nonempty_l l = (match l with [] -> false | _ -> true)
let branch (a : ascii list) (b : ascii list) : string =
  match split_version a, split_version b with
  | Err _, _ | _, Err _ -> "split-crash"
  | Ok ((p1, s1), t1), Ok ((p2, s2), t2) ->
    let parts =
      if nonempty_l s1 && nonempty_l s2 then "sec-both"
      else if nonempty_l s1 || nonempty_l s2 then "sec-one"
      else if nonempty_l t1 || nonempty_l t2 then "ter-only"
      else "no-parts" in
    if p1 = p2 then "same-primary/" ^ parts
    else match cmp_primaries false p1 p2 with
      | Ok Eq -> "respelt-primary/" ^ parts
      | Ok _ -> (match cmp_primaries true p1 p2 with
                 | Err _ -> "primary-decides/unsortable"
                 | _ -> "primary-decides/sortable")
      | Err _ -> "unmodelled"

let show_pkey ((l, ns) : ascii list * n list) : string =
  enc_str l ^ ":" ^ String.concat "." (List.map (fun x -> string_of_int (int_of_n x)) ns)
let show_opt o = match o with Some k -> show_pkey k | None -> "-"

let handle (f : string array) : string =
  match f.(0) with
  | "cmp" ->
    let a = dec_str f.(1) and b = dec_str f.(2) in
    show_cmp (version_cmp a b) ^ "\t" ^ show_cmp (version_cmp_strict a b) ^ "\t" ^ branch a b
  | "cmpp" ->
    let a = dec_str f.(1) and b = dec_str f.(2) in
    show_cmp (version_cmp_pinned a b) ^ "\t" ^ show_cmp (version_cmp_strict_pinned a b) ^ "\t" ^ branch a b
  | "match" ->
    (match version_match (dec_str f.(1)) (dec_str f.(2)) with
     | Ok true -> "1" | Ok false -> "0" | Err k -> "err:" ^ err_name k)
  | "latest" ->
    (match latest (dec_strlist ',' f.(1)) with
     | Ok (Some m) -> "some\t" ^ enc_str m
     | Ok None -> "none"
     | Err k -> "err:" ^ err_name k)
  | "lstacks" ->
    (* lstacks <TAB> minimum (= for none, v<name> otherwise) <TAB> one field per stack (= for a stack without versions) *)
    let minver = if f.(1) = "=" then None else Some (dec_str (Stdlib.String.sub f.(1) 1 (Stdlib.String.length f.(1) - 1))) in
    let stacks = Stdlib.List.map (fun s -> if s = "=" then [] else dec_strlist ',' s)
        (Stdlib.Array.to_list (Stdlib.Array.sub f 2 (Stdlib.Array.length f - 2))) in
    (match latest_over_stacks minver stacks with
     | Ok (Some (i, m)) -> "some\t" ^ string_of_int (int_of_nat i) ^ "\t" ^ enc_str m
     | Ok None -> "none\t\t"
     | Err k -> "err:" ^ err_name k ^ "\t\t") ^ "\t" ^
    (match latest_listing stacks with
     | Ok l -> Stdlib.String.concat "," (Stdlib.List.map (fun (i, m) -> string_of_int (int_of_nat i) ^ ":" ^ enc_str m) l)
     | Err k -> "err:" ^ err_name k)
  | "key" ->
    let v = dec_str f.(1) in
    if conv v then
      (match key v with ((p, s), t) -> "conv\t" ^ show_pkey p ^ "\t" ^ show_opt s ^ "\t" ^ show_opt t)
    else "nonconv"
  | "accepts" -> if accepts (dec_str f.(1)) then "1" else "0"
  | "keycmp" -> show_cmp (Ok (key_compare (key (dec_str f.(1))) (key (dec_str f.(2)))))
  | "split" ->
    (match split_version (dec_str f.(1)) with
     | Ok ((p, s), t) -> "ok\t" ^ enc_str p ^ "\t" ^ enc_str s ^ "\t" ^ enc_str t
     | Err k -> "err:" ^ err_name k)
  | _ -> failwith "unknown op"

let () = main_loop handle
