(* C11 driver.  Fields are TAB separated and percent-encoded (prelude.ml).
     toks   <text>                              -> ok <tok,tok,...>
     cond   <fx> <flavor> <types,> <text>       -> ok <value> | err <kind>
     args   <fx> <argstr>                       -> ok <arg,arg,...>
     aclass <argstr>                            -> in <arg,arg,...> | out     (args_class: the argument grammar)
     class  <fx> <line>                         -> ok <kind>
     blocks <fx> <top> <text>                   -> ok <lbb&lbb&...> | err <kind>
     table  <fx> <top> <flavor> <types,> <text> -> ok <action|action...> | err <kind>
   action = cmd:arg,arg:key=0,key=1 ; lbb = elements joined by ';', L<cond> or B<action|action>
   <fx> : 0 = the pinned code, 1 = with the three small repairs, 2 = 1 and the block reader with the repair of
   D6 (only blocks and table tell 1 from 2) *)
let fx_of (f : Stdlib.String.t) : bool = (f <> "0")
let eb_of (f : Stdlib.String.t) : bool = (f = "2")

let show_value (v : value) : Stdlib.String.t =
  match v with
  | VStr s -> "S:" ^ enc_str s
  | VInt z -> "I:" ^ string_of_int (int_of_z z)
  | VBool b -> "B:" ^ field_of_bool b
  | VList l -> "L:" ^ enc_strlist ',' l

let show_action (a : action) : Stdlib.String.t =
  enc_str a.a_cmd ^ ":" ^ enc_strlist ',' a.a_args ^ ":" ^
  enc_list ',' (fun (k, b) -> enc_str k ^ "=" ^ field_of_bool b) a.a_extra

let show_actions (l : action list) : Stdlib.String.t = String.concat "|" (List.map show_action l)

let show_elem (e : lbelem) : Stdlib.String.t =
  match e with
  | LLog c -> "L" ^ enc_str c
  | LBlk b -> "B" ^ show_actions b

let show_kind (k : linekind) : Stdlib.String.t =
  match k with
  | LIf c -> "if\t" ^ enc_str c
  | LElseIf c -> "elseif\t" ^ enc_str c
  | LElse b -> "else\t" ^ field_of_bool b
  | LClose -> "close"
  | LCmd (n, a) -> "cmd\t" ^ enc_str n ^ "\t" ^ enc_str a
  | LOther l -> "other\t" ^ enc_str l

let cenv_of (fl : Stdlib.String.t) (ty : Stdlib.String.t) : cenv =
  { ce_flavor = dec_str fl; ce_types = dec_strlist ',' ty }

let handle (f : Stdlib.String.t array) : Stdlib.String.t =
  match f.(0) with
  | "toks" -> "ok\t" ^ enc_strlist ',' (tokenize (dec_str f.(1)))
  | "cond" ->
    (match eval_value (fx_of f.(1)) (cenv_of f.(2) f.(3)) (dec_str f.(4)) with
     | Ok v -> "ok\t" ^ show_value v
     | Err k -> "err\t" ^ err_name k)
  | "args" -> "ok\t" ^ enc_strlist ',' (split_args (fx_of f.(1)) (dec_str f.(2)))
  | "aclass" ->
    (match args_class (dec_str f.(1)) with
     | Some l -> "in\t" ^ enc_strlist ',' l
     | None -> "out")
  | "class" -> "ok\t" ^ show_kind (classify (fx_of f.(1)) (dec_str f.(2)))
  | "blocks" ->
    (match read_text (fx_of f.(1)) (eb_of f.(1)) (dec_str f.(2)) (dec_str f.(3)) with
     | Ok ls -> "ok\t" ^ String.concat "&" (List.map (fun l -> String.concat ";" (List.map show_elem l)) ls)
     | Err k -> "err\t" ^ err_name k)
  | "table" ->
    (match table_actions (fx_of f.(1)) (eb_of f.(1)) (dec_str f.(2)) (dec_str f.(5)) (cenv_of f.(3) f.(4)) with
     | Ok l -> "ok\t" ^ show_actions l
     | Err k -> "err\t" ^ err_name k)
  | _ -> failwith "unknown op"

let () = main_loop handle
