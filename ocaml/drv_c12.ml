(* C12 driver *)
let dec_env (s : string) : (ascii list * ascii list) list =
  dec_list ';' (fun kv ->
    match String.index_opt kv '=' with
    | Some i -> (dec_str (String.sub kv 0 i), dec_str (String.sub kv (i + 1) (String.length kv - i - 1)))
    | None -> (dec_str kv, [])) s
let enc_env (e : (ascii list * ascii list) list) : string =
  enc_list ';' (fun (k, v) -> enc_str k ^ "=" ^ enc_str v) e

let delim_of (s : string) : ascii = ascii_of_char (dec s).[0]

let show (r : (ascii list * ascii list) list option res) : string =
  match r with
  | Ok (Some e) -> "ok\t" ^ enc_env e
  | Ok None -> "skip"
  | Err k -> "err\t" ^ err_name k

let dec_pact (s : string) : pact =
  match String.split_on_char ',' s with
  | ["P"; ap; var; v; d] -> PPrepend (bool_of_field ap, dec_str var, dec_str v, delim_of d)
  | ["S"; k; v] -> PSet (dec_str k, dec_str v)
  | ["U"; k] -> PUnset (dec_str k)
  | _ -> failwith "bad pact"

let dec_sstep (s : string) : sstep =
  match String.split_on_char ',' s with
  | ["X"; i; fwd] -> SExec (nat_of_int (int_of_string i), bool_of_field fwd)
  | ["E"; k; v] -> SPut (dec_str k, dec_str v)
  | ["D"; k] -> SDel (dec_str k)
  | _ -> failwith "bad sstep"

let handle (f : string array) : string =
  match f.(0) with
  | "prepend" ->
    show (env_prepend (bool_of_field f.(1)) (bool_of_field f.(2)) (dec_str f.(3)) (dec_str f.(4))
            (delim_of f.(5)) (dec_env f.(6)))
  | "set" -> show (env_set (bool_of_field f.(1)) (dec_str f.(2)) (dec_str f.(3)) (dec_env f.(4)))
  | "unset" -> show (env_unset (bool_of_field f.(1)) (dec_str f.(2)) (dec_env f.(3)))
  | "seq" ->
    (match exec_pacts (bool_of_field f.(1)) (List.map dec_pact (split_sep '|' f.(2))) (dec_env f.(3)) with
     | Ok e -> "ok\t" ^ enc_env e
     | Err k -> "err\t" ^ err_name k)
  | "seqrt" ->
    (* the actions forwards, then the same list in unsetup mode *)
    let acts = List.map dec_pact (split_sep '|' f.(2)) in
    (match exec_pacts true acts (dec_env f.(3)) with
     | Ok e1 -> (match exec_pacts false acts e1 with
                 | Ok e2 -> "ok\t" ^ enc_env e2
                 | Err k -> "err\t" ^ err_name k)
     | Err k -> "err\t" ^ err_name k)
  | "script" ->
    (* one table of actions, executed by index any number of times, with changes of the environment in
       between; the outcome of every step *)
    let acts = List.map dec_pact (split_sep '|' f.(1)) in
    let steps = List.map dec_sstep (split_sep '|' f.(2)) in
    String.concat "\t" ("trace" :: List.map (fun r -> match r with
                                               | Ok e -> "o" ^ enc_env e
                                               | Err k -> "e" ^ err_name k)
                                     (run_script acts steps (dec_env f.(3))))
  | _ -> failwith "unknown op"

let () = main_loop handle
