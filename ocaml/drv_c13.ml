(* C13 driver.  Fields (TAB separated):
     deps   WORLD NAME VERSION TOPO(0/1)      -> ok TAB entries | err TAB kind
     depsp  ... same with the pinned layer sort (D15)
     depsn  ... same with the pinned second walk (D16: one version per name, depths per name)
     topo   WORLD NAME VERSION                -> ok TAB graph TAB components TAB layers TAB partition_ok TAB cycle check
     topon  ... same with the pinned second walk (D16)
     uses   WORLD QUERIES                     -> one result per query, joined by '|':  ok=consumers / err=kind
     usesp  ... same with the pinned pvsort (D2)
     mani   WORLD NAME VERSION                -> ok TAB mentries TAB install (ok | err=kind) | err TAB kind
                                                 (Model/BuildOrder.v create_dependencies, install_manifest)
     cli    WORLD NAME VERSION TOPO CHECK FILTER  -> ok TAB nodes joined by ',' | err TAB kind   (cli_lines)
   FILTER   = all | le:N | lt:N | ge:N | gt:N | eq:N | ne:N       mentries = node ':' optional(0/1) joined by ';'
   WORLD    = product '|' product ...     product = name ',' version ',' edge ';' edge ...
   edge     = name ':' optstr ':' optstr ':' 0/1       (line version, resolved version, optional)
   optstr   = 'N' | 'S' enc
   node     = name ':' optstr ':' found(0/1)
   entries  = node ':' optional(0/1) ':' depth  joined by ';'
   QUERIES  = name ':' optstr  joined by ';'

   The composed model (coq/Model/DepWalk.v, DepWalkText.v): no edges are fed, the model resolves every line itself
     dlist  EXTRA FLAVORS FX FXP DB TYPES IMPLICIT PRODUCTS OPTS TAGS NAME VERSION TOPO CHECK
                                              -> ok TAB entries | err TAB kind
     dgraph ... the same up to VERSION        -> ok TAB graph TAB cycle check | err TAB kind
     dedges ... the same up to TAGS (dedges2: the tables as the second walk reads them)        -> ok TAB tables | err TAB kind
     dlistg ... as dlist without CHECK        -> Model/Graph.v dependent_products on the world of the edges the model
                                                 resolved (the two sides of dep_products_is_graph), ok / err / plain=0 (some line has -j, -k or -t)
   EXTRA    = extra global tags, ','        FLAVORS = running flavor then fall-backs, ','
   FX, FXP  = 0/1: tables read for the flavor of the product (1) or the running flavor (0); pinned names looked up
              under every flavor (1) or the running one (0)
   DB       = stack '|' ...   stack = id '@' decl ',' ... '@' chain ',' ...   decl = name~version~flavor
              chain = name~flavor~tag~version
   TYPES    = the -T types, ','              IMPLICIT = words of the implicit product line, ','
   PRODUCTS = text '|' ...    text = name~version~flavor~dir~root~tabletext
   OPTS     = keep exact inexact vnamed (four 0/1 characters)    TAGS = -t words, ','
   tables   = name ',' version '>' line ';' ...   line = name:optv:optx:tag+tag:keep:optional:just:found
   found    = '-' | stack~name~version~flavor
     dhyp   ... as dedges                     -> ok TAB five 0/1 characters: dworld_ok, version names fit C10, version entry in
                                                 the VRO, no -j line, no line changes the VRO (hyps_text)
     dlook  EXTRA FLAVORS DB VRO NAME VERS EXPR   one look-up of the walk (the loop over the flavors)  -> ok TAB found

   Sessions on one instance (coq/Model/UsesSeq.v): the database after a list of changes and the world it denotes
     seqw   XEDGES SDB OPS                    -> ok TAB WORLD TAB current      (world_after; WORLD as above, in the order
                                                 of the declarations; current = name ':' version joined by ',')
     seqr   XEDGES SDB EVENTS                 -> answers of run_session joined by '|':  u=consumers / d=entries / err=kind
   XEDGES   = edge ';' ...  appended to every table (the silent implicit product)
   SDB      = sdecl '|' ... '@' cur ',' ...   sdecl = name ',' version ',' sline ';' ...   cur = name ':' version
   sline    = name ':' optstr ':' 0/1         (version text of the line, optional)
   OPS      = op ';' ...    op = A~name~version | T~name~version | U~name~optstr | X~name~version
                                 | D~name~version~tag(0/1)~sline+sline...
   EVENTS   = event ';' ...  event = op | Qu~name~optstr | Qd~name~version~topo(0/1) *)
let dec_opt (s : Stdlib.String.t) : ascii list option =
  if s = "N" then None else Some (dec_str (Stdlib.String.sub s 1 (Stdlib.String.length s - 1)))
let enc_opt (o : ascii list option) : Stdlib.String.t =
  match o with None -> "N" | Some v -> "S" ^ enc_str v

let dec_edge (s : Stdlib.String.t) : edge =
  match Stdlib.String.split_on_char ':' s with
  | [n; v; r; o] -> { ename = dec_str n; evers = dec_opt v; eres = dec_opt r; eopt = bool_of_field o }
  | _ -> failwith "bad edge"

let dec_world (s : Stdlib.String.t) : ((ascii list * ascii list) * edge list) list =
  Stdlib.List.map (fun p ->
    match Stdlib.String.split_on_char ',' p with
    | [n; v; es] -> ((dec_str n, dec_str v), Stdlib.List.map dec_edge (split_sep ';' es))
    | _ -> failwith "bad product") (split_sep '|' s)

let enc_node (((n, v), r) : (ascii list * ascii list option) * bool) : Stdlib.String.t =
  enc_str n ^ ":" ^ enc_opt v ^ ":" ^ field_of_bool r

let enc_entries (l : ((((ascii list * ascii list option) * bool) * bool) * nat) list) : Stdlib.String.t =
  Stdlib.String.concat ";" (Stdlib.List.map (fun ((p, o), d) ->
    enc_node p ^ ":" ^ field_of_bool o ^ ":" ^ string_of_int (int_of_nat d)) l)

let enc_nodes sep l = Stdlib.String.concat sep (Stdlib.List.map enc_node l)

let fuel_for w = nat_of_int (Stdlib.List.length w + 2)

let show_entries r = match r with Ok l -> "ok\t" ^ enc_entries l | Err k -> "err\t" ^ err_name k

let enc_consumers l =
  Stdlib.String.concat ";" (Stdlib.List.map (fun ((un, uv), ((pv, o), d)) ->
    enc_str un ^ ":" ^ enc_str uv ^ ":" ^ enc_opt pv ^ ":" ^ field_of_bool o ^ ":" ^ string_of_int (int_of_nat d)) l)


(* ------------------------------------------------------------------ the composed model *)
let words (s : Stdlib.String.t) : ascii list list = dec_list ',' dec_str s

let dec_decl (s : Stdlib.String.t) =
  match Stdlib.String.split_on_char '~' s with
  | [n; v; f] -> ((dec_str n, dec_str v), dec_str f)
  | _ -> failwith "bad decl"

let dec_chain (s : Stdlib.String.t) =
  match Stdlib.String.split_on_char '~' s with
  | [n; f; t; v] -> (((dec_str n, dec_str f), dec_str t), dec_str v)
  | _ -> failwith "bad chain"

let dec_stack (s : Stdlib.String.t) : stackv =
  match Stdlib.String.split_on_char '@' s with
  | [id; d; c] ->
    { st_id = dec_str id;
      st_decl = Stdlib.List.map dec_decl (split_sep ',' d);
      st_chain = Stdlib.List.map dec_chain (split_sep ',' c) }
  | _ -> failwith "bad stack"

let dec_db (s : Stdlib.String.t) : stackv list = Stdlib.List.map dec_stack (split_sep '|' s)

let dec_text (s : Stdlib.String.t) : dtext =
  match Stdlib.String.split_on_char '~' s with
  | [n; v; f; d; r; t] ->
    { dx_name = dec_str n; dx_version = dec_str v; dx_flavor = dec_str f; dx_dir = dec_str d;
      dx_root = dec_str r; dx_text = dec_str t }
  | _ -> failwith "bad text"

let show_found (o : found option) : Stdlib.String.t =
  match o with
  | None -> "-"
  | Some p -> Stdlib.String.concat "~" [enc_str p.fd_stack; enc_str p.fd_name; enc_str p.fd_version; enc_str p.fd_flavor]

let show_line ((l, o) : dline * found option) : Stdlib.String.t =
  Stdlib.String.concat ":" [enc_str l.dl_name; enc_opt l.dl_version; enc_opt l.dl_expr;
                            Stdlib.String.concat "+" (Stdlib.List.map enc_str l.dl_tags);
                            field_of_bool l.dl_keep; field_of_bool l.dl_optional; field_of_bool l.dl_just; show_found o]

let composed (f : Stdlib.String.t array) : Stdlib.String.t =
  let cfg = site_config (words f.(1)) [] in
  let flavors = words f.(2) in
  let fx = bool_of_field f.(3) and fxp = bool_of_field f.(4) in
  let db = dec_db f.(5) in
  let types = words f.(6) and implicit = words f.(7) in
  let ps = Stdlib.List.map dec_text (split_sep '|' f.(8)) in
  let b i = f.(9).[i] = '1' in
  let o = { o_keep = b 0; o_exact = b 1; o_inexact = b 2; o_tags = words f.(10); o_posttags = [];
            o_productdir = false; o_vnamed = b 3 } in
  let fuel = nat_of_int (Stdlib.List.length ps + 2) in
  match f.(0) with
  | "dhyp" ->
    (match hyps_text cfg flavors fx db types implicit ps o with
     | Err k -> "err\t" ^ err_name k
     | Ok bs -> "ok\t" ^ Stdlib.String.concat "" (Stdlib.List.map field_of_bool bs))
  | "dedges" | "dedges2" ->
    (match edges_text cfg flavors fx db types implicit ps o (f.(0) = "dedges2") with
     | Err k -> "err\t" ^ err_name k
     | Ok tbl ->
       "ok\t" ^ Stdlib.String.concat "|" (Stdlib.List.map (fun ((n, v), ls) ->
         enc_str n ^ "," ^ enc_str v ^ ">" ^ Stdlib.String.concat ";" (Stdlib.List.map show_line ls)) tbl))
  | "dlistg" ->
    let top = ((dec_str f.(11), Some (dec_str f.(12))), true) in
    (match edges_text cfg flavors fx db types implicit ps o false with
     | Err k -> "err\t" ^ err_name k
     | Ok tbl ->
       if Stdlib.List.exists (fun (_, ls) -> Stdlib.List.exists (fun (l, _) -> l.dl_just || l.dl_keep || l.dl_tags <> []) ls) tbl then "plain=0"
       else
         let w = Stdlib.List.map (fun (k, ls) ->
           (k, Stdlib.List.map (fun (l, o) ->
              { ename = l.dl_name; evers = l.dl_version;
                eres = (match o with Some p -> Some p.fd_version | None -> None); eopt = l.dl_optional }) ls)) tbl in
         show_entries (dependent_products fuel w top (bool_of_field f.(13))))
  | "dgraph" ->
    let top = ((dec_str f.(11), Some (dec_str f.(12))), true) in
    (match graph_text cfg flavors fx fxp db types implicit ps o fuel top with
     | Err k -> "err\t" ^ err_name k
     | Ok g ->
       let gs = Stdlib.String.concat ";" (Stdlib.List.map (fun (n, ss) -> enc_node n ^ ">" ^ enc_nodes "," ss) g) in
       let cyc = (match check_cycles g with Ok _ -> "pass" | Err k -> err_name k) in
       "ok\t" ^ gs ^ "\t" ^ cyc)
  | _ ->
    let top = ((dec_str f.(11), Some (dec_str f.(12))), true) in
    show_entries (list_text cfg flavors fx fxp db types implicit ps o fuel top
                    (bool_of_field f.(13)) (bool_of_field f.(14)))

(* ------------------------------------------------------------------ sessions (Model/UsesSeq.v) *)
let dec_sline (s : Stdlib.String.t) : tline =
  match Stdlib.String.split_on_char ':' s with
  | [n; v; o] -> { tl_name = dec_str n; tl_vers = dec_opt v; tl_opt = bool_of_field o }
  | _ -> failwith "bad sline"

let dec_sdb (s : Stdlib.String.t) : sdb =
  match Stdlib.String.split_on_char '@' s with
  | [d; c] ->
    { sd_decl = Stdlib.List.map (fun p ->
        match Stdlib.String.split_on_char ',' p with
        | [n; v; ls] -> ((dec_str n, dec_str v), Stdlib.List.map dec_sline (split_sep ';' ls))
        | _ -> failwith "bad sdecl") (split_sep '|' d);
      sd_cur = Stdlib.List.map (fun kv ->
        match Stdlib.String.split_on_char ':' kv with
        | [n; v] -> (dec_str n, dec_str v)
        | _ -> failwith "bad cur") (split_sep ',' c) }
  | _ -> failwith "bad sdb"

let dec_sop (fs : Stdlib.String.t list) : sop =
  match fs with
  | ["A"; n; v] -> SAssign (dec_str n, dec_str v)
  | ["T"; n; v] -> SDeclareTag (dec_str n, dec_str v)
  | ["U"; n; v] -> SUnassign (dec_str n, dec_opt v)
  | ["X"; n; v] -> SUndeclare (dec_str n, dec_str v)
  | ["D"; n; v; t; ls] -> SDeclare (dec_str n, dec_str v, Stdlib.List.map dec_sline (split_sep '+' ls), bool_of_field t)
  | _ -> failwith "bad op"

let dec_sevent (s : Stdlib.String.t) : sevent =
  match Stdlib.String.split_on_char '~' s with
  | ["Qu"; x; ov] -> SAsk (QUses (dec_str x, dec_opt ov))
  | ["Qd"; n; v; t] -> SAsk (QDeps (dec_str n, dec_str v, bool_of_field t))
  | fs -> SChange (dec_sop fs)

let enc_edge (e : edge) : Stdlib.String.t =
  Stdlib.String.concat ":" [enc_str e.ename; enc_opt e.evers; enc_opt e.eres; field_of_bool e.eopt]

let enc_world (w : ((ascii list * ascii list) * edge list) list) : Stdlib.String.t =
  Stdlib.String.concat "|" (Stdlib.List.map (fun ((n, v), es) ->
    enc_str n ^ "," ^ enc_str v ^ "," ^ Stdlib.String.concat ";" (Stdlib.List.map enc_edge es)) w)

let session (f : Stdlib.String.t array) : Stdlib.String.t =
  let extra = Stdlib.List.map dec_edge (split_sep ';' f.(1)) in
  let db = dec_sdb f.(2) in
  match f.(0) with
  | "seqw" ->
    let ops = Stdlib.List.map (fun s -> dec_sop (Stdlib.String.split_on_char '~' s)) (split_sep ';' f.(3)) in
    let db' = db_after db ops in
    let names = Stdlib.List.sort_uniq compare (Stdlib.List.map (fun ((n, _), _) -> n) db'.sd_decl) in
    let cur = Stdlib.List.concat_map (fun n ->
      match current_of db' n with Some v -> [enc_str n ^ ":" ^ enc_str v] | None -> []) names in
    "ok\t" ^ enc_world (world_after extra db ops) ^ "\t" ^ Stdlib.String.concat "," cur
  | _ ->
    let h = Stdlib.List.map dec_sevent (split_sep ';' f.(3)) in
    Stdlib.String.concat "|" (Stdlib.List.map (fun a ->
      match a with
      | AUses (Ok l) -> "u=" ^ enc_consumers l
      | ADeps (Ok l) -> "d=" ^ enc_entries l
      | AUses (Err k) | ADeps (Err k) -> "err=" ^ err_name k) (run_session extra db h))

let handle (f : Stdlib.String.t array) : Stdlib.String.t =
  match f.(0) with
  | "seqw" | "seqr" -> session f
  | "deps" | "depsp" | "depsn" ->
    let w = dec_world f.(1) in
    let top = ((dec_str f.(2), Some (dec_str f.(3))), true) in
    let topo = bool_of_field f.(4) in
    show_entries ((match f.(0) with "deps" -> dependent_products | "depsp" -> dependent_products_pinned
                                   | _ -> dependent_products_byname_pinned) (fuel_for w) w top topo)
  | "topo" | "topon" ->
    let w = dec_world f.(1) in
    let top = ((dec_str f.(2), Some (dec_str f.(3))), true) in
    (match (if f.(0) = "topo" then topo_graph else topo_graph_byname_pinned) (fuel_for w) w top with
     | Err k -> "err\t" ^ err_name k
     | Ok g ->
       let gs = Stdlib.String.concat ";" (Stdlib.List.map (fun (n, ss) -> enc_node n ^ ">" ^ enc_nodes "," ss) g) in
       (match scc g with
        | Err k -> "err\t" ^ err_name k
        | Ok cs ->
          let css = Stdlib.String.concat ";" (Stdlib.List.map (enc_nodes ",") cs) in
          let ls = (match comp_layers false g cs with
                    | Err k -> "err=" ^ err_name k
                    | Ok l -> (match sort_layers node_cmp l with
                               | Err k -> "err=" ^ err_name k
                               | Ok l -> Stdlib.String.concat ";" (Stdlib.List.map (enc_nodes ",") l))) in
          let cyc = (match check_cycles g with Ok _ -> "pass" | Err k -> err_name k) in
          "ok\t" ^ gs ^ "\t" ^ css ^ "\t" ^ ls ^ "\t" ^ field_of_bool (partition_ok g cs) ^ "\t" ^ cyc))
  | "mani" ->
    let w = dec_world f.(1) in
    (match create_dependencies (fuel_for w) w (dec_str f.(2)) (dec_str f.(3)) with
     | Err k -> "err\t" ^ err_name k
     | Ok m ->
       "ok\t" ^ Stdlib.String.concat ";" (Stdlib.List.map (fun (p, o) -> enc_node p ^ ":" ^ field_of_bool o) m)
       ^ "\t" ^ (match install_manifest w m with Ok _ -> "ok" | Err k -> "err=" ^ err_name k))
  | "cli" ->
    let w = dec_world f.(1) in
    let top = ((dec_str f.(2), Some (dec_str f.(3))), true) in
    let flt =
      if f.(6) = "all" then DAll
      else (match Stdlib.String.split_on_char ':' f.(6) with
            | [op; n] ->
              let n = nat_of_int (int_of_string n) in
              (match op with
               | "le" -> DLe n | "lt" -> DLt n | "ge" -> DGe n | "gt" -> DGt n | "eq" -> DEq n | "ne" -> DNe n
               | _ -> failwith "bad filter")
            | _ -> failwith "bad filter") in
    (match cli_lines (fuel_for w) w top (bool_of_field f.(4)) (bool_of_field f.(5)) flt with
     | Err k -> "err\t" ^ err_name k
     | Ok l -> "ok\t" ^ enc_nodes "," l)
  | "uses" | "usesp" ->
    let w = dec_world f.(1) in
    (match uses_index (fuel_for w) w with
     | Err k -> "err\t" ^ err_name k
     | Ok idx ->
       "ok\t" ^ Stdlib.String.concat "|" (Stdlib.List.map (fun q ->
         match Stdlib.String.split_on_char ':' q with
         | [x; ov] ->
           (match (if f.(0) = "uses" then users else users_pinned) idx (dec_str x) (dec_opt ov) with
            | Ok l -> "ok=" ^ enc_consumers l
            | Err k -> "err=" ^ err_name k)
         | _ -> failwith "bad query") (split_sep ';' f.(2))))
  | "dlist" | "dgraph" | "dedges" | "dedges2" | "dlistg" | "dhyp" -> composed f
  | "dlook" ->
    (* dlook EXTRA FLAVORS DB VRO NAME VERS EXPR -> ok TAB found | err TAB kind *)
    let cfg = site_config (words f.(1)) [] in
    (match lookup_text cfg (words f.(2)) (dec_db f.(3)) (words f.(4))
             { rq_name = dec_str f.(5); rq_version = dec_opt f.(6); rq_expr = dec_opt f.(7) } with
     | Err k -> "err\t" ^ err_name k
     | Ok o -> "ok\t" ^ show_found o)
  | _ -> failwith "unknown op"


let () = main_loop handle
