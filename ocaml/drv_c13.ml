(* C13 driver.  Fields (TAB separated):
     deps   WORLD NAME VERSION TOPO(0/1)      -> ok TAB entries | err TAB kind
     depsp  ... same with the pinned layer sort (D15)
     depsn  ... same with the pinned second walk (D16: one version per name, depths per name)
     topo   WORLD NAME VERSION                -> ok TAB graph TAB components TAB layers TAB partition_ok TAB cycle check
     topon  ... same with the pinned second walk (D16)
     uses   WORLD QUERIES                     -> one result per query, joined by '|':  ok=consumers / err=kind
     usesp  ... same with the pinned pvsort (D2)
   WORLD    = product '|' product ...     product = name ',' version ',' edge ';' edge ...
   edge     = name ':' optstr ':' optstr ':' 0/1       (line version, resolved version, optional)
   optstr   = 'N' | 'S' enc
   node     = name ':' optstr ':' found(0/1)
   entries  = node ':' optional(0/1) ':' depth  joined by ';'
   QUERIES  = name ':' optstr  joined by ';' *)
let dec_opt (s : string) : ascii list option =
  if s = "N" then None else Some (dec_str (String.sub s 1 (String.length s - 1)))
let enc_opt (o : ascii list option) : string =
  match o with None -> "N" | Some v -> "S" ^ enc_str v

let dec_edge (s : string) : edge =
  match String.split_on_char ':' s with
  | [n; v; r; o] -> { ename = dec_str n; evers = dec_opt v; eres = dec_opt r; eopt = bool_of_field o }
  | _ -> failwith "bad edge"

let dec_world (s : string) : ((ascii list * ascii list) * edge list) list =
  List.map (fun p ->
    match String.split_on_char ',' p with
    | [n; v; es] -> ((dec_str n, dec_str v), List.map dec_edge (split_sep ';' es))
    | _ -> failwith "bad product") (split_sep '|' s)

let enc_node (((n, v), r) : (ascii list * ascii list option) * bool) : string =
  enc_str n ^ ":" ^ enc_opt v ^ ":" ^ field_of_bool r

let enc_entries (l : ((((ascii list * ascii list option) * bool) * bool) * nat) list) : string =
  String.concat ";" (List.map (fun ((p, o), d) ->
    enc_node p ^ ":" ^ field_of_bool o ^ ":" ^ string_of_int (int_of_nat d)) l)

let enc_nodes sep l = String.concat sep (List.map enc_node l)

let fuel_for w = nat_of_int (List.length w + 2)

let show_entries r = match r with Ok l -> "ok\t" ^ enc_entries l | Err k -> "err\t" ^ err_name k

let enc_consumers l =
  String.concat ";" (List.map (fun ((un, uv), ((pv, o), d)) ->
    enc_str un ^ ":" ^ enc_str uv ^ ":" ^ enc_opt pv ^ ":" ^ field_of_bool o ^ ":" ^ string_of_int (int_of_nat d)) l)

let handle (f : string array) : string =
  match f.(0) with
  | "deps" | "depsp" | "depsn" ->
    let w = dec_world f.(1) in
    let top = ((dec_str f.(2), Some (dec_str f.(3))), true) in
    let topo = bool_of_field f.(4) in
    show_entries ((match f.(0) with "deps" -> dependent_products | "depsp" -> dependent_products_pinned
                                   | _ -> dependent_products_byname_pinned) (fuel_for w) w top topo)
  | "topo" | "topon" ->
    let w = dec_world f.(1) in
    let top = ((dec_str f.(2), Some (dec_str f.(3))), true) in
    (match (if f.(0) = "topo" then topo_graph else topo_graph_byname_pinned) (fuel_for w) w top with
     | Err k -> "err\t" ^ err_name k
     | Ok g ->
       let gs = String.concat ";" (List.map (fun (n, ss) -> enc_node n ^ ">" ^ enc_nodes "," ss) g) in
       (match scc g with
        | Err k -> "err\t" ^ err_name k
        | Ok cs ->
          let css = String.concat ";" (List.map (enc_nodes ",") cs) in
          let ls = (match comp_layers false g cs with
                    | Err k -> "err=" ^ err_name k
                    | Ok l -> (match sort_layers node_cmp l with
                               | Err k -> "err=" ^ err_name k
                               | Ok l -> String.concat ";" (List.map (enc_nodes ",") l))) in
          let cyc = (match check_cycles g with Ok _ -> "pass" | Err k -> err_name k) in
          "ok\t" ^ gs ^ "\t" ^ css ^ "\t" ^ ls ^ "\t" ^ field_of_bool (partition_ok g cs) ^ "\t" ^ cyc))
  | "uses" | "usesp" ->
    let w = dec_world f.(1) in
    (match uses_index (fuel_for w) w with
     | Err k -> "err\t" ^ err_name k
     | Ok idx ->
       "ok\t" ^ String.concat "|" (List.map (fun q ->
         match String.split_on_char ':' q with
         | [x; ov] ->
           (match (if f.(0) = "uses" then users else users_pinned) idx (dec_str x) (dec_opt ov) with
            | Ok l -> "ok=" ^ enc_consumers l
            | Err k -> "err=" ^ err_name k)
         | _ -> failwith "bad query") (split_sep ';' f.(2))))
  | _ -> failwith "unknown op"

let () = main_loop handle
