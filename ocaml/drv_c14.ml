(* C14 driver.  Fields (TAB separated):
     rm  VARIANT WORLD DECLS TAGS FS FLAVOR DEFAULT FORCE NAME VERSION RECURSIVE CHECK
         -> outcome TAB decls TAB tags TAB fs
   VARIANT  = fixed | pinned | skiponly | onceonly | nokeep (all fixes but C14-remove-keeps-shared-directory)
   WORLD    = product '|' product ...     product = name ',' version ',' edge ';' edge ...     (as in drv_c13)
   edge     = name ':' optstr ':' optstr ':' 0/1       (line version, resolved version, optional)
   optstr   = 'N' | 'S' enc
   DECLS    = name ',' version ',' dir ',' table  joined by ';'      (one stack, called S)
   TAGS     = name ',' tag ',' version            joined by ';'
   FS       = path joined by ';'
   outcome  = ok | err=Kind ;  decls = name ',' version ',' dir ',' table joined by ';' ;  tags = name ',' tag ',' version

     rmx XALL WW WU PATH DECLS TAGS FS FLAVOR DEFAULT OPTS ARGS ANSWERS        (the whole command, Model/RemoveExt.v)
         -> outcome TAB decls TAB tags TAB fs
   XALL     = two flags: fix C14-remove-other-declarations, fix C14-remove-keeps-shared-directory: 11 (= 1) | 10 | 01 | 00 (= 0)
   WW, WU   = worlds as above: what _remove walks, what Eups.uses reads
   PATH     = stack joined by ';'
   DECLS    = stack ',' flavor ',' name ',' version ',' dir ',' table  joined by ';'
   TAGS     = stack ',' flavor ',' name ',' tag ',' version            joined by ';'
   OPTS     = recursive ',' nocheck ',' force ',' interactive      (0/1; interactive also N = option absent)
   ARGS     = positional arguments joined by ';'      ANSWERS = lines of standard input joined by ';' ('-' = no line)
   outcome  = ok | usage | err=Kind ; decls / tags in the format of DECLS / TAGS *)
let dec_opt (s : Stdlib.String.t) : ascii list option =
  if s = "N" then None else Some (dec_str (Stdlib.String.sub s 1 (Stdlib.String.length s - 1)))

let dec_edge (s : Stdlib.String.t) : edge =
  match Stdlib.String.split_on_char ':' s with
  | [n; v; r; o] -> { ename = dec_str n; evers = dec_opt v; eres = dec_opt r; eopt = bool_of_field o }
  | _ -> failwith "bad edge"

let dec_world (s : Stdlib.String.t) : ((ascii list * ascii list) * edge list) list =
  Stdlib.List.map (fun p ->
    match Stdlib.String.split_on_char ',' p with
    | [n; v; es] -> ((dec_str n, dec_str v), Stdlib.List.map dec_edge (split_sep ';' es))
    | _ -> failwith "bad product") (split_sep '|' s)

let stack_s = str_of_string "S"

let handle (f : Stdlib.String.t array) : Stdlib.String.t =
  match f.(0) with
  | "rm" ->
    let (skip, once, keep) = (match f.(1) with
      | "fixed" -> (true, true, true) | "pinned" -> (false, false, false) | "nokeep" -> (true, true, false)
      | "skiponly" -> (true, false, false) | "onceonly" -> (false, true, false) | _ -> failwith "bad variant") in
    let w = dec_world f.(2) in
    let fl = dec_str f.(6) in
    let decls = Stdlib.List.map (fun d ->
      match Stdlib.String.split_on_char ',' d with
      | [n; v; dir; tb] -> ((((stack_s, dec_str n), dec_str v), fl), (dec_str dir, dec_str tb))
      | _ -> failwith "bad decl") (split_sep ';' f.(3)) in
    let tags = Stdlib.List.map (fun d ->
      match Stdlib.String.split_on_char ',' d with
      | [n; t; v] -> ((((stack_s, dec_str n), dec_str t), fl), dec_str v)
      | _ -> failwith "bad tag") (split_sep ';' f.(4)) in
    let fs = Stdlib.List.map dec_str (split_sep ';' f.(5)) in
    let st = { rdb = { apath = [stack_s]; adecls = decls; atags = tags }; rfs = fs } in
    let c = { rc_flavor = fl; rc_default = dec_str f.(7); rc_force = bool_of_field f.(8) } in
    let fuel = nat_of_int (Stdlib.List.length w + 2) in
    let (r, st') = remove skip once keep fuel w c st (dec_str f.(9)) (dec_str f.(10)) (bool_of_field f.(11)) (bool_of_field f.(12)) in
    let out = (match r with Ok _ -> "ok" | Err k -> "err=" ^ err_name k) in
    let ds = Stdlib.String.concat ";" (Stdlib.List.map (fun ((((_, n), v), _), (dir, tb)) -> enc_str n ^ "," ^ enc_str v ^ "," ^ enc_str dir ^ "," ^ enc_str tb) st'.rdb.adecls) in
    let ts = Stdlib.String.concat ";" (Stdlib.List.map (fun ((((_, n), t), _), v) -> enc_str n ^ "," ^ enc_str t ^ "," ^ enc_str v) st'.rdb.atags) in
    let ps = Stdlib.String.concat ";" (Stdlib.List.map enc_str st'.rfs) in
    out ^ "\t" ^ ds ^ "\t" ^ ts ^ "\t" ^ ps
  | "rmx" ->
    let xall = (f.(1) = "1" || f.(1) = "11" || f.(1) = "10") in
    let keep = (f.(1) = "1" || f.(1) = "11" || f.(1) = "01") in
    let ww = dec_world f.(2) in
    let wu = dec_world f.(3) in
    let path = Stdlib.List.map dec_str (split_sep ';' f.(4)) in
    let decls = Stdlib.List.map (fun d ->
      match Stdlib.String.split_on_char ',' d with
      | [s; fl; n; v; dir; tb] -> ((((dec_str s, dec_str n), dec_str v), dec_str fl), (dec_str dir, dec_str tb))
      | _ -> failwith "bad decl") (split_sep ';' f.(5)) in
    let tags = Stdlib.List.map (fun d ->
      match Stdlib.String.split_on_char ',' d with
      | [s; fl; n; t; v] -> ((((dec_str s, dec_str n), dec_str t), dec_str fl), dec_str v)
      | _ -> failwith "bad tag") (split_sep ';' f.(6)) in
    let fs = Stdlib.List.map dec_str (split_sep ';' f.(7)) in
    let st = { rdb = { apath = path; adecls = decls; atags = tags }; rfs = fs } in
    let o = (match Stdlib.String.split_on_char ',' f.(10) with
      | [r; n; fo; i] -> { ro_recursive = bool_of_field r; ro_nocheck = bool_of_field n; ro_force = bool_of_field fo;
                           ro_interactive = (if i = "N" then None else Some (bool_of_field i)) }
      | _ -> failwith "bad opts") in
    let args = Stdlib.List.map dec_str (split_sep ';' f.(11)) in
    let answers = if f.(12) = "-" then [] else Stdlib.List.map dec_str (Stdlib.String.split_on_char ';' f.(12)) in
    let fuel = nat_of_int (Stdlib.List.length ww + Stdlib.List.length wu + 2) in
    (match eups_remove xall keep fuel ww wu (dec_str f.(8)) (dec_str f.(9)) st o args answers with
     | None -> "usage\t\t\t"
     | Some (r, st') ->
       let out = (match r with Ok _ -> "ok" | Err k -> "err=" ^ err_name k) in
       let ds = Stdlib.String.concat ";" (Stdlib.List.map (fun ((((s, n), v), fl), (dir, tb)) ->
         enc_str s ^ "," ^ enc_str fl ^ "," ^ enc_str n ^ "," ^ enc_str v ^ "," ^ enc_str dir ^ "," ^ enc_str tb) st'.rdb.adecls) in
       let ts = Stdlib.String.concat ";" (Stdlib.List.map (fun ((((s, n), t), fl), v) ->
         enc_str s ^ "," ^ enc_str fl ^ "," ^ enc_str n ^ "," ^ enc_str t ^ "," ^ enc_str v) st'.rdb.atags) in
       let ps = Stdlib.String.concat ";" (Stdlib.List.map enc_str st'.rfs) in
       out ^ "\t" ^ ds ^ "\t" ^ ts ^ "\t" ^ ps)
  | _ -> failwith "unknown op"

let () = main_loop handle
