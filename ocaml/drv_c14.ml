(* C14 driver.  Fields (TAB separated):
     rm  VARIANT WORLD DECLS TAGS FS FLAVOR DEFAULT FORCE NAME VERSION RECURSIVE CHECK
         -> outcome TAB decls TAB tags TAB fs
   VARIANT  = fixed | pinned | skiponly | onceonly
   WORLD    = product '|' product ...     product = name ',' version ',' edge ';' edge ...     (as in drv_c13)
   edge     = name ':' optstr ':' optstr ':' 0/1       (line version, resolved version, optional)
   optstr   = 'N' | 'S' enc
   DECLS    = name ',' version ',' dir ',' table  joined by ';'      (one stack, called S)
   TAGS     = name ',' tag ',' version            joined by ';'
   FS       = path joined by ';'
   outcome  = ok | err=Kind ;  decls = name ',' version ',' dir ',' table joined by ';' ;  tags = name ',' tag ',' version *)
let dec_opt (s : Stdlib.String.t) : ascii list option =
  if s = "N" then None else Some (dec_str (Stdlib.String.sub s 1 (Stdlib.String.length s - 1)))

let dec_edge (s : Stdlib.String.t) : edge =
  match Stdlib.String.split_on_char ':' s with
  | [n; v; r; o] -> { ename = dec_str n; evers = dec_opt v; eres = dec_opt r; eopt = bool_of_field o }
  | _ -> failwith "bad edge"

let dec_world (s : Stdlib.String.t) : ((ascii list * ascii list) * edge list) list =
  Stdlib.List.map (fun p ->
    match Stdlib.String.split_on_char ',' p with
    | [n; v; es] -> ((dec_str n, dec_str v), Stdlib.List.map dec_edge (split_sep ';' es))
    | _ -> failwith "bad product") (split_sep '|' s)

let stack_s = str_of_string "S"

let handle (f : Stdlib.String.t array) : Stdlib.String.t =
  match f.(0) with
  | "rm" ->
    let (skip, once) = (match f.(1) with
      | "fixed" -> (true, true) | "pinned" -> (false, false)
      | "skiponly" -> (true, false) | "onceonly" -> (false, true) | _ -> failwith "bad variant") in
    let w = dec_world f.(2) in
    let fl = dec_str f.(6) in
    let decls = Stdlib.List.map (fun d ->
      match Stdlib.String.split_on_char ',' d with
      | [n; v; dir; tb] -> ((((stack_s, dec_str n), dec_str v), fl), (dec_str dir, dec_str tb))
      | _ -> failwith "bad decl") (split_sep ';' f.(3)) in
    let tags = Stdlib.List.map (fun d ->
      match Stdlib.String.split_on_char ',' d with
      | [n; t; v] -> ((((stack_s, dec_str n), dec_str t), fl), dec_str v)
      | _ -> failwith "bad tag") (split_sep ';' f.(4)) in
    let fs = Stdlib.List.map dec_str (split_sep ';' f.(5)) in
    let st = { rdb = { apath = [stack_s]; adecls = decls; atags = tags }; rfs = fs } in
    let c = { rc_flavor = fl; rc_default = dec_str f.(7); rc_force = bool_of_field f.(8) } in
    let fuel = nat_of_int (Stdlib.List.length w + 2) in
    let (r, st') = remove skip once fuel w c st (dec_str f.(9)) (dec_str f.(10)) (bool_of_field f.(11)) (bool_of_field f.(12)) in
    let out = (match r with Ok _ -> "ok" | Err k -> "err=" ^ err_name k) in
    let ds = Stdlib.String.concat ";" (Stdlib.List.map (fun ((((_, n), v), _), (dir, tb)) -> enc_str n ^ "," ^ enc_str v ^ "," ^ enc_str dir ^ "," ^ enc_str tb) st'.rdb.adecls) in
    let ts = Stdlib.String.concat ";" (Stdlib.List.map (fun ((((_, n), t), _), v) -> enc_str n ^ "," ^ enc_str t ^ "," ^ enc_str v) st'.rdb.atags) in
    let ps = Stdlib.String.concat ";" (Stdlib.List.map enc_str st'.rfs) in
    out ^ "\t" ^ ds ^ "\t" ^ ts ^ "\t" ^ ps
  | _ -> failwith "unknown op"

let () = main_loop handle
