(* C16 driver: version / chain record codec, path canonicalisation and resolution *)
let dec_val (s : Stdlib.String.t) : ascii list option = if s = "~" then None else Some (dec_str s)
let enc_val (v : ascii list option) : Stdlib.String.t = match v with None -> "~" | Some s -> enc_str s

let dec_lines (s : Stdlib.String.t) : ascii list list = dec_strlist '|' s
let enc_lines (l : ascii list list) : Stdlib.String.t = enc_strlist '|' l

let ex_of (s : Stdlib.String.t) : ascii list -> bool =
  let l = dec_strlist ';' s in
  let h = Hashtbl.create 64 in
  List.iter (fun x -> Hashtbl.replace h x ()) l;
  fun p -> Hashtbl.mem h p

(* the environment field: cwd & link=target;link=target...  (absent or empty: no links, cwd is the root) *)
let dec_env (s : Stdlib.String.t) : penv =
  if s = "" then env0 else
  match Stdlib.String.index_opt s '&' with
  | None -> { pe_links = []; pe_cwd = dec_str s }
  | Some i ->
    let cwd = Stdlib.String.sub s 0 i in
    let rest = Stdlib.String.sub s (i + 1) (Stdlib.String.length s - i - 1) in
    let lk = List.map (fun kv ->
        match Stdlib.String.index_opt kv '=' with
        | Some j -> (dec_str (Stdlib.String.sub kv 0 j),
                     dec_str (Stdlib.String.sub kv (j + 1) (Stdlib.String.length kv - j - 1)))
        | None -> failwith "bad link") (split_sep ';' rest) in
    { pe_links = lk; pe_cwd = dec_str cwd }
let env_at (f : Stdlib.String.t array) (i : int) : penv = if Array.length f > i then dec_env f.(i) else env0
(* a path exists when the name it resolves to is in the listing of the real tree *)
let ex_in (pe : penv) (s : Stdlib.String.t) : ascii list -> bool = ex_via pe.pe_links (ex_of s)

let split1 (c : char) (s : Stdlib.String.t) : Stdlib.String.t * Stdlib.String.t =
  match String.index_opt s c with
  | Some i -> (String.sub s 0 i, String.sub s (i + 1) (String.length s - i - 1))
  | None -> (s, "")

let dec_info (s : Stdlib.String.t) : (ascii list * ascii list option) list =
  List.map (fun kv -> let (k, v) = split1 '=' kv in (dec_str k, dec_val v)) (split_sep ';' s)
let enc_info (i : (ascii list * ascii list option) list) : Stdlib.String.t =
  String.concat ";" (List.map (fun (k, v) -> enc_str k ^ "=" ^ enc_val v) i)

let dec_blocks (s : Stdlib.String.t) =
  List.map (fun b -> let (f, i) = split1 ',' b in (dec_str f, dec_info i)) (split_sep '|' s)
let enc_blocks m = String.concat "|" (List.map (fun (f, i) -> enc_str f ^ "," ^ enc_info i) m)

let dec_cinfo (s : Stdlib.String.t) : (ascii list * ascii list) list =
  List.map (fun kv -> let (k, v) = split1 '=' kv in (dec_str k, dec_str v)) (split_sep ';' s)
let enc_cinfo i = String.concat ";" (List.map (fun (k, v) -> enc_str k ^ "=" ^ enc_str v) i)
let dec_cblocks (s : Stdlib.String.t) =
  List.map (fun b -> let (f, i) = split1 ',' b in (dec_str f, dec_cinfo i)) (split_sep '|' s)
let enc_cblocks m = String.concat "|" (List.map (fun (f, i) -> enc_str f ^ "," ^ enc_cinfo i) m)

let dec_product (s : Stdlib.String.t) : product =
  match String.split_on_char ',' s with
  | [n; v; f; d; t; db; u] ->
    { p_name = dec_str n; p_version = dec_str v; p_flavor = dec_str f; p_dir = dec_val d;
      p_table = dec_val t; p_db = dec_val db; p_ups = dec_val u }
  | _ -> failwith "bad product"
let enc_product (p : product) : Stdlib.String.t =
  String.concat "," [enc_str p.p_name; enc_str p.p_version; enc_str p.p_flavor; enc_val p.p_dir;
                     enc_val p.p_table; enc_val p.p_db; enc_val p.p_ups]

let show_lines (r : ascii list list res) : Stdlib.String.t =
  match r with Ok l -> "ok\t" ^ enc_lines l | Err k -> "err\t" ^ err_name k

let show_class (c : cline) : Stdlib.String.t =
  match c with
  | CBlank -> "blank" | CGroupEnd -> "groupend" | CBad -> "bad"
  | CKV (k, v) -> "kv\t" ^ enc_str k ^ "\t" ^ enc_str v

let handle (f : Stdlib.String.t array) : Stdlib.String.t =
  match f.(0) with
  | "vfread" ->
    (match vf_read (dec_val f.(1)) (dec_val f.(2)) (dec_lines f.(3)) with
     | Ok r -> "ok\t" ^ enc_val r.vf_name ^ "\t" ^ enc_val r.vf_version ^ "\t" ^ enc_blocks r.vf_info
     | Err k -> "err\t" ^ err_name k)
  | "vflines" ->
    show_lines (vf_lines { vf_name = dec_val f.(1); vf_version = dec_val f.(2); vf_info = dec_blocks f.(3) })
  | "vfwrite" ->
    let pe = env_at f 7 in
    show_lines (vf_write_gen (bool_of_field f.(1)) pe (ex_in pe f.(2)) (dec_val f.(3))
                  { vf_name = dec_val f.(4); vf_version = dec_val f.(5); vf_info = dec_blocks f.(6) })
  | "addflavor" ->
    let r = add_flavor (dec_str "W") (dec_str "T") (dec_str f.(1)) (dec_val f.(2)) (dec_val f.(3)) (dec_val f.(4))
        { vf_name = dec_val f.(5); vf_version = dec_val f.(6); vf_info = dec_blocks f.(7) } in
    "ok\t" ^ enc_val r.vf_name ^ "\t" ^ enc_val r.vf_version ^ "\t" ^ enc_blocks r.vf_info
  | "cfread" ->
    (match cf_read (dec_val f.(1)) (dec_val f.(2)) (dec_lines f.(3)) with
     | Ok r -> "ok\t" ^ enc_val r.cf_name ^ "\t" ^ enc_val r.cf_tag ^ "\t" ^ enc_cblocks r.cf_info
     | Err k -> "err\t" ^ err_name k)
  | "cflines" ->
    show_lines (cf_lines { cf_name = dec_val f.(1); cf_tag = dec_val f.(2); cf_info = dec_cblocks f.(3) })
  | "cfset" ->
    let r = cf_set_version (dec_str "W") (dec_str "T") (dec_str f.(1)) (dec_str f.(2))
        { cf_name = dec_val f.(3); cf_tag = dec_val f.(4); cf_info = dec_cblocks f.(5) } in
    "ok\t" ^ enc_val r.cf_name ^ "\t" ^ enc_val r.cf_tag ^ "\t" ^ enc_cblocks r.cf_info
  | "canon" -> "ok\t" ^ enc_product (canon_gen (bool_of_field f.(1)) (dec_product f.(2)))
  | "resolve" -> "ok\t" ^ enc_product (resolve_paths (ex_of f.(1)) (dec_product f.(2)))
  | "mkresolve" ->
    (* Product(...) followed by resolvePaths, as makeProduct does *)
    let p = dec_product f.(2) in
    let ex = ex_of f.(1) in
    "ok\t" ^ enc_product (resolve_paths ex (mk_product ex p.p_name p.p_version p.p_flavor p.p_dir p.p_table p.p_db p.p_ups))
  | "declare" ->
    let pe = env_at f 5 in
    show_lines (db_declare_gen (bool_of_field f.(1)) pe (ex_in pe f.(2)) (dec_str "W") (dec_str "T") (dec_product f.(3))
                  (if f.(4) = "~" then None else Some (dec_lines f.(4))))
  | "find" ->
    (match db_find (ex_in (env_at f 8) f.(1)) (dec_val f.(2)) (dec_val f.(3)) (dec_str f.(4)) (dec_val f.(5)) (dec_val f.(6))
             (dec_lines f.(7)) with
     | Ok (Some p) -> "ok\t" ^ enc_product p
     | Ok None -> "none"
     | Err k -> "err\t" ^ err_name k)
  | "canon2" ->
    (* Product(...).clone().canonicalizePaths() *)
    let ex = ex_of f.(1) in
    let p = dec_product f.(2) in
    let p1 = mk_product ex p.p_name p.p_version p.p_flavor p.p_dir p.p_table p.p_db p.p_ups in
    "ok\t" ^ enc_product (canon_gen true (mk_product ex p1.p_name p1.p_version p1.p_flavor p1.p_dir p1.p_table p1.p_db p1.p_ups))
  | "addwrite" ->
    (* VersionFile(name, version), addFlavor for each entry, write(trimDir) *)
    let ex = ex_of f.(1) in
    let adds = List.map (fun a -> match Stdlib.String.split_on_char ',' a with
        | [fl; d; t; u] -> (dec_str fl, dec_val d, dec_val t, dec_val u)
        | _ -> failwith "bad add") (split_sep '|' f.(5)) in
    let r = List.fold_left (fun r (fl, d, t, u) -> add_flavor (dec_str "W") (dec_str "T") fl d t u r)
        { vf_name = dec_val f.(3); vf_version = dec_val f.(4); vf_info = [] } adds in
    (match vf_write_gen true (env_at f 6) ex (dec_val f.(2)) r with
     | Ok l -> "ok\t" ^ enc_blocks r.vf_info ^ "\t" ^ enc_lines l
     | Err k -> "err\t" ^ err_name k)
  | "cfassign" ->
    (* ChainFile(file, name, tag) ; setVersion(version, [flavor]) ; write *)
    let start = if f.(5) = "~" then Ok { cf_name = dec_val f.(1); cf_tag = dec_val f.(2); cf_info = [] }
      else cf_read (dec_val f.(1)) (dec_val f.(2)) (dec_lines f.(5)) in
    (match start with
     | Ok c -> show_lines (cf_lines (cf_set_version (dec_str "W") (dec_str "T") (dec_str f.(3)) (dec_str f.(4)) c))
     | Err k -> "err\t" ^ err_name k)
  | "cfversions" ->
    (* Database.getTaggedVersion for each flavor: the chain file is read without a name *)
    let fls = List.map dec_str (split_sep ',' f.(4)) in
    if f.(3) = "~" then "ok\t" ^ Stdlib.String.concat "," (List.map (fun _ -> "~") fls)
    else (match cf_read None None (dec_lines f.(3)) with
        | Ok c -> "ok\t" ^ Stdlib.String.concat "," (List.map (fun fl -> enc_val (cf_get_version fl c)) fls)
        | Err k -> "err\t" ^ err_name k)
  | "cfremove" ->
    (* Database.unassignTag(tag, name, [flavor]): ChainFile(file) ; removeVersion(flavor) ; write if changed *)
    (match cf_read None None (dec_lines f.(1)) with
     | Ok c ->
       if cf_get_version (dec_str f.(2)) c = None && not (List.exists (fun (k, _) -> k = dec_str f.(2)) c.cf_info)
       then "ok\t" ^ enc_lines (dec_lines f.(1))
       else show_lines (cf_lines (cf_remove_version (dec_str f.(2)) c))
     | Err k -> "err\t" ^ err_name k)
  | "vfremove" ->
    (* Database.undeclare: VersionFile(file) ; removeFlavor(flavor) ; write() if changed *)
    (match vf_read None None (dec_lines f.(1)) with
     | Ok r ->
       if not (List.exists (fun (k, _) -> k = dec_str f.(2)) r.vf_info) then "ok\t" ^ enc_lines (dec_lines f.(1))
       else show_lines (vf_write_gen true env0 (fun _ -> false) None (vf_remove_flavor (dec_str f.(2)) r))
     | Err k -> "err\t" ^ err_name k)
  | "dbassign" ->
    (* Database.assignTag(tag, name, version, flavors): name, tag, version, flavors (~ for None, a comma
       list otherwise), text of the version file (~: no file), text of the chain file (~: no file) *)
    let req = if f.(4) = "~" then None else Some (List.map dec_str (split_sep ',' f.(4))) in
    let opt s = if s = "~" then None else Some (dec_lines s) in
    show_lines (db_assign_tag (dec_str "W") (dec_str "T") (dec_str f.(1)) (dec_str f.(2)) (dec_str f.(3)) req
                  (opt f.(5)) (opt f.(6)))
  | "dbassignin" ->
    (* Database.assignTag with the chain file kept in the product's own database, the user's tag directory
       or the database named by writeableDB: name, tag, version, flavors, text of the version file, the
       product's own directory, user tag? (1/0), the user's directory (~: none), writeableDB's (~: none),
       number of chain files, then (directory, text) per chain file.  Answer: the chain files afterwards *)
    let req = if f.(4) = "~" then None else Some (List.map dec_str (split_sep ',' f.(4))) in
    let opt s = if s = "~" then None else Some (dec_lines s) in
    let n = int_of_string f.(10) in
    let cs = List.init n (fun i -> (dec_str f.(11 + 2 * i), dec_lines f.(12 + 2 * i))) in
    (match db_assign_tag_in (dec_str "W") (dec_str "T") (dec_str f.(1)) (dec_str f.(2)) (dec_str f.(3)) req
             (opt f.(5)) (dec_str f.(6)) (bool_of_field f.(7)) (dec_val f.(8)) (dec_val f.(9)) cs with
     | Ok m -> Stdlib.String.concat "\t" ("ok" :: List.concat_map (fun (d, l) -> [enc_str d; enc_lines l]) m)
     | Err k -> "err\t" ^ err_name k)
  | "cfops" ->
    (* ChainFile(file, name, tag) ; setVersion / removeVersion with a list, a string or None ; write.
       ops: set,version,flavors | rm,flavors  with flavors = ~ (None) or a semicolon list *)
    let start = if f.(3) = "~" then Ok { cf_name = dec_val f.(1); cf_tag = dec_val f.(2); cf_info = [] }
      else cf_read (dec_val f.(1)) (dec_val f.(2)) (dec_lines f.(3)) in
    let fls s = if s = "~" then None else Some (List.map dec_str (split_sep ';' s)) in
    let step r op = match r with
      | Err k -> Err k
      | Ok c -> (match Stdlib.String.split_on_char ',' op with
          | ["set"; v; l] -> cf_set_versions_opt (dec_str "W") (dec_str "T") (dec_str v) (fls l) c
          | ["rm"; l] -> Ok (cf_remove_versions_opt (fls l) c)
          | _ -> failwith "bad chain op") in
    (match List.fold_left step start (split_sep '|' f.(4)) with
     | Ok c -> show_lines (cf_lines c)
     | Err k -> "err\t" ^ err_name k)
  | "findseq" ->
    (* several Database.findProduct in one process: listing, root, links, number of texts, then
       (name, version, text) per text, then the queries name,version,flavor;... *)
    let pe = env_at f 3 in
    let n = int_of_string f.(4) in
    let texts = List.init n (fun i -> ((dec_str f.(5 + 3 * i), dec_str f.(6 + 3 * i)), dec_lines f.(7 + 3 * i))) in
    let qs = List.map (fun q -> match Stdlib.String.split_on_char ',' q with
        | [a; b; c] -> ((dec_str a, dec_str b), dec_str c)
        | _ -> failwith "bad query") (split_sep ';' f.(5 + 3 * n)) in
    Stdlib.String.concat "|" (List.map (fun r -> match r with
        | Ok (Some p) -> "ok:" ^ enc_product p
        | Ok None -> "none"
        | Err k -> "err:" ^ err_name k) (db_find_seq (ex_in pe f.(1)) (dec_str f.(2)) texts qs))
  | "realpath" -> "ok\t" ^ enc_str (realpath (dec_env f.(1)).pe_links (dec_str f.(2)))
  | "vfclass" -> show_class (vf_classify (dec_str f.(1)))
  | "cfclass" -> show_class (cf_classify (dec_str f.(1)))
  | _ -> failwith "unknown op"

let () = main_loop handle
