(* C17 driver (Model/Expand.v, Model/Setup.v).
   line: expand TAB world TAB env TAB top TAB plist TAB force TAB lines TAB rawdeps [TAB jfix,sfix,cfix]
     world   = product|product...     product = name:version:dir:act+act...     (as in drv_c01.ml)
     env     = k=v;k=v                plist = k=v;k=v
     lines   = line|line...           line = B | C,text | O,text
                                           | S,optional,name,flag;flag,version-or-!,rest;rest,logical-or-!,orig
     rawdeps = entry|entry...         entry = name:version:dep,optional,depth+dep,optional,depth...
   answer: ok TAB text|text...  (one rendered line each) | err TAB kind
   line: xtext TAB world TAB env TAB top TAB plist TAB force TAB text TAB rawdeps [TAB tfix,jfix,sfix,cfix]
     text    = the text of the table file (level A is done by the model: Model/ExpandText.v)
   answer: ok TAB text (the text written, white space included) | outside TAB reason | err TAB kind
   line: xtextopt TAB world TAB env TAB top TAB plist TAB force TAB text TAB rawdeps TAB expandVersions,addExactBlock
     the same with the two switches of app.expandTableFile / eups expandtable -N --noExact (Model/ExpandOpt.v)
   line: unexpand TAB text
   answer: ok TAB text (the text without the lines an earlier expansion added: Model/ExpandRe.v)
   line: classify TAB text [TAB tfix]
   answer: ok TAB line|line... (as above) | outside TAB reason | err TAB kind
   line: req ...  exactly as in drv_c01.ml (the exact-mode replay through Model/Setup.v) *)
let dec_env (s : Stdlib.String.t) =
  dec_list ';' (fun kv ->
    match Stdlib.String.index_opt kv '=' with
    | Some i -> (dec_str (Stdlib.String.sub kv 0 i), dec_str (Stdlib.String.sub kv (i + 1) (Stdlib.String.length kv - i - 1)))
    | None -> (dec_str kv, [])) s
let enc_env e = enc_list ';' (fun (k, v) -> enc_str k ^ "=" ^ enc_str v) e

let dec_act (s : Stdlib.String.t) : action =
  match Stdlib.String.split_on_char ',' s with
  | ["S"; o; n; j] -> ASetup (bool_of_field o, dec_str n, bool_of_field j)
  | ["P"; a; var; v; d] -> APath (bool_of_field a, dec_str var, dec_str v, ascii_of_char (dec d).[0])
  | ["E"; k; v] -> ASet (dec_str k, dec_str v)
  | ["U"; k] -> AUnset (dec_str k)
  | ["A"; k; v] -> AAlias (dec_str k, dec_str v)
  | ["N"] -> ANone
  | _ -> failwith ("bad action " ^ s)

let dec_product (s : Stdlib.String.t) : product =
  match Stdlib.String.split_on_char ':' s with
  | [n; v; d; acts] -> { p_name = dec_str n; p_version = dec_str v; p_dir = dec_str d;
                         p_actions = Stdlib.List.map dec_act (split_sep '+' acts) }
  | [n; v; d] -> { p_name = dec_str n; p_version = dec_str v; p_dir = dec_str d; p_actions = [] }
  | _ -> failwith "bad product"

let dec_cfg (s : Stdlib.String.t) : config =
  match Stdlib.String.split_on_char ',' s with
  | f :: r :: m :: k :: rest ->
      (* optional fifth field (as in drv_c01.ml): name~version~flavor triples separated by + *)
      let fl = match rest with
        | [] | [""] -> []
        | [x] -> Stdlib.List.map (fun t -> match Stdlib.String.split_on_char '~' t with
                                           | [n; v; fv] -> ((dec_str n, dec_str v), dec_str fv)
                                           | _ -> failwith "bad flavor triple") (Stdlib.String.split_on_char '+' x)
        | _ -> failwith "bad cfg" in
      { c_flavor = dec_str f; c_root = dec_str r;
        c_max_depth = (if m = "-" then None else Some (nat_of_int (int_of_string m)));
        c_keep = bool_of_field k; c_flavors = fl }
  | _ -> failwith "bad cfg"

let dec_decisions (s : Stdlib.String.t) : (ascii list) option list =
  Stdlib.List.map (fun x -> if x = "!" then None else Some (dec_str x)) (split_sep ',' s)

let dec_opt (s : Stdlib.String.t) : (ascii list) option = if s = "!" then None else Some (dec_str s)

let dec_line (s : Stdlib.String.t) : tline =
  match Stdlib.String.split_on_char ',' s with
  | ["B"] -> LBlank
  | ["C"; t] -> LComment (dec_str t)
  | ["O"; t] -> LOther (dec_str t)
  | ["E"; t] -> LEups (dec_str t)
  | ["S"; o; n; fl; v; rest; lg; orig] ->
    LSetup { sl_optional = bool_of_field o; sl_name = dec_str n; sl_flags = dec_strlist ';' fl;
             sl_version = dec_opt v; sl_rest = dec_strlist ';' rest; sl_logical = dec_opt lg; sl_orig = dec_str orig }
  | _ -> failwith ("bad line " ^ s)

let dec_dep (s : Stdlib.String.t) : dep =
  match Stdlib.String.split_on_char ',' s with
  | [n; o; d] -> { d_name = dec_str n; d_optional = bool_of_field o; d_depth = nat_of_int (int_of_string d) }
  | _ -> failwith "bad dep"

let dec_raw (s : Stdlib.String.t) =
  match Stdlib.String.split_on_char ':' s with
  | [n; v; l] -> ((dec_str n, dec_str v), Stdlib.List.map dec_dep (split_sep '+' l))
  | [n; v] -> ((dec_str n, dec_str v), [])
  | _ -> failwith "bad rawdeps"

let outside_name = function
  | XNonAscii -> "non-ascii" | XExternal -> "external" | XExactBlock -> "exact-block" | XTextAround -> "text-around"
  | XParen -> "paren" | XNoName -> "no-name" | XNameNotFirst -> "name-not-first" | XFlagArg -> "flag-arg" | XExpr -> "expression" | XNewline -> "newline"

let enc_opt = function None -> "!" | Some x -> enc_str x
let enc_tline = function
  | LBlank -> "B"
  | LComment t -> "C," ^ enc_str t
  | LOther t -> "O," ^ enc_str t
  | LEups t -> "E," ^ enc_str t
  | LSetup s -> Stdlib.String.concat "," ["S"; (if s.sl_optional then "1" else "0"); enc_str s.sl_name;
                                          enc_strlist ';' s.sl_flags; enc_opt s.sl_version; enc_strlist ';' s.sl_rest;
                                          enc_opt s.sl_logical; enc_str s.sl_orig]

let handle (f : Stdlib.String.t array) : Stdlib.String.t =
  match f.(0) with
  | "xtext" ->
    let w = Stdlib.List.map dec_product (split_sep '|' f.(1)) in
    let e = dec_env f.(2) in
    let top = dec_str f.(3) in
    let plist = dec_env f.(4) in
    let force = bool_of_field f.(5) in
    let text = dec_str f.(6) in
    let rd = Stdlib.List.map dec_raw (split_sep '|' f.(7)) in
    let (tfix, jfix, sfix, cfix) =
      if Array.length f > 8 then
        (match Stdlib.String.split_on_char ',' f.(8) with
         | [t; a; b; c] -> (bool_of_field t, bool_of_field a, bool_of_field b, bool_of_field c)
         | _ -> failwith "bad variant")
      else (true, true, true, true) in
    (* the repaired code drops the lines of an earlier expansion while it reads the table (Model/ExpandRe.v);
       the text model of the pinned tree (tfix = false) does not *)
    (match (if tfix then reexpand_text_gen else expand_text_gen) tfix jfix sfix cfix w e top plist force rd text with
     | Inside out -> "ok\t" ^ enc_str out
     | Outside x -> "outside\t" ^ outside_name x
     | Raises k -> "err\t" ^ err_name k)
  | "xtextopt" ->
    (* the expansion with the two switches (Model/ExpandOpt.v), the repaired code: field 8 = expandVersions,addExactBlock *)
    let w = Stdlib.List.map dec_product (split_sep '|' f.(1)) in
    let e = dec_env f.(2) in
    let top = dec_str f.(3) in
    let plist = dec_env f.(4) in
    let force = bool_of_field f.(5) in
    let text = dec_str f.(6) in
    let rd = Stdlib.List.map dec_raw (split_sep '|' f.(7)) in
    let (ev, ab) =
      (match Stdlib.String.split_on_char ',' f.(8) with
       | [a; b] -> (bool_of_field a, bool_of_field b)
       | _ -> failwith "bad switches") in
    (match reexpand_text_opt ev ab true true true true w e top plist force rd text with
     | Inside out -> "ok\t" ^ enc_str out
     | Outside x -> "outside\t" ^ outside_name x
     | Raises k -> "err\t" ^ err_name k)
  | "unexpand" -> "ok\t" ^ enc_str (unexpand_text (dec_str f.(1)))
  | "classify" ->
    (match classify_text (if Array.length f > 2 then bool_of_field f.(2) else true) (dec_str f.(1)) with
     | Inside ls -> "ok\t" ^ Stdlib.String.concat "|" (Stdlib.List.map enc_tline ls)
     | Outside x -> "outside\t" ^ outside_name x
     | Raises k -> "err\t" ^ err_name k)
  | "expand" ->
    let w = Stdlib.List.map dec_product (split_sep '|' f.(1)) in
    let e = dec_env f.(2) in
    let top = dec_str f.(3) in
    let plist = dec_env f.(4) in
    let force = bool_of_field f.(5) in
    let ls = Stdlib.List.map dec_line (split_sep '|' f.(6)) in
    let rd = Stdlib.List.map dec_raw (split_sep '|' f.(7)) in
    let (jfix, sfix, cfix) =
      if Array.length f > 8 then
        (match Stdlib.String.split_on_char ',' f.(8) with
         | [a; b] -> (bool_of_field a, bool_of_field b, true)
         | [a; b; c] -> (bool_of_field a, bool_of_field b, bool_of_field c)
         | _ -> failwith "bad variant")
      else (true, true, true) in
    (match expand_gen jfix sfix cfix w e top plist force rd ls with
     | Ok out -> "ok\t" ^ Stdlib.String.concat "|" (Stdlib.List.map (fun o -> let s = enc_str (render o) in if s = "" then "%" else s) out)
     | Err k -> "err\t" ^ err_name k)
  | "req" ->
    let w = Stdlib.List.map dec_product (split_sep '|' f.(1)) in
    let cfg = dec_cfg f.(2) in
    let st = { s_env = dec_env f.(3); s_aliases = dec_env f.(4) } in
    let ds = dec_decisions f.(5) in
    let fuel = nat_of_int (int_of_string f.(9)) in
    (match setup w cfg fuel st ds (dec_str f.(6)) (bool_of_field f.(7)) O (bool_of_field f.(8)) with
     | RDone (true, st', ds') -> "ok\t" ^ enc_env st'.s_env ^ "\t" ^ enc_env st'.s_aliases ^ "\t" ^ string_of_int (Stdlib.List.length ds')
     | RDone (false, _, ds') -> "fail\t" ^ string_of_int (Stdlib.List.length ds')
     | RRaise (_, _) -> "raise"
     | RFuel -> "err\tOutOfFuel"
     | RBad -> "err\tBadDecisions")
  | _ -> failwith "unknown op"

let () = main_loop handle
